package main

// Family alloc (properties C04 C05 C06 C07): drives the two real bitmap
// allocators through operation sequences over the alphabet of spec/Alloc.tla
// (hints: none / foreign / blk(b,long) / outside(side,d,long); Free arguments:
// blk(b,sub) / outside(side,d)), concretised on a table of pool geometries, and
// records for every call the abstract argument and the abstracted result
// (block index, length, alignment, containment - computed here with math/big).

import (
	"encoding/hex"
	"encoding/json"
	"errors"
	"flag"
	"fmt"
	"math/big"
	"math/rand"
	"net"
	"os"
	"runtime"
	"strconv"
	"strings"
	"sync"
	"sync/atomic"
	"time"

	"github.com/coredhcp/coredhcp/plugins/allocators"
	"github.com/coredhcp/coredhcp/plugins/allocators/bitmap"
	"github.com/coredhcp/coredhcp/verifhook"
)

func init() { families["alloc"] = runAlloc }

// geom is one concrete pool.
type geom struct {
	kind    string // v4 | v6
	name    string
	base    *big.Int // first address of the pool
	bsize   *big.Int // addresses per block
	n       int      // blocks
	page    int      // allocation length (32 for v4)
	poollen int
	mk      func() (allocators.Allocator, error)
}

func ipToBig(ip net.IP, kind string) *big.Int {
	if kind == "v4" {
		if v := ip.To4(); v != nil {
			return new(big.Int).SetBytes(v)
		}
		return nil
	}
	if len(ip) == 16 {
		return new(big.Int).SetBytes(ip)
	}
	return nil
}

func bigToIP(v *big.Int, n int) net.IP {
	b := v.Bytes()
	if len(b) > n {
		return nil
	}
	r := make(net.IP, n)
	copy(r[n-len(b):], b)
	return r
}

var decoys []allocators.Allocator // kept alive on purpose
var decoyMu sync.Mutex

func geomV4(start, end string) geom {
	s, e := net.ParseIP(start), net.ParseIP(end)
	sb, eb := ipToBig(s, "v4"), ipToBig(e, "v4")
	n := int(new(big.Int).Sub(eb, sb).Int64()) + 1
	return geom{kind: "v4", name: start + "-" + end, base: sb, bsize: big.NewInt(1), n: n, page: 32, poollen: 0,
		mk: func() (allocators.Allocator, error) {
			return bitmap.NewIPv4Allocator(net.ParseIP(start), net.ParseIP(end))
		}}
}

func geomV6(pool string, page int) geom {
	_, p, err := net.ParseCIDR(pool)
	if err != nil {
		panic(err)
	}
	pl, _ := p.Mask.Size()
	bs := new(big.Int).Lsh(big.NewInt(1), uint(128-page))
	return geom{kind: "v6", name: pool + ">" + strconv.Itoa(page), base: ipToBig(p.IP.To16(), "v6"), bsize: bs,
		n: 1 << uint(page-pl), page: page, poollen: pl,
		mk: func() (allocators.Allocator, error) {
			// a fresh copy of the pool for every allocator: instances must not share address bytes
			_, fresh, err := net.ParseCIDR(pool)
			if err != nil {
				return nil, err
			}
			a, err := bitmap.NewBitmapAllocator(*fresh, page)
			// a second allocator of ANOTHER allocation length comes to life right afterwards and stays unused (a server
			// with two pools): what an allocator knows about its own geometry must be its own
			_, other, _ := net.ParseCIDR("2001:db8:dec0::/48")
			decoyPage := 64
			if page == 64 {
				decoyPage = 56
			}
			decoyMu.Lock()
			d, _ := bitmap.NewBitmapAllocator(*other, decoyPage)
			decoys = append(decoys, d)
			if len(decoys) > 4 {
				decoys = decoys[1:]
			}
			decoyMu.Unlock()
			return a, err
		}}
}

func (g geom) blockBase(b int) *big.Int {
	return new(big.Int).Add(g.base, new(big.Int).Mul(big.NewInt(int64(b)), g.bsize))
}

func (g geom) addrLen() int {
	if g.kind == "v4" {
		return 4
	}
	return 16
}

var max128 = new(big.Int).Sub(new(big.Int).Lsh(big.NewInt(1), 128), big.NewInt(1))
var max32 = big.NewInt(0xffffffff)

// letter is an abstract operation of the alphabet of Alloc.tla.
type letter struct {
	op   string // alloc | free
	k    string // none | foreign | blk | outside
	b    int
	long bool // hint longer than the allocation length (v6)
	sub  bool // Free of a sub-prefix of the block (v6)
	side string
	d    int
}

func (l letter) String() string {
	return fmt.Sprintf("%s:%s:%d:%v:%v:%s:%d", l.op, l.k, l.b, l.long, l.sub, l.side, l.d)
}

func alphabet(g geom, blocks []int, below, above int, domain string) []letter {
	var ls []letter
	ls = append(ls, letter{op: "alloc", k: "none"}, letter{op: "alloc", k: "foreign"})
	longs := []bool{false}
	if g.kind == "v6" && g.page < 128 {
		longs = []bool{false, true}
	}
	for _, b := range blocks {
		for _, lg := range longs {
			ls = append(ls, letter{op: "alloc", k: "blk", b: b, long: lg})
		}
	}
	for d := 1; d <= below; d++ {
		ls = append(ls, letter{op: "alloc", k: "outside", side: "below", d: d})
	}
	for d := 1; d <= above; d++ {
		ls = append(ls, letter{op: "alloc", k: "outside", side: "above", d: d})
	}
	subs := []bool{false}
	if g.kind == "v6" && g.page < 128 {
		subs = []bool{false, true}
	}
	for _, b := range blocks {
		for _, s := range subs {
			ls = append(ls, letter{op: "free", k: "blk", b: b, sub: s})
		}
	}
	if domain == "any" {
		// the all-zero address, a far-away prefix and a prefix of the other family: all outside the pool
		ls = append(ls, letter{op: "free", k: "outside", side: "zero", d: 0}, letter{op: "free", k: "outside", side: "far", d: 0},
			letter{op: "free", k: "outside", side: "foreign", d: 0})
		for d := 1; d <= below; d++ {
			ls = append(ls, letter{op: "free", k: "outside", side: "below", d: d})
		}
		for d := 1; d <= above; d++ {
			ls = append(ls, letter{op: "free", k: "outside", side: "above", d: d})
		}
	}
	return ls
}

// runner executes letters on one allocator instance.
type allocRun struct {
	g      geom
	a      allocators.Allocator
	t      *Trace
	r      *rand.Rand
	domain string
	outst  map[int]bool // blocks returned by a successful Allocate and not successfully freed since
	hiRank map[int]int  // see lab()
}

func allocErrClass(err error) string {
	var df *allocators.ErrDoubleFree
	switch {
	case err == nil:
		return "none"
	case errors.Is(err, allocators.ErrNoAddrAvail):
		return "noaddr"
	case errors.As(err, &df):
		return "doublefree"
	case strings.Contains(err.Error(), "panic"):
		return "panic"
	default:
		return "other"
	}
}

// outsideAddr returns the address d blocks below the base / above the end, or nil.
func (g geom) outsideAddr(side string, d int) *big.Int {
	off := new(big.Int).Mul(big.NewInt(int64(d)), g.bsize)
	lim := max128
	if g.kind == "v4" {
		lim = max32
	}
	if side == "below" {
		v := new(big.Int).Sub(g.base, off)
		if v.Sign() < 0 {
			return nil
		}
		return v
	}
	v := new(big.Int).Add(g.blockBase(g.n-1), off)
	if v.Cmp(lim) > 0 {
		return nil
	}
	return v
}

func (x *allocRun) newAlloc() error {
	a, err := x.g.mk()
	if err != nil {
		return fmt.Errorf("geometry %s: %v", x.g.name, err)
	}
	x.a = a
	x.outst = map[int]bool{}
	nrep := x.g.n
	if nrep > 1<<30 {
		nrep = 1 << 30 // see lab()
	}
	x.t.Emit(Ev{"ev": "reset", "kind": x.g.kind, "N": nrep, "page": x.g.page, "geom": x.g.name, "domain": x.domain})
	return nil
}

// concretise a hint letter into a net.IPNet; ok=false if the letter has no concrete form here.
func (x *allocRun) hintNet(l letter) (net.IPNet, bool) {
	g := x.g
	if l.long && (g.kind == "v4" || g.page >= 128) {
		l.long = false // no prefix can be longer than this allocation length
	}
	switch l.k {
	case "none":
		return net.IPNet{}, true
	case "foreign":
		if g.kind == "v4" {
			return net.IPNet{IP: net.ParseIP("2001:db8::1"), Mask: net.CIDRMask(128, 128)}, true
		}
		return net.IPNet{IP: net.IPv4(10, 0, 0, 1).To4(), Mask: net.CIDRMask(32, 32)}, true
	}
	var addr *big.Int
	if l.k == "blk" {
		addr = g.blockBase(l.b)
		if g.kind == "v6" && x.r.Intn(2) == 0 {
			// anywhere inside the block
			off := new(big.Int).Rand(x.r, g.bsize)
			addr = new(big.Int).Add(addr, off)
		}
	} else {
		addr = g.outsideAddr(l.side, l.d)
		if addr == nil {
			return net.IPNet{}, false
		}
	}
	if g.kind == "v4" {
		ip := bigToIP(addr, 4)
		if x.r.Intn(2) == 0 {
			ip = ip.To16() // 16-byte (v4-mapped) form
		}
		var m net.IPMask
		switch x.r.Intn(3) {
		case 0:
			m = net.CIDRMask(32, 32)
		case 1:
			m = net.CIDRMask(24, 32)
		}
		return net.IPNet{IP: ip, Mask: m}, true
	}
	ip := bigToIP(addr, 16)
	var m net.IPMask
	if l.long {
		m = net.CIDRMask(g.page+1+x.r.Intn(128-g.page), 128)
	} else {
		switch x.r.Intn(5) {
		case 0:
			m = net.CIDRMask(g.page, 128)
		case 1:
			m = net.CIDRMask(x.r.Intn(g.page+1), 128) // shorter than (or equal to) the allocation length
			if g.poollen < g.page && x.r.Intn(2) == 0 {
				// between the pool's length and the allocation length: a block of several pages, which still fits in the pool (round 9)
				m = net.CIDRMask(g.poollen+x.r.Intn(g.page-g.poollen), 128)
			}
		case 2:
			m = net.CIDRMask(0, 128)
		case 3:
			m = net.CIDRMask(x.r.Intn(33), 32) // a mask that is not 128 bits wide
		case 4:
			m = nil
		}
	}
	return net.IPNet{IP: ip, Mask: m}, true
}

// Pools of more than 2^30 blocks: block numbers do not fit the checker's 32-bit integers.  Blocks are IDENTITIES to the
// monitor (which are outstanding, whose hint names which), so they are relabelled injectively: the high part of the number
// (b >> 20) is replaced by its rank in order of first appearance in the scenario; the pool size is reported as 2^30.
func (x *allocRun) lab(b int) int {
	if x.g.n <= 1<<30 || b < 0 {
		return b
	}
	if x.hiRank == nil {
		x.hiRank = map[int]int{}
	}
	hi := b >> 20
	rk, ok := x.hiRank[hi]
	if !ok {
		rk = len(x.hiRank)
		x.hiRank[hi] = rk
	}
	return rk<<20 | b&(1<<20-1)
}

// the label of the block an argument names (computed from the ADDRESS, so that a replay from recorded text agrees)
func (x *allocRun) blkLabel(l letter, n net.IPNet) int {
	if x.g.n <= 1<<30 || l.k != "blk" {
		return l.b
	}
	v := ipToBig(n.IP, x.g.kind)
	if v == nil {
		return l.b
	}
	rel := new(big.Int).Sub(v, x.g.base)
	if rel.Sign() < 0 {
		return l.b
	}
	q := new(big.Int).Div(rel, x.g.bsize)
	if !q.IsInt64() {
		return l.b
	}
	return x.lab(int(q.Int64()))
}

func (x *allocRun) abstractRes(n net.IPNet, err error) Ev {
	e, _ := x.abstractRes2(n, err)
	return e
}

// abstractRes2 also returns the real block number (-1: none); nothing of the run is written (concurrent callers share a run)
func (x *allocRun) abstractRes2(n net.IPNet, err error) (Ev, int) {
	real := -1
	g := x.g
	res := Ev{"ok": err == nil, "b": -1, "len": -1, "bits": -1, "aligned": false, "inpool": false, "err": allocErrClass(err)}
	if err != nil {
		return res, real
	}
	ones, bits := n.Mask.Size()
	res["len"], res["bits"] = ones, bits
	v := ipToBig(n.IP, g.kind)
	if g.kind == "v6" && len(n.IP) != 16 {
		v = nil
	}
	if g.kind == "v4" && len(n.IP) != 4 && len(n.IP) != 16 {
		v = nil
	}
	if v == nil {
		return res, real
	}
	rel := new(big.Int).Sub(v, g.base)
	if rel.Sign() >= 0 {
		q, m := new(big.Int).DivMod(rel, g.bsize, new(big.Int))
		if q.Cmp(big.NewInt(int64(g.n))) < 0 {
			res["inpool"] = true
			real = int(q.Int64())
			res["b"] = x.lab(real)
			res["aligned"] = m.Sign() == 0
		}
	}
	return res, real
}

func (x *allocRun) hintAbsL(l letter, n net.IPNet) Ev {
	h := hintAbs(l, n)
	h["b"] = x.blkLabel(l, n)
	return h
}

func hintAbs(l letter, n net.IPNet) Ev {
	ones, bits := n.Mask.Size()
	return Ev{"k": l.k, "b": l.b, "len": ones, "bits": bits, "iplen": len(n.IP), "long": l.long, "side": l.side, "d": l.d,
		"text": n.String(), "ip": hex.EncodeToString(n.IP), "mask": hex.EncodeToString(n.Mask)}
}

// do executes one letter; returns false if it was skipped (not in the domain / not concretisable).
func (x *allocRun) do(l letter) bool {
	g := x.g
	if l.op == "alloc" {
		hn, ok := x.hintNet(l)
		if !ok {
			return false
		}
		var (
			n   net.IPNet
			err error
		)
		func() {
			defer func() {
				if r := recover(); r != nil {
					err = fmt.Errorf("panic: %v", r)
				}
			}()
			n, err = x.a.Allocate(hn)
		}()
		res, real := x.abstractRes2(n, err)
		if res["ok"].(bool) && res["inpool"].(bool) {
			x.outst[real] = true
		}
		x.t.Emit(Ev{"ev": "alloc", "hint": x.hintAbsL(l, hn), "res": res})
		return true
	}
	// free
	var fn net.IPNet
	if l.k == "blk" {
		if x.domain == "outstanding" && !x.outst[l.b] {
			return false
		}
		addr := g.blockBase(l.b)
		if g.kind == "v4" {
			ip := bigToIP(addr, 4)
			if x.r.Intn(2) == 0 {
				ip = ip.To16()
			}
			fn = net.IPNet{IP: ip, Mask: net.CIDRMask(32, 32)}
		} else {
			plen := g.page
			if l.sub && g.page >= 128 {
				l.sub = false
			}
			if l.sub {
				plen = g.page + 1 + x.r.Intn(128-g.page)
				off := new(big.Int).Rand(x.r, g.bsize)
				addr = new(big.Int).Add(addr, off)
			}
			fn = net.IPNet{IP: bigToIP(addr, 16), Mask: net.CIDRMask(plen, 128)}
			if l.sub {
				fn.IP = fn.IP.Mask(fn.Mask)
			}
		}
	} else if l.side == "foreign" {
		if g.kind == "v4" {
			fn = net.IPNet{IP: net.ParseIP("2001:db8::1"), Mask: net.CIDRMask(128, 128)}
		} else {
			fn = net.IPNet{IP: net.IPv4(10, 0, 0, 1).To4(), Mask: net.CIDRMask(32, 32)}
		}
	} else {
		var addr *big.Int
		switch l.side {
		case "zero":
			addr = big.NewInt(0)
		case "far":
			addr = new(big.Int).Add(g.blockBase(g.n-1), new(big.Int).Mul(g.bsize, big.NewInt(1<<20)))
			lim := max128
			if g.kind == "v4" {
				lim = max32
			}
			if addr.Cmp(lim) > 0 {
				addr = new(big.Int).Sub(g.base, new(big.Int).Mul(g.bsize, big.NewInt(1<<20)))
			}
		default:
			addr = g.outsideAddr(l.side, l.d)
		}
		if addr == nil || addr.Sign() < 0 {
			return false
		}
		// the letter only stands for a prefix OUTSIDE the pool
		if rel := new(big.Int).Sub(addr, g.base); rel.Sign() >= 0 && rel.Cmp(new(big.Int).Mul(g.bsize, big.NewInt(int64(g.n)))) < 0 {
			return false
		}
		if g.kind == "v4" {
			ip := bigToIP(addr, 4)
			if x.r.Intn(2) == 0 {
				ip = ip.To16()
				if l.side == "zero" && x.r.Intn(2) == 0 {
					ip = net.IPv6unspecified // "::", the 16-byte spelling of "no address"
				}
			}
			fn = net.IPNet{IP: ip, Mask: net.CIDRMask(32, 32)}
		} else {
			fn = net.IPNet{IP: bigToIP(addr, 16), Mask: net.CIDRMask(g.page, 128)}
		}
	}
	var err error
	func() {
		defer func() {
			if r := recover(); r != nil {
				err = fmt.Errorf("panic: %v", r)
			}
		}()
		err = x.a.Free(fn)
	}()
	if err == nil && l.k == "blk" {
		delete(x.outst, l.b)
	}
	x.t.Emit(Ev{"ev": "free", "arg": Ev{"k": l.k, "b": x.blkLabel(l, fn), "sub": l.sub, "side": l.side, "d": l.d, "text": fn.String(),
		"ip": hex.EncodeToString(fn.IP), "mask": hex.EncodeToString(fn.Mask)},
		"ok": err == nil, "err": allocErrClass(err)})
	return true
}

func smallGeoms(n int) []geom {
	switch n {
	case 1:
		return []geom{geomV4("10.0.0.7", "10.0.0.7"), geomV4("255.255.255.255", "255.255.255.255"), geomV6("2001:db8:0:1::/64", 64), geomV6("::/128", 128)}
	case 2:
		return []geom{geomV4("10.0.0.255", "10.0.1.0"), geomV4("255.255.255.254", "255.255.255.255"), geomV4("0.0.0.0", "0.0.0.1"),
			geomV6("2001:db8:0:fffe::/63", 64), geomV6("fe80::ff00/127", 128), geomV6("2001:db8:ffff:ff00::/71", 72)}
	case 3:
		return []geom{geomV4("192.168.0.254", "192.168.1.0"), geomV4("255.255.255.253", "255.255.255.255")}
	case 4:
		return []geom{geomV4("10.1.2.3", "10.1.2.6"), geomV4("0.0.0.0", "0.0.0.3"), geomV6("2001:db8:0:fffc::/62", 64), geomV6("ff00::/2", 4),
			geomV6("2001:db8:1:2:ff00::/70", 72), geomV6("::ffff:ffff:ff00/126", 128), geomV6("2001:db8:ffff:ffc0::/58", 60),
			// allocation lengths below 64 whose block indices reach 2^(64-length): the shift in AddPrefixes is near its limit
			geomV6("2001:db8:0:fff8::/61", 63)}
	}
	return nil
}

func bigGeoms() []geom {
	return []geom{
		geomV4("10.0.0.1", "10.0.0.63"), geomV4("10.0.0.0", "10.0.0.63"), geomV4("10.0.0.0", "10.0.0.64"),
		geomV4("172.16.255.200", "172.17.0.70"), geomV4("10.0.0.0", "10.0.0.127"), geomV4("10.0.0.0", "10.0.0.128"),
		geomV4("255.255.255.0", "255.255.255.255"), geomV4("10.9.8.0", "10.9.11.231"),
		geomV6("2001:db8::/58", 64), geomV6("2001:db8:ffff:ff80::/57", 64), geomV6("2001:db8::/56", 64),
		geomV6("fd00:ffff:ffff:ffff:ffff:ffff:ffff:ff00/120", 128), geomV6("2001:db8:0:10::/60", 68), geomV6("2001:db8:0:0:ff00::/72", 80),
		geomV6("2001:db8:0:40::/58", 62), geomV6("2001:db8:a000::/52", 60), geomV6("2001:db8:0:ff00::/57", 63),
	}
}

// canonical path to an out-state: allocate exactly the blocks of `set` with hints.
func pathTo(set int, n int) []letter {
	var p []letter
	for b := 0; b < n; b++ {
		if set&(1<<uint(b)) != 0 {
			p = append(p, letter{op: "alloc", k: "blk", b: b})
		}
	}
	return p
}

func runAllocSeq(t *Trace, seed int64, domain string, maxN, suffix int) error {
	r := rand.New(rand.NewSource(seed))
	for n := 1; n <= maxN; n++ {
		for _, g := range smallGeoms(n) {
			blocks := make([]int, g.n)
			for i := range blocks {
				blocks[i] = i
			}
			alpha := alphabet(g, blocks, 2, 2, domain)
			// every out-state x every sequence of `suffix` letters
			idx := make([]int, suffix)
			for set := 0; set < 1<<uint(g.n); set++ {
				for i := range idx {
					idx[i] = 0
				}
				for {
					x := &allocRun{g: g, t: t, r: r, domain: domain}
					if err := x.newAlloc(); err != nil {
						return err
					}
					for _, l := range pathTo(set, g.n) {
						x.do(l)
					}
					for _, i := range idx {
						x.do(alpha[i])
					}
					// next suffix
					k := suffix - 1
					for k >= 0 {
						idx[k]++
						if idx[k] < len(alpha) {
							break
						}
						idx[k] = 0
						k--
					}
					if k < 0 {
						break
					}
				}
			}
		}
	}
	return nil
}

func interesting(n int) []int {
	c := []int{0, 1, 31, 32, 33, 62, 63, 64, 65, 66, 126, 127, 128, 129, n - 2, n - 1}
	seen := map[int]bool{}
	var out []int
	for _, b := range c {
		if b >= 0 && b < n && !seen[b] {
			seen[b] = true
			out = append(out, b)
		}
	}
	return out
}

// BIG pools (thousands to a million blocks, also pools that straddle the /64 boundary), densely used at their low end: a few
// hundred blocks handed out in a row, then blocks given back and taken again BY HINT, interleaved with hint-less allocations -
// whatever an allocator keeps per word / per page / per level of a big bitmap has to stay true under that
func denseGeoms() []geom {
	return []geom{
		geomV4("10.0.0.0", "10.0.31.255"),
		// more than 2^32 blocks (a 1 GiB bitmap that is never touched beyond a few pages): accepted by the constructor with a warning
		geomV6("2001:db8::/31", 64),
		geomV4("10.1.0.0", "10.1.255.255"), geomV6("2001:db8:0:e000::/51", 64), geomV6("2001:db8:0:100::/56", 72), geomV6("2001:db8:10::/44", 60),
		geomV4("10.16.0.0", "10.31.255.255"), geomV6("2001:db8:0:2::/63", 76), geomV6("2001:db8:40::/44", 64), geomV6("2001:db8:0:4000::/50", 84),
	}
}

func runAllocDense(t *Trace, seed int64, domain string, walks int) error {
	r := rand.New(rand.NewSource(seed*48271 + 11))
	gs := denseGeoms()
	for w := 0; w < walks; w++ {
		g := gs[w%len(gs)]
		x := &allocRun{g: g, t: t, r: r, domain: domain}
		if err := x.newAlloc(); err != nil {
			// a big pool the constructor does not take: nothing is allocated from it, nothing to check here (C19 is about set-up)
			t.Emit(Ev{"ev": "note", "what": "dense: constructor refused " + g.name + ": " + err.Error()})
			continue
		}
		fill := 130 + r.Intn(140)
		for i := 0; i < fill; i++ {
			x.do(letter{op: "alloc", k: "none"})
		}
		// a second cluster far up the pool, taken by hint
		far := g.n/2 + r.Intn(g.n/4)
		for i := 0; i < 70; i++ {
			x.do(letter{op: "alloc", k: "blk", b: far + i})
		}
		pick := func() (int, bool) {
			if len(x.outst) == 0 {
				return 0, false
			}
			k := r.Intn(len(x.outst))
			for b := range x.outst {
				if k == 0 {
					return b, true
				}
				k--
			}
			return 0, false
		}
		for s := 0; s < 260; s++ {
			switch r.Intn(6) {
			case 0, 1: // give a block back and take it again by hint
				if b, ok := pick(); ok {
					x.do(letter{op: "free", k: "blk", b: b})
					x.do(letter{op: "alloc", k: "blk", b: b})
				}
			case 2: // give back, take without hint
				if b, ok := pick(); ok {
					x.do(letter{op: "free", k: "blk", b: b})
				}
				x.do(letter{op: "alloc", k: "none"})
			case 3:
				x.do(letter{op: "alloc", k: "none"})
			case 4:
				x.do(letter{op: "alloc", k: "blk", b: r.Intn(g.n), long: g.kind == "v6" && g.page < 128 && r.Intn(4) == 0})
			default:
				if b, ok := pick(); ok {
					if domain == "any" && r.Intn(2) == 0 {
						// a block that is NOT outstanding, at a distance from an outstanding one at which index arithmetic likes to wrap
						d := []int{1 << 32, 1 << 16, 64, 1 << 24, 1 << 31, 1 << 20}[r.Intn(6)]
						for _, c := range []int{b + d, b - d} {
							if _, out := x.outst[c]; !out && c >= 0 && c < g.n {
								x.do(letter{op: "free", k: "blk", b: c})
								break
							}
						}
					} else {
						x.do(letter{op: "free", k: "blk", b: b, sub: g.kind == "v6" && g.page < 128 && r.Intn(3) == 0})
					}
				}
			}
		}
	}
	return nil
}

// random walks with an exhaustion bias on word-boundary pool sizes
func runAllocWalk(t *Trace, seed int64, domain string, walks int) error {
	r := rand.New(rand.NewSource(seed))
	gs := bigGeoms()
	for w := 0; w < walks; w++ {
		g := gs[w%len(gs)]
		x := &allocRun{g: g, t: t, r: r, domain: domain}
		if err := x.newAlloc(); err != nil {
			return err
		}
		blocks := interesting(g.n)
		for i := 0; i < 6; i++ {
			blocks = append(blocks, r.Intn(g.n))
		}
		alpha := alphabet(g, blocks, 2, 2, domain)
		var allocs, frees []letter
		for _, l := range alpha {
			if l.op == "alloc" {
				allocs = append(allocs, l)
			} else {
				frees = append(frees, l)
			}
		}
		steps := 3*g.n + 40
		if steps > 1500 {
			steps = 1500
		}
		phase := 0 // 0 fill, 1 drain a bit, 2 mixed
		for s := 0; s < steps; s++ {
			pAlloc := 85
			switch phase {
			case 1:
				pAlloc = 20
			case 2:
				pAlloc = 55
			}
			if len(x.outst) >= g.n && phase == 0 {
				// full: probe failure, hints on taken blocks, then drain
				for i := 0; i < 4; i++ {
					x.do(allocs[r.Intn(len(allocs))])
				}
				phase = 1
			} else if phase == 1 && len(x.outst) < g.n-3-r.Intn(5) {
				phase = 2
			} else if phase == 2 && r.Intn(40) == 0 {
				phase = 0
			}
			if r.Intn(100) < pAlloc {
				if r.Intn(3) == 0 {
					x.do(letter{op: "alloc", k: "none"})
				} else if r.Intn(4) == 0 {
					x.do(letter{op: "alloc", k: "blk", b: r.Intn(g.n), long: g.kind == "v6" && g.page < 128 && r.Intn(3) == 0})
				} else {
					x.do(allocs[r.Intn(len(allocs))])
				}
			} else {
				if len(x.outst) > 0 && r.Intn(3) != 0 {
					// free an outstanding block
					k := r.Intn(len(x.outst))
					for b := range x.outst {
						if k == 0 {
							x.do(letter{op: "free", k: "blk", b: b, sub: g.kind == "v6" && g.page < 128 && r.Intn(3) == 0})
							break
						}
						k--
					}
				} else if domain == "any" {
					if r.Intn(2) == 0 {
						x.do(letter{op: "free", k: "blk", b: r.Intn(g.n)})
					} else {
						x.do(frees[r.Intn(len(frees))])
					}
				}
			}
		}
	}
	return nil
}

func goid() int {
	var buf [64]byte
	n := runtime.Stack(buf[:], false)
	f := strings.Fields(string(buf[:n]))
	if len(f) < 2 {
		return -1
	}
	id, _ := strconv.Atoi(f[1])
	return id
}

// concurrent stress: G goroutines on one allocator; the observation points inside the critical
// sections give the linearization order.
func runAllocConc(t *Trace, seed int64, rounds int) error {
	gs := []geom{geomV4("10.0.0.0", "10.0.0.3"), geomV4("10.0.0.0", "10.0.0.64"), geomV6("2001:db8:0:fffc::/62", 64), geomV6("2001:db8::/58", 64)}
	verifhook.Install(func(site string, kv ...interface{}) {
		switch site {
		case "alloc4.set", "alloc6.set":
			t.Emit(Ev{"ev": "set", "g": goid(), "b": int(kv[1].(uint)), "held": verifhook.Held(kv[0].(verifhook.TryLocker))})
		case "alloc4.clear", "alloc6.clear":
			t.Emit(Ev{"ev": "clear", "g": goid(), "b": int(kv[1].(uint)), "held": verifhook.Held(kv[0].(verifhook.TryLocker))})
		}
	})
	defer verifhook.Install(nil)
	for round := 0; round < rounds; round++ {
		g := gs[round%len(gs)]
		a, err := g.mk()
		if err != nil {
			return err
		}
		t.Emit(Ev{"ev": "reset", "kind": g.kind, "N": g.n, "page": g.page, "geom": g.name, "domain": "conc"})
		var wg sync.WaitGroup
		for w := 0; w < 16; w++ {
			wg.Add(1)
			go func(w int) {
				defer wg.Done()
				r := rand.New(rand.NewSource(seed*1000 + int64(round*16+w)))
				x := &allocRun{g: g, r: r}
				me := goid()
				var mine []net.IPNet
				for i := 0; i < 60; i++ {
					if len(mine) > 0 && (r.Intn(3) == 0 || len(mine) > 3) {
						k := r.Intn(len(mine))
						err := a.Free(mine[k])
						t.Emit(Ev{"ev": "ret", "g": me, "op": "free", "ok": err == nil, "b": -1})
						mine = append(mine[:k], mine[k+1:]...)
						continue
					}
					l := letter{op: "alloc", k: "none"}
					if r.Intn(2) == 0 {
						l = letter{op: "alloc", k: "blk", b: r.Intn(g.n)}
					}
					hn, _ := x.hintNet(l)
					n, err := a.Allocate(hn)
					res := x.abstractRes(n, err)
					t.Emit(Ev{"ev": "ret", "g": me, "op": "alloc", "ok": err == nil, "b": res["b"]})
					if err == nil {
						mine = append(mine, n)
					}
				}
			}(w)
		}
		wg.Wait()
		// racing frees: several goroutines free the SAME outstanding block at once; exactly one
		// may succeed (the clear observation point fires once per successful Free)
		x := &allocRun{g: g, r: rand.New(rand.NewSource(seed + int64(round)))}
		a, err = g.mk() // a fresh allocator: the stress above may have left the pool full
		if err != nil {
			return err
		}
		t.Emit(Ev{"ev": "reset", "kind": g.kind, "N": g.n, "page": g.page, "geom": g.name, "domain": "conc"})
		for i := 0; i < 400; i++ {
			hn, _ := x.hintNet(letter{op: "alloc", k: "none"})
			n, err := a.Allocate(hn)
			if err != nil {
				break
			}
			var ready, start int32
			var fw sync.WaitGroup
			for w := 0; w < 4; w++ {
				fw.Add(1)
				go func() {
					defer fw.Done()
					me := goid()
					atomic.AddInt32(&ready, 1)
					for atomic.LoadInt32(&start) == 0 { // spin barrier: all four leave together
					}
					err := a.Free(n)
					t.Emit(Ev{"ev": "ret", "g": me, "op": "free", "ok": err == nil, "b": -1})
				}()
			}
			for atomic.LoadInt32(&ready) < 4 {
				runtime.Gosched()
			}
			atomic.StoreInt32(&start, 1)
			fw.Wait()
		}
	}
	return nil
}

// exclusion probes: the schedule that breaks C04 when the mutex is missing (counterexample of
// AllocConc with UseLock = FALSE): A is parked between test and set, B then asks for the same
// block. With the mutex in place B cannot arrive at its own set point while A is parked.
func runAllocProbe(t *Trace) error {
	gs := []geom{geomV4("10.0.0.0", "10.0.0.3"), geomV6("2001:db8:0:fffc::/62", 64)}
	for _, g := range gs {
		for _, hinted := range []bool{true, false} {
			a, err := g.mk()
			if err != nil {
				return err
			}
			t.Emit(Ev{"ev": "reset", "kind": g.kind, "N": g.n, "page": g.page, "geom": g.name, "domain": "probe"})
			var mu sync.Mutex
			arrived := make(chan int, 4)
			release := make(chan struct{})
			first := true
			verifhook.Install(func(site string, kv ...interface{}) {
				if site != "alloc4.set" && site != "alloc6.set" {
					return
				}
				mu.Lock()
				isFirst := first
				first = false
				mu.Unlock()
				t.Emit(Ev{"ev": "set", "g": goid(), "b": int(kv[1].(uint)), "held": verifhook.Held(kv[0].(verifhook.TryLocker))})
				arrived <- 1
				if isFirst {
					<-release // parked inside the critical section
				}
			})
			x := &allocRun{g: g, r: rand.New(rand.NewSource(1))}
			l := letter{op: "alloc", k: "none"}
			if hinted {
				l = letter{op: "alloc", k: "blk", b: 1}
			}
			hn, _ := x.hintNet(l)
			var wg sync.WaitGroup
			call := func() {
				defer wg.Done()
				me := goid()
				n, err := a.Allocate(hn)
				res := x.abstractRes(n, err)
				t.Emit(Ev{"ev": "ret", "g": me, "op": "alloc", "ok": err == nil, "b": res["b"]})
			}
			wg.Add(1)
			go call()
			<-arrived // A is parked at its set point
			wg.Add(1)
			go call()
			both := false
			select {
			case <-arrived:
				both = true // B got inside while A is parked: no mutual exclusion
			case <-time.After(100 * time.Millisecond):
			}
			close(release)
			wg.Wait()
			verifhook.Install(nil)
			t.Emit(Ev{"ev": "ret", "g": 0, "op": "probe", "ok": !both, "b": -1})
		}
	}
	return nil
}

func letterFromEv(e Ev) letter {
	if e["ev"] == "alloc" {
		h := e["hint"].(map[string]interface{})
		return letter{op: "alloc", k: toStr(h["k"]), b: toInt(h["b"]), long: h["long"] == true, side: toStr(h["side"]), d: toInt(h["d"])}
	}
	a := e["arg"].(map[string]interface{})
	return letter{op: "free", k: toStr(a["k"]), b: toInt(a["b"]), sub: a["sub"] == true, side: toStr(a["side"]), d: toInt(a["d"])}
}

func findGeom(name string) (geom, bool) {
	for n := 1; n <= 4; n++ {
		for _, g := range smallGeoms(n) {
			if g.name == name {
				return g, true
			}
		}
	}
	for _, g := range append(bigGeoms(), denseGeoms()...) {
		if g.name == name {
			return g, true
		}
	}
	return geom{}, false
}

// replay re-executes the letters of a recorded sequential scenario, using the recorded concrete
// argument text so that the same addresses are used.
func runAllocReplay(t *Trace, path string) error {
	lines, err := ReadTrace(path)
	if err != nil {
		return err
	}
	var x *allocRun
	for _, e := range lines {
		switch e["ev"] {
		case "reset":
			dom := toStr(e["domain"])
			if dom == "conc" || dom == "probe" {
				return fmt.Errorf("concurrent scenarios are re-run, not replayed")
			}
			g, ok := findGeom(toStr(e["geom"]))
			if !ok {
				return fmt.Errorf("unknown geometry %v", e["geom"])
			}
			x = &allocRun{g: g, t: t, r: rand.New(rand.NewSource(1)), domain: "any"}
			if err := x.newAlloc(); err != nil {
				return err
			}
		case "alloc", "free":
			if x == nil {
				return fmt.Errorf("scenario does not start with reset")
			}
			x.doText(letterFromEv(e), e)
		}
	}
	return nil
}

func netFromHex(m map[string]interface{}) net.IPNet {
	var n net.IPNet
	if b, err := hex.DecodeString(toStr(m["ip"])); err == nil && len(b) > 0 {
		n.IP = b
	}
	if b, err := hex.DecodeString(toStr(m["mask"])); err == nil && len(b) > 0 {
		n.Mask = b
	}
	return n
}

// doText executes a recorded call with the recorded concrete argument.
func (x *allocRun) doText(l letter, e Ev) {
	if l.op == "alloc" {
		h := e["hint"].(map[string]interface{})
		hn := netFromHex(h)
		var (
			n   net.IPNet
			err error
		)
		func() {
			defer func() {
				if r := recover(); r != nil {
					err = fmt.Errorf("panic: %v", r)
				}
			}()
			n, err = x.a.Allocate(hn)
		}()
		x.t.Emit(Ev{"ev": "alloc", "hint": x.hintAbsL(l, hn), "res": x.abstractRes(n, err)})
		return
	}
	a := e["arg"].(map[string]interface{})
	fn := netFromHex(a)
	var err error
	func() {
		defer func() {
			if r := recover(); r != nil {
				err = fmt.Errorf("panic: %v", r)
			}
		}()
		err = x.a.Free(fn)
	}()
	x.t.Emit(Ev{"ev": "free", "arg": Ev{"k": l.k, "b": x.blkLabel(l, fn), "sub": l.sub, "side": l.side, "d": l.d, "text": fn.String(),
		"ip": hex.EncodeToString(fn.IP), "mask": hex.EncodeToString(fn.Mask)},
		"ok": err == nil, "err": allocErrClass(err)})
}

func runAlloc(args []string) error {
	fs := flag.NewFlagSet("alloc", flag.ContinueOnError)
	out := fs.String("out", "trace.ndjson", "trace file")
	seed := fs.Int64("seed", 1, "seed")
	mode := fs.String("mode", "seq", "seq | walk | conc | probe")
	domain := fs.String("domain", "outstanding", "outstanding (C04 C05 C07: only outstanding blocks are freed) | any (C06)")
	maxN := fs.Int("maxn", 3, "seq: pools of 1..maxn blocks")
	suffix := fs.Int("suffix", 2, "seq: every out-state is followed by every letter sequence of this length")
	walks := fs.Int("walks", 28, "walk: number of random walks")
	rounds := fs.Int("rounds", 8, "conc: rounds of 16 goroutines")
	replay := fs.String("replay", "", "re-execute a recorded sequential scenario")
	in := fs.String("in", "", "letters: JSON file with the call sequences TLC generated")
	if err := fs.Parse(args); err != nil {
		return err
	}
	t, err := NewTrace(*out)
	if err != nil {
		return err
	}
	defer t.Close()
	if *replay != "" {
		return runAllocReplay(t, *replay)
	}
	switch *mode {
	case "letters":
		// model -> code: call sequences generated by TLC (spec/AllocGen.tla, N = 4), on every 4-block geometry
		raw, err := os.ReadFile(*in)
		if err != nil {
			return err
		}
		var scns [][]map[string]interface{}
		if err := json.Unmarshal(raw, &scns); err != nil {
			return err
		}
		gs := smallGeoms(4)
		for k, sc := range scns {
			x := &allocRun{g: gs[k%len(gs)], t: t, r: rand.New(rand.NewSource(*seed*7 + int64(k))), domain: *domain}
			if err := x.newAlloc(); err != nil {
				return err
			}
			for _, l := range sc {
				x.do(letter{op: toStr(l["op"]), k: toStr(l["k"]), b: toInt(l["b"]), long: l["long"] == true, sub: l["sub"] == true,
					side: toStr(l["side"]), d: toInt(l["d"])})
			}
		}
		return nil
	case "seq":
		return runAllocSeq(t, *seed, *domain, *maxN, *suffix)
	case "walk":
		return runAllocWalk(t, *seed, *domain, *walks)
	case "dense":
		return runAllocDense(t, *seed, *domain, *walks)
	case "conc":
		return runAllocConc(t, *seed, *rounds)
	case "huge":
		// pools of 2^64 blocks and more: either the constructor refuses them, or the allocator really has that many blocks -
		// then its first Allocate (nothing is outstanding) succeeds
		for _, g := range [][2]interface{}{{"2001:db8:0:1::/64", 128}, {"2001:db8::/32", 96}, {"::/0", 64}, {"::/0", 128}, {"2001:db8::/48", 127}, {"fd00::/8", 72}} {
			_, pool, _ := net.ParseCIDR(g[0].(string))
			e := Ev{"ev": "huge", "pool": g[0], "page": g[1], "ctor": "err", "alloc": "none"}
			func() {
				defer func() {
					if r := recover(); r != nil {
						e["ctor"] = "panic"
					}
				}()
				a, err := bitmap.NewBitmapAllocator(*pool, g[1].(int))
				if err == nil && a != nil {
					e["ctor"] = "ok"
					if _, err := a.Allocate(net.IPNet{}); err == nil {
						e["alloc"] = "ok"
					} else {
						e["alloc"] = "err"
					}
				}
			}()
			t.Emit(e)
		}
		return nil
	case "probe":
		return runAllocProbe(t)
	}
	return fmt.Errorf("unknown mode %s", *mode)
}
