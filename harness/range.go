package main

// Family range (properties C02 C03): drives the real DHCPv4 range plugin through
// rangeplugin.Plugin.Setup4 with request histories over the alphabet of
// spec/RangeLease.tla ({DISCOVER,REQUEST} x client ids, restart, tick), with the
// client ids concretised to hardware addresses of length 0..16 and hostnames of
// several classes, on a sqlite file in a scratch directory. With -probe, after
// every event the database file is copied and a fresh plugin instance is set up
// on the copy (crash/restart point, C03).

import (
	"context"
	"database/sql"
	"encoding/binary"
	"encoding/json"
	"flag"
	"fmt"
	"io"
	"math/rand"
	"net"
	"os"
	"path/filepath"
	"sort"
	"strconv"
	"strings"
	"sync"
	"syscall"
	"time"

	"github.com/coredhcp/coredhcp/handler"
	rangeplugin "github.com/coredhcp/coredhcp/plugins/range"
	"github.com/coredhcp/coredhcp/verifhook"
	"github.com/insomniacslk/dhcp/dhcpv4"
	_ "github.com/mattn/go-sqlite3"
)

func init() { families["range"] = runRange }

type rangeGeom struct {
	start, end string
	n          int
}

func mkRangeGeom(start string, n int) rangeGeom {
	s := binary.BigEndian.Uint32(net.ParseIP(start).To4())
	e := make(net.IP, 4)
	binary.BigEndian.PutUint32(e, s+uint32(n-1))
	return rangeGeom{start, e.String(), n}
}

var macLens = []int{6, 6, 0, 1, 5, 7, 8, 16, 2, 6}

// hostname classes
var hostClasses = []string{"none", "ascii", "num007", "num1e3", "nul", "badutf8", "long255", "quote", "long300", "blank"}

func hostOf(class string) (string, bool) {
	switch class {
	case "none":
		return "", false
	case "ascii":
		return "host-a.example", true
	case "long300":
		return strings.Repeat("h", 300), true // longer than one option can carry: sent split over several instances (RFC 3396)
	case "blank":
		return " ", true
	case "num007":
		return "007", true
	case "num1e3":
		return "1e3", true
	case "nul":
		return "a\x00b", true
	case "badutf8":
		return "\xff\xfe\x80", true
	case "long255":
		return strings.Repeat("x", 255), true
	case "quote":
		return "o'rly\"; drop table leases4;--", true
	}
	return "", false
}

type rangeScn struct {
	t          *Trace
	dir        string
	db         string
	g          rangeGeom
	lease      int // seconds
	h          handler.Handler4
	macs       map[int]net.HardwareAddr
	macOf      map[string]int
	r          *rand.Rand
	probe      bool
	nsetup     *int
	seenMac    []int
	base       uint32
	id         int
	cids       map[string][]byte
	tscale     int     // > 1: times and durations are recorded in units of tscale seconds (values beyond 2^31 do not fit the checker)
	dbq        string  // query part of the database argument (fault scenarios: a short busy timeout)
	foreign    *sql.DB // the environment's own connection to the lease database
	fconn      *sql.Conn
	dead       bool // a handler call did not return
	forceOpt   int  // >= 0: the request variant to send (replay); -1: chosen by the scenario's generator
	forceLease int  // > 0: the lease time to configure at the next restart (replay)
}

func (s *rangeScn) mac(id int) net.HardwareAddr {
	if m, ok := s.macs[id]; ok {
		return m
	}
	l := macLens[(id+s.id)%len(macLens)]
	if s.r.Intn(3) == 0 {
		l = macLens[s.r.Intn(len(macLens))]
	}
	for {
		m := make(net.HardwareAddr, l)
		s.r.Read(m)
		if l == 1 && s.r.Intn(2) == 0 {
			m[0] = byte(s.r.Intn(10)) // numeric-looking one-byte address ("07")
		}
		if l == 0 {
			if _, dup := s.macOf[""]; dup {
				l = 6
				continue
			}
		}
		if _, dup := s.macOf[m.String()]; dup {
			continue
		}
		s.macs[id] = m
		s.macOf[m.String()] = id
		return m
	}
}

func (s *rangeScn) setup(restart bool) bool {
	*s.nsetup++
	if restart && s.forceLease > 0 {
		s.lease, s.forceLease = s.forceLease, 0
	} else if restart && s.lease >= 30 && s.tscale <= 1 && s.r.Intn(3) == 0 {
		// the operator changed the lease time before restarting on the same database: from now on THAT is the configured lease time
		s.lease = []int{30, 45, 60, 600, 3600}[s.r.Intn(5)]
	}
	var (
		h   handler.Handler4
		err error
	)
	func() {
		defer func() {
			if r := recover(); r != nil {
				err = fmt.Errorf("panic: %v", r)
			}
		}()
		h, err = rangeplugin.Plugin.Setup4(s.db+s.dbq, s.g.start, s.g.end, strconv.Itoa(s.lease)+"s")
	}()
	res := "ok"
	msg := ""
	if err != nil || h == nil {
		res = "err"
		msg = fmt.Sprint(err)
	}
	el := s.lease
	if s.tscale > 1 {
		el = s.lease / s.tscale
	}
	s.t.Emit(Ev{"ev": "setup", "restart": restart, "res": res, "msg": msg, "lease": el})
	s.h = h
	return res == "ok"
}

func buildReq4(mt dhcpv4.MessageType, mac net.HardwareAddr, hostClass string, r *rand.Rand) (*dhcpv4.DHCPv4, *dhcpv4.DHCPv4, error) {
	return buildReq4v(mt, mac, hostClass, r, r.Intn(8))
}

// buildReq4v: variant selects what the client adds about the lease it would like (recorded, so that a replay sends the same)
func buildReq4v(mt dhcpv4.MessageType, mac net.HardwareAddr, hostClass string, r *rand.Rand, variant int) (*dhcpv4.DHCPv4, *dhcpv4.DHCPv4, error) {
	req, err := dhcpv4.New()
	if err != nil {
		return nil, nil, err
	}
	req.ClientHWAddr = mac
	req.UpdateOption(dhcpv4.OptMessageType(mt))
	if hn, ok := hostOf(hostClass); ok {
		req.UpdateOption(dhcpv4.OptHostName(hn))
	}
	// what a client may add about the lease it would like: a lease time (option 51: short, zero, infinite), a maximum message size
	switch variant {
	case 0:
		req.UpdateOption(dhcpv4.OptIPAddressLeaseTime(20 * time.Second))
	case 1:
		req.UpdateOption(dhcpv4.OptIPAddressLeaseTime(1 * time.Second))
	case 2:
		req.UpdateOption(dhcpv4.OptGeneric(dhcpv4.OptionIPAddressLeaseTime, []byte{0xff, 0xff, 0xff, 0xff}))
	case 3:
		req.UpdateOption(dhcpv4.OptGeneric(dhcpv4.OptionIPAddressLeaseTime, []byte{0, 0, 0, 0}))
	case 4:
		req.UpdateOption(dhcpv4.OptMaxMessageSize(576))
	}
	// as the wire would deliver it
	req, err = dhcpv4.FromBytes(req.ToBytes())
	if err != nil {
		return nil, nil, err
	}
	resp, err := dhcpv4.NewReplyFromRequest(req)
	if err != nil {
		return nil, nil, err
	}
	if mt == dhcpv4.MessageTypeDiscover {
		resp.UpdateOption(dhcpv4.OptMessageType(dhcpv4.MessageTypeOffer))
	} else {
		resp.UpdateOption(dhcpv4.OptMessageType(dhcpv4.MessageTypeAck))
	}
	if variant == 5 {
		// a plugin earlier in the chain (lease_time) already put a lease time into the response: a plugin that hands out leases
		// of its own promises ITS lease time
		resp.UpdateOption(dhcpv4.OptIPAddressLeaseTime(2 * time.Hour))
	}
	return req, resp, nil
}

func (s *rangeScn) idxOf(ip net.IP) (int, bool) {
	v4 := ip.To4()
	if v4 == nil {
		return -1, false
	}
	v := binary.BigEndian.Uint32(v4)
	if v < s.base || v-s.base >= uint32(s.g.n) {
		return -1, false
	}
	return int(v - s.base), true
}

var cidMu sync.Mutex

// clientID: a function of the hardware address alone (concurrent callers get the same answer, no shared random state)
func (s *rangeScn) clientID(mac net.HardwareAddr) []byte {
	cidMu.Lock()
	defer cidMu.Unlock()
	k := mac.String()
	if s.cids == nil {
		s.cids = map[string][]byte{}
	}
	if c, ok := s.cids[k]; ok {
		return c
	}
	sum := s.id
	for _, x := range mac {
		sum = sum*31 + int(x)
	}
	if sum < 0 {
		sum = -sum
	}
	var c []byte
	switch {
	case len(mac) == 0:
		c = append([]byte{0x20}, []byte{0, 0, 0, 0, 0, 0, 0, 0, 0x12, 0x34, 0x56, 0x78, 0x9a, 0xbc, 0xde, byte(s.id)}...)
	case sum%4 == 0:
		c = append([]byte{1}, mac...)
	case sum%4 == 1 && sum%3 == 0:
		c = []byte{0, 'c', 'i', 'd', byte('0' + sum%10)}
	}
	s.cids[k] = c
	return c
}

// callHandler runs one request through handler h and abstracts the result.
func (s *rangeScn) callHandler(h handler.Handler4, mt dhcpv4.MessageType, mac net.HardwareAddr, hostClass string) Ev {
	variant := s.forceOpt
	if variant < 0 {
		variant = s.r.Intn(8)
	}
	e := s.callHandlerV(h, mt, mac, hostClass, variant)
	e["ropt"] = variant
	return e
}

func (s *rangeScn) callHandlerV(h handler.Handler4, mt dhcpv4.MessageType, mac net.HardwareAddr, hostClass string, variant int) Ev {
	req, resp, err := buildReq4v(mt, mac, hostClass, s.r, variant)
	if err != nil {
		return Ev{"res": "builderr", "idx": -1, "lease": -1, "stop": false, "msg": err.Error()}
	}
	// a client identifier option, the same in every message of that client: always for the client without hardware
	// address (hlen 0, RFC 4390 style), sometimes for the others - leases are bound to the hardware address
	if cid := s.clientID(mac); cid != nil {
		req.Options[uint8(dhcpv4.OptionClientIdentifier)] = cid
		if again, err := dhcpv4.FromBytes(req.ToBytes()); err == nil {
			req = again
		}
	}
	var (
		out  *dhcpv4.DHCPv4
		stop bool
		pan  interface{}
	)
	done := make(chan struct{})
	go func() {
		defer close(done)
		defer func() { pan = recover() }()
		out, stop = h(req, resp)
	}()
	select {
	case <-done:
	case <-time.After(20 * time.Second):
		// the handler does not come back (a plugin that waits for something nobody will ever give it): every later request
		// of this instance would wait as well, so the scenario ends here
		s.dead = true
		return Ev{"res": "hang", "idx": -1, "lease": -1, "stop": false, "msg": "handler did not return within 20 s"}
	}
	if pan != nil {
		return Ev{"res": "panic", "idx": -1, "lease": -1, "stop": false, "msg": fmt.Sprint(pan)}
	}
	if out == nil {
		r := "drop"
		if !stop {
			r = "nil-without-stop"
		}
		return Ev{"res": r, "idx": -1, "lease": -1, "stop": stop, "msg": ""}
	}
	idx, in := s.idxOf(out.YourIPAddr)
	lease := -1
	if b := out.Options.Get(dhcpv4.OptionIPAddressLeaseTime); len(b) == 4 {
		lease = int(binary.BigEndian.Uint32(b))
	}
	_ = in
	return Ev{"res": "reply", "idx": idx, "lease": lease, "stop": stop, "msg": out.YourIPAddr.String()}
}

func (s *rangeScn) req(mt dhcpv4.MessageType, id int, hostClass string) {
	mac := s.mac(id)
	seen := false
	for _, m := range s.seenMac {
		if m == id {
			seen = true
		}
	}
	if !seen {
		s.seenMac = append(s.seenMac, id)
	}
	t0 := time.Now().Unix()
	e := s.callHandler(s.h, mt, mac, hostClass)
	t1 := time.Now().Unix()
	if s.tscale > 1 {
		t0, t1 = t0/int64(s.tscale), t1/int64(s.tscale)
		if l, ok := e["lease"].(int); ok && l > 0 {
			e["lease"] = l / s.tscale
		}
	}
	e["ev"], e["type"], e["mac"], e["maclen"], e["host"], e["t0"], e["t1"] = "req", mt.String(), id, len(mac), hostClass, t0, t1
	e["machex"] = mac.String()
	s.t.Emit(e)
}

func copyFile(src, dst string) error {
	in, err := os.Open(src)
	if err != nil {
		return err
	}
	defer in.Close()
	out, err := os.Create(dst)
	if err != nil {
		return err
	}
	defer out.Close()
	_, err = io.Copy(out, in)
	return err
}

// lenient parser for the mac column as stored (trusted harness glue): colon separated hex
// bytes, each of one or two digits; "" is the empty address.
func parseStoredMac(s string) (string, bool) {
	if s == "" {
		return "", true
	}
	parts := strings.Split(s, ":")
	out := make(net.HardwareAddr, 0, len(parts))
	for _, p := range parts {
		v, err := strconv.ParseUint(p, 16, 8)
		if err != nil || len(p) > 2 {
			return "", false
		}
		out = append(out, byte(v))
	}
	return out.String(), true
}

// restartProbe: crash point. Copy the database, set up a fresh plugin on the copy, ask it for
// the address of every client seen so far, count how many fresh clients it still serves, and
// read the rows of the copy.
func (s *rangeScn) restartProbe(at string) {
	*s.nsetup++
	cp := filepath.Join(s.dir, fmt.Sprintf("probe-%d-%d.db", s.id, *s.nsetup))
	defer os.Remove(cp)
	if err := copyFile(s.db, cp); err != nil {
		s.t.Emit(Ev{"ev": "probe", "at": at, "res": "copyerr", "msg": err.Error(), "bind": []Ev{}, "rows": []Ev{}, "fresh": []int{}, "freshdone": false})
		return
	}
	var (
		h   handler.Handler4
		err error
	)
	func() {
		defer func() {
			if r := recover(); r != nil {
				err = fmt.Errorf("panic: %v", r)
			}
		}()
		h, err = rangeplugin.Plugin.Setup4(cp, s.g.start, s.g.end, strconv.Itoa(s.lease)+"s")
	}()
	bind := []Ev{}
	fresh := []int{}
	freshdone := false
	res, msg := "ok", ""
	if err != nil || h == nil {
		res, msg = "err", fmt.Sprint(err)
	}
	// rows of the copy, read before the probe requests touch it
	rows := []Ev{}
	if db, e := sql.Open("sqlite3", "file:"+cp+"?mode=ro"); e == nil {
		if rs, e := db.Query("select mac, ip, expiry from leases4"); e == nil {
			for rs.Next() {
				var mac, ip string
				var exp int64
				if e := rs.Scan(&mac, &ip, &exp); e != nil {
					rows = append(rows, Ev{"m": -1, "idx": -1, "expiry": 0, "raw": "scan:" + e.Error()})
					continue
				}
				id := -1
				if norm, ok := parseStoredMac(mac); ok {
					if v, ok := s.macOf[norm]; ok {
						id = v
					}
				}
				idx, _ := s.idxOf(net.ParseIP(ip))
				if s.tscale > 1 {
					exp /= int64(s.tscale)
				}
				rows = append(rows, Ev{"m": id, "idx": idx, "expiry": exp, "raw": mac + " " + ip})
			}
			rs.Close()
		}
		db.Close()
	}
	if res == "ok" {
		ids := append([]int(nil), s.seenMac...)
		sort.Ints(ids)
		// only clients that got a reply are probed for their binding; the others are listed with res
		for _, id := range ids {
			e := s.callHandler(h, dhcpv4.MessageTypeDiscover, s.mac(id), "none")
			bind = append(bind, Ev{"m": id, "res": e["res"], "idx": e["idx"]})
		}
		if s.g.n <= 8 {
			freshdone = true
			for i := 0; i <= s.g.n; i++ {
				m := net.HardwareAddr{0xfe, 0xed, byte(*s.nsetup >> 8), byte(*s.nsetup), 0, byte(i)}
				e := s.callHandler(h, dhcpv4.MessageTypeDiscover, m, "none")
				if e["res"] != "reply" {
					break
				}
				fresh = append(fresh, e["idx"].(int))
			}
		}
	}
	sort.Slice(rows, func(i, j int) bool { return rows[i]["m"].(int) < rows[j]["m"].(int) })
	s.t.Emit(Ev{"ev": "probe", "at": at, "res": res, "msg": msg, "bind": bind, "rows": rows, "fresh": fresh, "freshdone": freshdone})
}

func newRangeScn(t *Trace, dir string, id int, g rangeGeom, lease int, r *rand.Rand, probe bool, nsetup *int) *rangeScn {
	s := &rangeScn{t: t, dir: dir, g: g, lease: lease, r: r, probe: probe, nsetup: nsetup, id: id,
		macs: map[int]net.HardwareAddr{}, macOf: map[string]int{}, forceOpt: -1}
	s.db = filepath.Join(dir, fmt.Sprintf("scn-%d.db", id))
	os.Remove(s.db)
	s.base = binary.BigEndian.Uint32(net.ParseIP(g.start).To4())
	return s
}

func (s *rangeScn) begin() bool {
	rl := s.lease
	if s.tscale > 1 {
		rl /= s.tscale
	}
	s.t.Emit(Ev{"ev": "reset", "N": s.g.n, "lease": rl, "geom": s.g.start + "-" + s.g.end, "probe": s.probe})
	return s.setup(false)
}

// one scenario from a list of letters: "D<id>" "R<id>" "restart" "tick"
func (s *rangeScn) run(letters []string) {
	defer os.Remove(s.db)
	if !s.begin() {
		return
	}
	if s.probe {
		s.restartProbe("setup")
	}
	for _, l := range letters {
		if s.dead {
			break
		}
		switch {
		case l == "restart":
			if !s.setup(true) {
				return // the scenario cannot continue; C03 decides on the failed restart
			}
		case l == "tick":
			time.Sleep(2100 * time.Millisecond)
			s.t.Emit(Ev{"ev": "tick"})
			continue
		case l == "faulton":
			// a transient storage fault: somebody else holds a write transaction on the lease database
			if s.fconn != nil {
				continue
			}
			db, err := sql.Open("sqlite3", "file:"+s.db)
			if err != nil {
				continue
			}
			c, err := db.Conn(context.Background())
			if err == nil {
				_, err = c.ExecContext(context.Background(), "begin immediate")
			}
			if err != nil {
				db.Close()
				continue
			}
			s.foreign, s.fconn = db, c
			s.t.Emit(Ev{"ev": "fault", "on": true})
			continue
		case l == "faultoff":
			if s.fconn == nil {
				continue
			}
			s.fconn.ExecContext(context.Background(), "rollback")
			s.fconn.Close()
			s.foreign.Close()
			s.foreign, s.fconn = nil, nil
			s.t.Emit(Ev{"ev": "fault", "on": false})
		default:
			id, _ := strconv.Atoi(l[1:])
			mt := dhcpv4.MessageTypeDiscover
			if l[0] == 'R' {
				mt = dhcpv4.MessageTypeRequest
			}
			s.req(mt, id, hostClasses[s.r.Intn(len(hostClasses))])
		}
		if s.probe && s.fconn == nil {
			s.restartProbe(l)
		}
	}
	if s.fconn != nil {
		s.fconn.ExecContext(context.Background(), "rollback")
		s.fconn.Close()
		s.foreign.Close()
		s.foreign, s.fconn = nil, nil
	}
}

func raiseNofile() {
	var lim syscall.Rlimit
	if syscall.Getrlimit(syscall.RLIMIT_NOFILE, &lim) == nil {
		lim.Cur = lim.Max
		syscall.Setrlimit(syscall.RLIMIT_NOFILE, &lim)
	}
}

func rangeAlphabet(nmacs int) []string {
	var a []string
	for m := 0; m < nmacs; m++ {
		a = append(a, "D"+strconv.Itoa(m), "R"+strconv.Itoa(m))
	}
	return append(a, "restart")
}

// concurrent: 16 goroutines on one plugin instance; the observation points inside the plugin's
// critical section emit the linearized events.
func runRangeConc(t *Trace, dir string, seed int64, rounds int, nsetup *int) {
	geoms := []rangeGeom{mkRangeGeom("10.0.0.10", 4), mkRangeGeom("10.0.0.0", 64), mkRangeGeom("255.255.255.190", 65), mkRangeGeom("10.0.1.250", 12)}
	for round := 0; round < rounds; round++ {
		r := rand.New(rand.NewSource(seed*977 + int64(round)))
		g := geoms[round%len(geoms)]
		s := newRangeScn(t, dir, 100000+round, g, 60, r, false, nsetup)
		s.forceOpt = 7 // plain requests: the generator of a scenario is not shared between goroutines
		if !s.begin() {
			continue
		}
		nm := g.n + 3
		for id := 0; id < nm; id++ {
			s.mac(id)
		}
		var mu sync.Mutex
		known := map[int]bool{}
		verifhook.Install(func(site string, kv ...interface{}) {
			gid := goid()
			switch site {
			case "range.lookup":
				mu.Lock()
				known[gid] = kv[2].(bool)
				mu.Unlock()
			case "range.reply", "range.drop":
				mu.Lock()
				k := known[gid]
				mu.Unlock()
				id, ok := s.macOf[kv[1].(string)]
				if !ok {
					id = -1
				}
				idx := -1
				res := "drop"
				if site == "range.reply" {
					res = "reply"
					idx, _ = s.idxOf(net.ParseIP(kv[2].(string)))
				}
				t.Emit(Ev{"ev": "creq", "mac": id, "known": k, "res": res, "idx": idx, "held": verifhook.Held(kv[0].(verifhook.TryLocker)), "g": gid})
			}
		})
		var wg sync.WaitGroup
		for w := 0; w < 16; w++ {
			wg.Add(1)
			go func(w int) {
				defer wg.Done()
				rr := rand.New(rand.NewSource(seed*31 + int64(round*16+w)))
				for i := 0; i < 12; i++ {
					id := rr.Intn(nm)
					mt := dhcpv4.MessageTypeDiscover
					if rr.Intn(2) == 0 {
						mt = dhcpv4.MessageTypeRequest
					}
					e := s.callHandler(s.h, mt, s.macs[id], "ascii")
					t.Emit(Ev{"ev": "cret", "mac": id, "res": e["res"], "idx": e["idx"], "lease": e["lease"], "g": goid()})
				}
			}(w)
		}
		wg.Wait()
		verifhook.Install(nil)
		os.Remove(s.db)
	}
}

// exclusion probe (schedule of the lock-free model): A, a new client, is parked after the map
// lookup inside the critical section; B sends the same client's request. With the mutex B cannot
// reach its own lookup point while A is parked.
func runRangeProbe(t *Trace, dir string, nsetup *int) {
	for _, same := range []bool{true, false} {
		r := rand.New(rand.NewSource(5))
		s := newRangeScn(t, dir, 200000, mkRangeGeom("10.0.0.10", 4), 60, r, false, nsetup)
		s.forceOpt = 7
		if !s.begin() {
			continue
		}
		s.mac(0)
		s.mac(1)
		var mu sync.Mutex
		known := map[int]bool{}
		first := true
		arrived := make(chan int, 8)
		release := make(chan struct{})
		verifhook.Install(func(site string, kv ...interface{}) {
			gid := goid()
			switch site {
			case "range.lookup":
				mu.Lock()
				known[gid] = kv[2].(bool)
				isFirst := first
				first = false
				mu.Unlock()
				arrived <- gid
				if isFirst {
					<-release
				}
			case "range.reply", "range.drop":
				mu.Lock()
				k := known[gid]
				mu.Unlock()
				id := s.macOf[kv[1].(string)]
				idx, res := -1, "drop"
				if site == "range.reply" {
					res = "reply"
					idx, _ = s.idxOf(net.ParseIP(kv[2].(string)))
				}
				t.Emit(Ev{"ev": "creq", "mac": id, "known": k, "res": res, "idx": idx, "held": verifhook.Held(kv[0].(verifhook.TryLocker)), "g": gid})
			}
		})
		var wg sync.WaitGroup
		call := func(id int) {
			defer wg.Done()
			e := s.callHandler(s.h, dhcpv4.MessageTypeDiscover, s.macs[id], "none")
			t.Emit(Ev{"ev": "cret", "mac": id, "res": e["res"], "idx": e["idx"], "lease": e["lease"], "g": goid()})
		}
		wg.Add(1)
		go call(0)
		<-arrived
		wg.Add(1)
		other := 0
		if !same {
			other = 1
		}
		go call(other)
		select {
		case <-arrived:
		case <-time.After(100 * time.Millisecond):
		}
		close(release)
		wg.Wait()
		verifhook.Install(nil)
		os.Remove(s.db)
	}
}

func runRange(args []string) error {
	fs := flag.NewFlagSet("range", flag.ContinueOnError)
	out := fs.String("out", "trace.ndjson", "trace file")
	seed := fs.Int64("seed", 1, "seed")
	mode := fs.String("mode", "bfs", "bfs | sim | conc | probe")
	depth := fs.Int("depth", 4, "bfs: all letter sequences of this length")
	nmacs := fs.Int("macs", 3, "client ids in the alphabet")
	n := fs.Int("n", 2, "addresses in the range (bfs)")
	probe := fs.Bool("probe", false, "restart probe (crash point) after every event")
	shard := fs.Int("shard", 0, "this shard")
	shards := fs.Int("shards", 1, "number of shards")
	count := fs.Int("count", 40, "sim: scenarios")
	ticks := fs.Bool("ticks", false, "sim: allow tick letters (2.1 s sleeps)")
	rounds := fs.Int("rounds", 4, "conc: rounds")
	dir := fs.String("dir", "", "scratch directory for database files")
	replay := fs.String("replay", "", "re-execute a recorded scenario")
	in := fs.String("in", "", "letters: JSON file with the behaviours TLC generated")
	if err := fs.Parse(args); err != nil {
		return err
	}
	raiseNofile()
	if *dir == "" {
		d, err := os.MkdirTemp("", "range")
		if err != nil {
			return err
		}
		defer os.RemoveAll(d)
		*dir = d
	}
	t, err := NewTrace(*out)
	if err != nil {
		return err
	}
	defer t.Close()
	nsetup := 0
	if *replay != "" {
		return runRangeReplay(t, *dir, *replay, &nsetup)
	}
	switch *mode {
	case "expiry":
		// leases that EXPIRE (1 s lease, 2.1 s ticks) before a restart: the code has no expiry - an expired binding is still a
		// binding, restored by a restart, and its address is nobody else's
		fixed := [][]string{
			{"D0", "D1", "tick", "restart", "D2", "D0", "D1", "D3"},
			{"D0", "tick", "D1", "restart", "D2", "D3", "D0", "restart", "D1", "D4"},
		}
		for k := *shard; k < len(fixed) && k < *count; k += *shards {
			r := rand.New(rand.NewSource(*seed*15485863 + int64(k)))
			s := newRangeScn(t, *dir, k, mkRangeGeom("10.0.0.9", 4), 1, r, true, &nsetup)
			s.run(fixed[k])
		}
		// the other extreme: a lease of 900000 hours (it still fits option 51; its end lies beyond the year 2106) - times recorded in hours
		if *shard == 0 {
			r := rand.New(rand.NewSource(*seed * 32452843))
			s := newRangeScn(t, *dir, 900, mkRangeGeom("10.0.0.9", 4), 900000*3600, r, true, &nsetup)
			s.tscale = 3600
			s.run([]string{"D0", "D1", "restart", "D0", "D2", "R1", "restart", "D3"})
		}
	case "fault":
		// histories with ONE window in which the lease database cannot be written (somebody else's write
		// transaction), crash points after every event outside the window
		fixed := [][]string{
			{"D0", "faulton", "D1", "D1", "faultoff", "D1", "D2", "D3", "R0", "restart", "D1", "D2", "D3"},
			{"D0", "D1", "faulton", "R0", "D2", "faultoff", "R2", "D3", "R1", "restart", "D0", "D3"},
			{"faulton", "D0", "faultoff", "D0", "D1", "restart", "D1", "D0"},
			{"D0", "faulton", "D1", "D2", "D3", "D4", "faultoff", "D4", "D3", "D5", "R0"},
		}
		for k := *shard; k < len(fixed)+*count; k += *shards {
			r := rand.New(rand.NewSource(*seed*104729 + int64(k)))
			var letters []string
			if k < len(fixed) {
				letters = fixed[k]
			} else {
				alpha := rangeAlphabet(5)
				nl := 8 + r.Intn(6)
				on := 1 + r.Intn(nl-4)
				off := on + 1 + r.Intn(3)
				for i := 0; i < nl; i++ {
					if i == on {
						letters = append(letters, "faulton")
					}
					if i == off {
						letters = append(letters, "faultoff")
					}
					l := alpha[r.Intn(len(alpha))]
					if l == "tick" {
						l = "D1"
					}
					if l == "restart" && i >= on && i < off {
						l = "D2" // no restart while the database is locked
					}
					letters = append(letters, l)
				}
			}
			s := newRangeScn(t, *dir, k, mkRangeGeom("10.0.0.1", 4), 60, r, true, &nsetup)
			s.dbq = "?_busy_timeout=40"
			s.run(letters)
		}
	case "bfs":
		alpha := rangeAlphabet(*nmacs)
		total := 1
		for i := 0; i < *depth; i++ {
			total *= len(alpha)
		}
		starts := []string{"10.0.0.1", "255.255.255.254", "10.0.0.255", "0.0.0.1"}
		for k := *shard; k < total; k += *shards {
			letters := make([]string, *depth)
			x := k
			for i := *depth - 1; i >= 0; i-- {
				letters[i] = alpha[x%len(alpha)]
				x /= len(alpha)
			}
			r := rand.New(rand.NewSource(*seed*1000003 + int64(k)))
			st := starts[r.Intn(len(starts))]
			if st == "255.255.255.254" && *n > 2 {
				e := make(net.IP, 4)
				binary.BigEndian.PutUint32(e, 0xffffffff-uint32(*n-1))
				st = e.String()
			}
			s := newRangeScn(t, *dir, k, mkRangeGeom(st, *n), 60, r, *probe, &nsetup)
			s.run(letters)
		}
	case "sim":
		// long random histories (depth 16), ranges of word-boundary sizes
		sizes := []int{2, 3, 5, 63, 64, 65}
		var wg sync.WaitGroup
		sem := make(chan struct{}, 12)
		var nmu sync.Mutex
		for k := *shard; k < *count; k += *shards {
			k := k
			wg.Add(1)
			sem <- struct{}{}
			go func() {
				defer wg.Done()
				defer func() { <-sem }()
				r := rand.New(rand.NewSource(*seed*7919 + int64(k)))
				nn := sizes[k%len(sizes)]
				st := "10.20.30.200"
				switch k % 8 {
				case 2:
					st = "10.0.0.1" // .1 ... .N: addresses of one, two (and three) digits
				case 6:
					st = "10.0.0.95" // crosses .99 / .100
				}
				if k%4 == 1 {
					e := make(net.IP, 4)
					binary.BigEndian.PutUint32(e, 0xffffffff-uint32(nn-1))
					st = e.String()
				}
				nm := nn + 2
				if nn > 8 {
					nm = nn + 3
				}
				// each simulated scenario records into its own buffer trace, appended atomically
				tmp := filepath.Join(*dir, fmt.Sprintf("sim-%d.ndjson", k))
				tt, err := NewTrace(tmp)
				if err != nil {
					return
				}
				ns := 0
				// short leases (renewals past half the lease) and long ones (renewals early in the lease)
				leaseSecs := 3
				if k%2 == 1 {
					leaseSecs = 3600
				}
				s := newRangeScn(tt, *dir, 300000+k, mkRangeGeom(st, nn), leaseSecs, r, *probe, &ns)
				var letters []string
				steps := 16
				if nn > 8 {
					steps = nn + 24
				}
				for i := 0; i < steps; i++ {
					x := r.Intn(100)
					switch {
					case x < 8:
						letters = append(letters, "restart")
					case x < 12 && *ticks && k%3 == 0:
						letters = append(letters, "tick")
					default:
						id := r.Intn(nm)
						if nn > 8 && r.Intn(3) != 0 {
							id = i % nm // march through the clients to reach exhaustion
						}
						if r.Intn(2) == 0 {
							letters = append(letters, "D"+strconv.Itoa(id))
						} else {
							letters = append(letters, "R"+strconv.Itoa(id))
						}
					}
				}
				s.run(letters)
				tt.Close()
				lines, _ := ReadTrace(tmp)
				os.Remove(tmp)
				nmu.Lock()
				for _, e := range lines {
					delete(e, "seq")
					t.Emit(e)
				}
				nmu.Unlock()
			}()
		}
		wg.Wait()
	case "letters":
		// model -> code: behaviours generated by TLC (spec/RangeGen.tla), one scenario per list
		raw, err := os.ReadFile(*in)
		if err != nil {
			return err
		}
		var scns [][]map[string]string
		if err := json.Unmarshal(raw, &scns); err != nil {
			return err
		}
		for k, sc := range scns {
			if k%*shards != *shard {
				continue
			}
			r := rand.New(rand.NewSource(*seed*31337 + int64(k)))
			lease := 3
			if k%2 == 1 {
				lease = 3600
			}
			st := []string{"10.0.0.1", "255.255.255.253", "10.0.0.254"}[k%3]
			s := newRangeScn(t, *dir, 400000+k, mkRangeGeom(st, *n), lease, r, *probe, &nsetup)
			var letters []string
			ticks := 0
			for _, l := range sc {
				switch l["op"] {
				case "restart":
					letters = append(letters, "restart")
				case "tick":
					if ticks < 1 && k%5 == 0 { // real time: 2.1 s each; keep them few
						letters = append(letters, "tick")
						ticks++
					}
				default:
					id, _ := strconv.Atoi(strings.TrimPrefix(l["m"], "m"))
					letters = append(letters, []string{"D", "R"}[r.Intn(2)]+strconv.Itoa(id))
				}
			}
			s.run(letters)
		}
	case "conc":
		runRangeConc(t, *dir, *seed, *rounds, &nsetup)
	case "probe":
		runRangeProbe(t, *dir, &nsetup)
	default:
		return fmt.Errorf("unknown mode %s", *mode)
	}
	return nil
}

// replay: re-execute the letters of a recorded scenario (same hardware addresses, host classes).
func runRangeReplay(t *Trace, dir, path string, nsetup *int) error {
	lines, err := ReadTrace(path)
	if err != nil {
		return err
	}
	var s *rangeScn
	for _, e := range lines {
		switch e["ev"] {
		case "reset":
			parts := strings.Split(toStr(e["geom"]), "-")
			g := rangeGeom{parts[0], parts[1], toInt(e["N"])}
			s = newRangeScn(t, dir, 1, g, toInt(e["lease"]), rand.New(rand.NewSource(1)), e["probe"] == true, nsetup)
			if !s.begin() {
				return nil
			}
			if s.probe {
				s.restartProbe("setup")
			}
		case "setup":
			if s == nil || e["restart"] != true {
				continue
			}
			if _, ok := e["lease"]; ok && s.tscale <= 1 {
				s.forceLease = toInt(e["lease"])
			}
			if !s.setup(true) {
				return nil
			}
			if s.probe {
				s.restartProbe("restart")
			}
		case "tick":
			time.Sleep(2100 * time.Millisecond)
			t.Emit(Ev{"ev": "tick"})
		case "req":
			if s == nil {
				return fmt.Errorf("scenario does not start with reset")
			}
			id := toInt(e["mac"])
			if _, ok := s.macs[id]; !ok {
				m, err := net.ParseMAC(toStr(e["machex"]))
				if err != nil {
					if norm, ok := parseStoredMac(toStr(e["machex"])); ok {
						m = net.HardwareAddr{}
						if norm != "" {
							for _, p := range strings.Split(norm, ":") {
								v, _ := strconv.ParseUint(p, 16, 8)
								m = append(m, byte(v))
							}
						}
					}
				}
				s.macs[id] = m
				s.macOf[m.String()] = id
			}
			mt := dhcpv4.MessageTypeDiscover
			if toStr(e["type"]) == "REQUEST" {
				mt = dhcpv4.MessageTypeRequest
			}
			s.forceOpt = -1
			if _, ok := e["ropt"]; ok {
				s.forceOpt = toInt(e["ropt"])
			}
			s.req(mt, id, toStr(e["host"]))
			if s.probe {
				s.restartProbe("req")
			}
		case "creq", "cret":
			return fmt.Errorf("concurrent scenarios are re-run, not replayed")
		}
	}
	if s != nil {
		os.Remove(s.db)
	}
	return nil
}
