module verifharness

go 1.22.0

require github.com/coredhcp/coredhcp v0.0.0

require (
	github.com/bits-and-blooms/bitset v1.22.0 // indirect
	github.com/chappjc/logrus-prefix v0.0.0-20180227015900-3a1d64819adb // indirect
	github.com/mattn/go-colorable v0.1.13 // indirect
	github.com/mattn/go-isatty v0.0.20 // indirect
	github.com/mgutz/ansi v0.0.0-20200706080929-d51e80ef957d // indirect
	github.com/rifflock/lfshook v0.0.0-20180920164130-b9218ef580f5 // indirect
	github.com/sirupsen/logrus v1.9.3 // indirect
	golang.org/x/crypto v0.32.0 // indirect
	golang.org/x/sys v0.29.0 // indirect
	golang.org/x/term v0.28.0 // indirect
)

replace github.com/coredhcp/coredhcp => /repo
