module verifharness

go 1.22.0

require (
	github.com/coredhcp/coredhcp v0.0.0
	github.com/google/gopacket v1.1.19
	github.com/insomniacslk/dhcp v0.0.0-20241203100832-a481575ed0ef
	github.com/mattn/go-sqlite3 v1.14.24
	github.com/sirupsen/logrus v1.9.3
	golang.org/x/net v0.34.0
)

require (
	github.com/bits-and-blooms/bitset v1.22.0 // indirect
	github.com/chappjc/logrus-prefix v0.0.0-20180227015900-3a1d64819adb // indirect
	github.com/fsnotify/fsnotify v1.8.0 // indirect
	github.com/go-viper/mapstructure/v2 v2.2.1 // indirect
	github.com/mattn/go-colorable v0.1.13 // indirect
	github.com/mattn/go-isatty v0.0.20 // indirect
	github.com/mgutz/ansi v0.0.0-20200706080929-d51e80ef957d // indirect
	github.com/pelletier/go-toml/v2 v2.2.3 // indirect
	github.com/pierrec/lz4/v4 v4.1.22 // indirect
	github.com/rifflock/lfshook v0.0.0-20180920164130-b9218ef580f5 // indirect
	github.com/sagikazarmark/locafero v0.7.0 // indirect
	github.com/sourcegraph/conc v0.3.0 // indirect
	github.com/spf13/afero v1.12.0 // indirect
	github.com/spf13/cast v1.7.1 // indirect
	github.com/spf13/pflag v1.0.6 // indirect
	github.com/spf13/viper v1.20.0 // indirect
	github.com/subosito/gotenv v1.6.0 // indirect
	github.com/u-root/uio v0.0.0-20240224005618-d2acac8f3701 // indirect
	golang.org/x/crypto v0.32.0 // indirect
	golang.org/x/sys v0.29.0 // indirect
	golang.org/x/term v0.28.0 // indirect
	golang.org/x/text v0.21.0 // indirect
	gopkg.in/yaml.v3 v3.0.1 // indirect
)

replace github.com/coredhcp/coredhcp => /repo
