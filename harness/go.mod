module verifharness

go 1.22.0

require github.com/coredhcp/coredhcp v0.0.0

replace github.com/coredhcp/coredhcp => /repo
