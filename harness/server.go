package main

// Family server (properties C01 C16): the whole server without sockets. Chains of
// real built-in plugins with valid arguments are loaded through config ->
// plugins.LoadPlugins -> the verif listener; datagrams are fed as bytes through
// Feed (which recycles receive buffers through the server's own pool; a buffer
// is poisoned as soon as it is back in the pool).
//   mode chains  (C01) one child process per chain; a history of well-formed and
//                byte-mutated datagrams; every datagram must end in at most one
//                reply or a drop - no panic, no goroutine parked on a mutex - and
//                a probe request per protocol must still be handled afterwards
//   mode conc    (C16) 16 goroutines feed datagrams of few clients against nearly
//                exhausted pools while the static lease file is rewritten; the
//                observation points inside the plugins give the linearization
//                order; run on the -race build
//   mode sched   (C16) the schedule TLC finds for Server_v6_perIA (one message
//                parked between its IA_PDs while another is handled completely)
//                imposed through the prefix.unlocked observation point

import (
	"bytes"
	"encoding/json"
	"flag"
	"fmt"
	"math/rand"
	"net"
	"os"
	"os/exec"
	"path/filepath"
	"runtime"
	"strconv"
	"strings"
	"sync"
	"sync/atomic"
	"time"

	"github.com/coredhcp/coredhcp/config"
	"github.com/coredhcp/coredhcp/plugins"
	"github.com/coredhcp/coredhcp/server"
	"github.com/coredhcp/coredhcp/verifhook"
	"github.com/insomniacslk/dhcp/dhcpv4"
	"github.com/insomniacslk/dhcp/dhcpv6"
	"golang.org/x/net/ipv4"
	"golang.org/x/net/ipv6"
)

func init() { families["server"] = runServer }

var regBuiltin sync.Once

func registerBuiltin() {
	regBuiltin.Do(func() {
		for _, p := range builtin {
			if err := plugins.RegisterPlugin(p); err != nil {
				panic(err)
			}
		}
	})
}

// per-goroutine capture of what the server would have sent
type gcap struct {
	mu sync.Mutex
	m4 map[int][]server.VerifSent4
	m6 map[int][]server.VerifSent6
}

var gc = &gcap{m4: map[int][]server.VerifSent4{}, m6: map[int][]server.VerifSent6{}}

func installGoroutineHooks() {
	server.VerifSend4Hook = func(s server.VerifSent4) bool {
		g := goid()
		gc.mu.Lock()
		gc.m4[g] = append(gc.m4[g], s)
		gc.mu.Unlock()
		// a link-level reply on a listener bound to a real interface goes on through sendEthernet (the frame is built,
		// the frame hook below keeps it off the wire): that code runs in the datagram's goroutine as well
		return !(s.L2 && realL2)
	}
	server.VerifSend6Hook = func(s server.VerifSent6) bool {
		g := goid()
		gc.mu.Lock()
		gc.m6[g] = append(gc.m6[g], s)
		gc.mu.Unlock()
		return true
	}
	server.VerifFrameHook = func(iface net.Interface, frame []byte) bool { return true }
	server.VerifBufPutHook = func(buf []byte) {
		b := buf[:cap(buf)]
		for i := range b {
			b[i] = 0xA5
		}
	}
}

type plugConf struct {
	Name string   `json:"name"`
	Args []string `json:"args"`
}

// valid configurations of every built-in plugin; file names are relative to the child's directory
func pool4() []plugConf {
	return []plugConf{
		{"server_id", []string{"10.0.0.1"}}, {"dns", []string{"8.8.8.8", "1.1.1.1"}}, {"router", []string{"10.0.0.254"}},
		{"netmask", []string{"255.255.255.0"}}, {"mtu", []string{"1400"}}, {"searchdomains", []string{"example.org", "corp.example.net"}},
		{"staticroute", []string{"10.9.0.0/16,10.0.0.253"}}, {"lease_time", []string{"1800s"}}, {"ipv6only", []string{"600s"}},
		{"autoconfigure", []string{"1"}}, {"nbp", []string{"tftp://10.0.0.2/pxelinux.0"}}, {"sleep", []string{"1ms"}},
		{"file", []string{"leases4.txt"}}, {"range", []string{"leases.sqlite", "10.0.0.100", "10.0.0.103", "60s"}},
		{"file", []string{"leases4.txt", "autorefresh"}},
	}
}

func pool6() []plugConf {
	return []plugConf{
		{"server_id", []string{"LL", "00:de:ad:be:ef:00"}}, {"dns", []string{"2001:4860:4860::8888"}}, {"searchdomains", []string{"example.org"}},
		{"nbp", []string{"http://[2001:db8::1]/boot.efi?params=a=b"}}, {"sleep", []string{"1ms"}}, {"file", []string{"leases6.txt"}},
		{"prefix", []string{"2001:db8:0:fffc::/62", "64"}}, {"file", []string{"leases6.txt", "autorefresh"}},
	}
}

// ---- datagrams -----------------------------------------------------------------------------------

var srvMacs = []net.HardwareAddr{{0, 0x1a, 0x2b, 0x3c, 0x4d, 0x50}, {0, 0x1a, 0x2b, 0x3c, 0x4d, 0x51}, {2, 0, 0, 0, 0, 9}, {2, 0, 0, 0, 0, 10}, {2, 0, 0, 0, 0, 11}, {2, 0, 0, 0, 0, 12}, {2, 0, 0, 0, 0, 13}}

func wellFormed4(r *rand.Rand) ([]byte, string) {
	d, _ := dhcpv4.New()
	r.Read(d.TransactionID[:])
	kind := []string{"discover", "request", "request-other-server", "decline", "release", "inform", "discover-relayed", "discover-hlen0", "discover-hlen16", "reply-opcode"}[r.Intn(10)]
	d.ClientHWAddr = append(net.HardwareAddr{}, srvMacs[r.Intn(len(srvMacs))]...)
	mt := dhcpv4.MessageTypeDiscover
	switch kind {
	case "request", "request-other-server":
		mt = dhcpv4.MessageTypeRequest
	case "decline":
		mt = dhcpv4.MessageTypeDecline
	case "release":
		mt = dhcpv4.MessageTypeRelease
	case "inform":
		mt = dhcpv4.MessageTypeInform
	}
	d.UpdateOption(dhcpv4.OptMessageType(mt))
	switch kind {
	case "request-other-server":
		d.UpdateOption(dhcpv4.OptServerIdentifier(net.IPv4(10, 0, 0, 77)))
	case "discover-relayed":
		d.GatewayIPAddr = net.IPv4(10, 8, 8, 1).To4()
		d.Options[uint8(dhcpv4.OptionRelayAgentInformation)] = []byte{1, 3, 'a', 'b', 'c'}
	case "discover-hlen0":
		d.ClientHWAddr = net.HardwareAddr{}
	case "discover-hlen16":
		d.ClientHWAddr = make(net.HardwareAddr, 16)
		r.Read(d.ClientHWAddr)
	case "reply-opcode":
		d.OpCode = dhcpv4.OpcodeBootReply
	}
	if r.Intn(2) == 0 {
		prl := []byte{1, 3, 6, 15, 26, 51, 66, 67, 108, 119, 121}
		r.Shuffle(len(prl), func(i, j int) { prl[i], prl[j] = prl[j], prl[i] })
		d.Options[uint8(dhcpv4.OptionParameterRequestList)] = prl[:r.Intn(len(prl)+1)]
		if len(d.Options[uint8(dhcpv4.OptionParameterRequestList)]) == 0 {
			delete(d.Options, uint8(dhcpv4.OptionParameterRequestList))
		}
	}
	if r.Intn(4) == 0 {
		d.Options[uint8(dhcpv4.OptionAutoConfigure)] = []byte{1}
	}
	if r.Intn(4) == 0 {
		d.SetBroadcast()
	}
	if r.Intn(5) == 0 {
		d.ClientIPAddr = net.IPv4(10, 0, 0, byte(100+r.Intn(4))).To4()
	}
	if r.Intn(3) == 0 {
		d.UpdateOption(dhcpv4.OptHostName("host" + strconv.Itoa(r.Intn(50))))
	}
	if r.Intn(4) == 0 {
		d.Options[uint8(dhcpv4.OptionClientIdentifier)] = append([]byte{1}, d.ClientHWAddr...)
	}
	return d.ToBytes(), kind
}

func wellFormed6(r *rand.Rand, ownDUID dhcpv6.DUID) ([]byte, string) {
	types := []dhcpv6.MessageType{1, 1, 3, 4, 5, 6, 8, 9, 11, 2, 7, 10}
	m := &dhcpv6.Message{MessageType: types[r.Intn(len(types))]}
	r.Read(m.TransactionID[:])
	kind := "t" + strconv.Itoa(int(m.MessageType))
	switch x := r.Intn(10); {
	case x == 0:
		kind += "-nocid"
	case x == 1:
		// client identifiers a real client would not build but the codec accepts: a DUID-LL without address, opaque ones of 2..5 bytes
		raw := [][]byte{{0, 3, 0, 1}, {0, 3, 0, 1, 0x02}, {0x12, 0x34}, {0xff, 0xff, 0x01}, {0, 2, 0, 0, 0x7e}}[r.Intn(5)]
		m.AddOption(&dhcpv6.OptionGeneric{OptionCode: dhcpv6.OptionClientID, OptionData: raw})
		kind += "-shortcid"
	default:
		mac := srvMacs[r.Intn(len(srvMacs))]
		m.AddOption(dhcpv6.OptClientID(&dhcpv6.DUIDLL{HWType: 1, LinkLayerAddr: mac}))
	}
	if m.MessageType == 1 && r.Intn(3) == 0 {
		m.AddOption(&dhcpv6.OptionGeneric{OptionCode: dhcpv6.OptionRapidCommit})
	}
	switch r.Intn(4) {
	case 0:
		m.AddOption(dhcpv6.OptServerID(ownDUID))
	case 1:
		m.AddOption(dhcpv6.OptServerID(&dhcpv6.DUIDLL{HWType: 1, LinkLayerAddr: net.HardwareAddr{9, 9, 9, 9, 9, 9}}))
	}
	if r.Intn(2) == 0 {
		m.AddOption(&dhcpv6.OptIANA{IaId: [4]byte{0, 0, 0, byte(r.Intn(4))}})
	}
	if r.Intn(4) == 0 {
		m.AddOption(&dhcpv6.OptIATA{IaId: [4]byte{0, 0, 1, byte(r.Intn(4))}}) // temporary addresses, with or without an IA_NA
	}
	npd := r.Intn(3)
	for i := 0; i < npd; i++ {
		pd := &dhcpv6.OptIAPD{IaId: [4]byte{1, 0, 0, byte(i)}}
		switch r.Intn(8) {
		case 0:
		case 6: // a prefix-length byte above 128 (no mask of that length exists), address inside the configured pool
			pd.Options.Add(&rawIAPrefix{pref: 100, valid: 200, plen: byte(129 + r.Intn(127)), ip: net.ParseIP(fmt.Sprintf("2001:db8:0:fff%x::", 12+r.Intn(4)))})
		case 7: // an address inside the pool with a length shorter than the pool's own
			pd.Options.Add(&dhcpv6.OptIAPrefix{Prefix: &net.IPNet{IP: net.ParseIP(fmt.Sprintf("2001:db8:0:fff%x::%x", 12+r.Intn(4), r.Intn(3))), Mask: net.CIDRMask(1+r.Intn(61), 128)}})
		case 1: // prefix-length 0: parses to a nil prefix
			pd.Options.Add(&dhcpv6.OptIAPrefix{Prefix: &net.IPNet{IP: net.IPv6zero, Mask: net.CIDRMask(0, 128)}})
		case 2:
			pd.Options.Add(&dhcpv6.OptIAPrefix{Prefix: &net.IPNet{IP: net.IPv6zero, Mask: net.CIDRMask(64, 128)}})
		case 3:
			pd.Options.Add(&dhcpv6.OptIAPrefix{Prefix: &net.IPNet{IP: net.ParseIP(fmt.Sprintf("2001:db8:0:fff%x::", 12+r.Intn(4))), Mask: net.CIDRMask(64, 128)}})
		case 4:
			pd.Options.Add(&dhcpv6.OptIAPrefix{Prefix: &net.IPNet{IP: net.ParseIP("2001:db8:0:fffd::"), Mask: net.CIDRMask(72+r.Intn(40), 128)}})
			pd.Options.Add(&dhcpv6.OptIAPrefix{Prefix: &net.IPNet{IP: net.IPv6zero, Mask: net.CIDRMask(0, 128)}})
		default:
			pd.Options.Add(&dhcpv6.OptIAPrefix{Prefix: &net.IPNet{IP: net.ParseIP("2001:db8:ffff::"), Mask: net.CIDRMask(56, 128)}})
		}
		m.AddOption(pd)
	}
	if r.Intn(2) == 0 {
		m.AddOption(dhcpv6.OptRequestedOption(dhcpv6.OptionDNSRecursiveNameServer, dhcpv6.OptionBootfileURL, dhcpv6.OptionBootfileParam, dhcpv6.OptionDomainSearchList))
	}
	var outer dhcpv6.DHCPv6 = m
	depth := 0
	if r.Intn(3) == 0 {
		depth = 1 + r.Intn(3)
	}
	for i := 0; i < depth; i++ {
		rm := &dhcpv6.RelayMessage{MessageType: dhcpv6.MessageTypeRelayForward, HopCount: uint8(i), LinkAddr: net.ParseIP("2001:db8:1::1"), PeerAddr: net.ParseIP("fe80::2")}
		if r.Intn(2) == 0 {
			rm.AddOption(dhcpv6.OptInterfaceID([]byte{byte(i), 1, 2}))
		}
		if r.Intn(3) == 0 {
			rm.AddOption(dhcpv6.OptClientLinkLayerAddress(1, srvMacs[r.Intn(2)]))
		}
		rm.AddOption(dhcpv6.OptRelayMessage(outer))
		outer = rm
		kind += "-relay"
	}
	return outer.ToBytes(), kind
}

// ---- clients that remember what they were told (conversations, not only single datagrams) -----------

type convState struct {
	held6    map[string][]*net.IPNet // hardware address -> prefixes replies delegated to it, in the order told
	offered4 map[string]net.IP       // hardware address -> yiaddr of the last reply
}

func newConvState() *convState {
	return &convState{held6: map[string][]*net.IPNet{}, offered4: map[string]net.IP{}}
}

func (st *convState) learn(fr feedRes) {
	for _, s := range fr.sent4 {
		if s.Resp != nil && s.Resp.YourIPAddr != nil && !s.Resp.YourIPAddr.IsUnspecified() {
			st.offered4[s.Resp.ClientHWAddr.String()] = s.Resp.YourIPAddr
		}
	}
	for _, s := range fr.sent6 {
		if s.Resp == nil {
			continue
		}
		m, err := s.Resp.GetInnerMessage()
		if err != nil {
			continue
		}
		cid := m.Options.ClientID()
		ll, ok := cid.(*dhcpv6.DUIDLL)
		if !ok {
			continue
		}
		k := ll.LinkLayerAddr.String()
		for _, pd := range m.Options.IAPD() {
			for _, p := range pd.Options.Prefixes() {
				if p.Prefix == nil {
					continue
				}
				dup := false
				for _, h := range st.held6[k] {
					dup = dup || h.String() == p.Prefix.String()
				}
				if !dup && len(st.held6[k]) < 6 {
					st.held6[k] = append(st.held6[k], p.Prefix)
				}
			}
		}
	}
}

// followUp6: a client that holds prefixes comes back - REQUEST / RENEW / REBIND / RELEASE / DECLINE / SOLICIT
// naming what it holds, in every layout a client may choose
func followUp6(r *rand.Rand, ownDUID dhcpv6.DUID, st *convState) ([]byte, string, bool) {
	return followUp6As(r, ownDUID, st, "", 0, "")
}

// followUp6As: the same, for a given client / message type / layout ("" and 0: drawn at random)
func followUp6As(r *rand.Rand, ownDUID dhcpv6.DUID, st *convState, who string, forceTyp dhcpv6.MessageType, forceLayout string) ([]byte, string, bool) {
	var macs []string
	for k, v := range st.held6 {
		if len(v) > 0 {
			macs = append(macs, k)
		}
	}
	if len(macs) == 0 {
		return nil, "", false
	}
	sortStrings(macs)
	k := macs[r.Intn(len(macs))]
	if who != "" {
		if len(st.held6[who]) == 0 {
			return nil, "", false
		}
		k = who
	}
	held := st.held6[k]
	mac, _ := net.ParseMAC(k)
	typ := []dhcpv6.MessageType{3, 5, 6, 8, 9, 1, 8, 5}[r.Intn(8)]
	if forceTyp != 0 {
		typ = forceTyp
	}
	m := &dhcpv6.Message{MessageType: typ}
	r.Read(m.TransactionID[:])
	m.AddOption(dhcpv6.OptClientID(&dhcpv6.DUIDLL{HWType: 1, LinkLayerAddr: mac}))
	if typ != 6 && typ != 1 {
		m.AddOption(dhcpv6.OptServerID(ownDUID))
	}
	pfx := func(n *net.IPNet) *dhcpv6.OptIAPrefix {
		return &dhcpv6.OptIAPrefix{PreferredLifetime: 600 * time.Second, ValidLifetime: 900 * time.Second, Prefix: n}
	}
	layout := []string{"one-each", "all-in-one", "first", "last", "reversed", "plus-new", "twice"}[r.Intn(7)]
	if forceLayout != "" {
		layout = forceLayout
	}
	iaid := byte(0)
	addPD := func(ps ...*net.IPNet) {
		pd := &dhcpv6.OptIAPD{IaId: [4]byte{2, 0, 0, iaid}}
		iaid++
		for _, n := range ps {
			pd.Options.Add(pfx(n))
		}
		m.AddOption(pd)
	}
	switch layout {
	case "one-each":
		for _, n := range held {
			addPD(n)
		}
	case "all-in-one":
		addPD(held...)
	case "first":
		addPD(held[0])
	case "last":
		addPD(held[len(held)-1])
	case "reversed":
		for i := len(held) - 1; i >= 0; i-- {
			addPD(held[i])
		}
	case "plus-new":
		addPD(held[0])
		addPD(&net.IPNet{IP: net.ParseIP(fmt.Sprintf("2001:db8:0:fff%x::", 12+r.Intn(4))), Mask: net.CIDRMask(64, 128)})
	case "twice":
		addPD(held[0], held[0])
	}
	return m.ToBytes(), fmt.Sprintf("t%d-follow-%s", int(typ), layout), true
}

// followUp4: REQUEST (selecting: requested address + server identifier; renewing: ciaddr), DECLINE, RELEASE of what was offered
func followUp4(r *rand.Rand, st *convState) ([]byte, string, bool) {
	var macs []string
	for k := range st.offered4 {
		macs = append(macs, k)
	}
	if len(macs) == 0 {
		return nil, "", false
	}
	sortStrings(macs)
	k := macs[r.Intn(len(macs))]
	mac, _ := net.ParseMAC(k)
	ip := st.offered4[k]
	d, _ := dhcpv4.New()
	r.Read(d.TransactionID[:])
	d.ClientHWAddr = mac
	kind := []string{"request-selecting", "request-renewing", "decline", "release", "request-wrong-address"}[r.Intn(5)]
	switch kind {
	case "request-selecting":
		d.UpdateOption(dhcpv4.OptMessageType(dhcpv4.MessageTypeRequest))
		d.UpdateOption(dhcpv4.OptRequestedIPAddress(ip))
		d.UpdateOption(dhcpv4.OptServerIdentifier(net.IPv4(10, 0, 0, 1)))
	case "request-renewing":
		d.UpdateOption(dhcpv4.OptMessageType(dhcpv4.MessageTypeRequest))
		d.ClientIPAddr = ip.To4()
	case "decline":
		d.UpdateOption(dhcpv4.OptMessageType(dhcpv4.MessageTypeDecline))
		d.UpdateOption(dhcpv4.OptRequestedIPAddress(ip))
		d.UpdateOption(dhcpv4.OptServerIdentifier(net.IPv4(10, 0, 0, 1)))
	case "release":
		d.UpdateOption(dhcpv4.OptMessageType(dhcpv4.MessageTypeRelease))
		d.ClientIPAddr = ip.To4()
		d.UpdateOption(dhcpv4.OptServerIdentifier(net.IPv4(10, 0, 0, 1)))
	default:
		d.UpdateOption(dhcpv4.OptMessageType(dhcpv4.MessageTypeRequest))
		d.UpdateOption(dhcpv4.OptRequestedIPAddress(net.IPv4(10, 0, 0, byte(1+r.Intn(250)))))
	}
	return d.ToBytes(), "follow-" + kind, true
}

// optShort4 rewrites one option of a DHCPv4 datagram (or injects it) with a value of 0..5 random bytes:
// the codec does not validate per-option lengths, so every reader of an option meets these.
func optShort4(b []byte, r *rand.Rand) ([]byte, bool) {
	d, err := dhcpv4.FromBytes(b)
	if err != nil {
		return b, false
	}
	codes := []uint8{50, 51, 53, 54, 55, 57, 61, 82, 108, 116, 12, 1, 3, 6}
	c := codes[r.Intn(len(codes))]
	v := make([]byte, r.Intn(6))
	r.Read(v)
	if c == 53 && len(v) > 0 {
		v[0] = []byte{1, 3}[r.Intn(2)]
	}
	d.Options[c] = v
	return d.ToBytes(), true
}

// optShort6 appends an option with a too-short (or odd) body to the innermost DHCPv6 message bytes.
func optShort6(b []byte, r *rand.Rand) ([]byte, bool) {
	if len(b) < 4 || b[0] == 12 || b[0] == 13 {
		return b, false
	}
	codes := []uint16{1, 2, 3, 25, 26, 6, 8, 14, 16, 39, 79}
	c := codes[r.Intn(len(codes))]
	v := make([]byte, r.Intn(7))
	r.Read(v)
	out := append([]byte{}, b...)
	out = append(out, byte(c>>8), byte(c), 0, byte(len(v)))
	return append(out, v...), true
}

func mutate(b []byte, r *rand.Rand) ([]byte, string) {
	b = append([]byte{}, b...)
	if len(b) == 0 {
		return b, "empty"
	}
	if r.Intn(3) == 0 {
		if len(b) >= 240 {
			if nb, ok := optShort4(b, r); ok {
				return nb, "opt-short"
			}
		} else if nb, ok := optShort6(b, r); ok {
			return nb, "opt-short"
		}
	}
	switch r.Intn(9) {
	case 0:
		return b[:r.Intn(len(b))], "truncate"
	case 1:
		for n := 1 + r.Intn(4); n > 0; n-- {
			b[r.Intn(len(b))] ^= 1 << uint(r.Intn(8))
		}
		return b, "bitflip"
	case 2:
		for n := 1 + r.Intn(3); n > 0; n-- {
			b[r.Intn(len(b))] = byte(r.Intn(256))
		}
		return b, "setbyte"
	case 3: // corrupt something in the options area (length bytes live there)
		start := 4
		if len(b) > 240 {
			start = 240
		}
		if len(b) > start {
			b[start+r.Intn(len(b)-start)] = []byte{0, 1, 0xff, 0x80, 2}[r.Intn(5)]
		}
		return b, "optlen"
	case 4:
		i := r.Intn(len(b))
		j := i + r.Intn(len(b)-i)
		return append(b[:j], append(append([]byte{}, b[i:j]...), b[j:]...)...), "dup-slice"
	case 5:
		extra := make([]byte, r.Intn(300))
		r.Read(extra)
		return append(b, extra...), "append-junk"
	case 6:
		big := make([]byte, 65535)
		r.Read(big)
		copy(big, b[:len(b)/2])
		return big, "max-size"
	case 7:
		return []byte{}, "empty"
	default:
		i := r.Intn(len(b))
		return append(b[:i], b[i+1:]...), "delete-byte"
	}
}

// ---- feeding --------------------------------------------------------------------------------------

type feedRes struct {
	res     string // reply | drop | panic | wedged | slow
	n       int
	msg     string
	sent4   []server.VerifSent4
	sent6   []server.VerifSent6
	elapsed time.Duration
}

func stacksParkedOnMutex() bool {
	buf := make([]byte, 1<<20)
	n := runtime.Stack(buf, true)
	s := string(buf[:n])
	for _, g := range strings.Split(s, "\n\n") {
		if (strings.Contains(g, "sync.(*Mutex).Lock") || strings.Contains(g, "sync.(*RWMutex).RLock") || strings.Contains(g, "sync.(*RWMutex).Lock")) &&
			strings.Contains(g, "github.com/coredhcp/coredhcp/") {
			return true
		}
	}
	return false
}

func feed(l4 *server.VerifListener4, l6 *server.VerifListener6, proto int, b []byte, ifx int, peer *net.UDPAddr) feedRes {
	var fr feedRes
	done := make(chan struct{})
	var pan interface{}
	var gid int
	t0 := time.Now()
	go func() {
		defer close(done)
		defer func() { pan = recover() }()
		gid = goid()
		if proto == 4 {
			l4.Feed(b, &ipv4.ControlMessage{IfIndex: ifx}, peer)
		} else {
			l6.Feed(b, &ipv6.ControlMessage{IfIndex: ifx}, peer)
		}
	}()
	select {
	case <-done:
	case <-time.After(10 * time.Second):
		if stacksParkedOnMutex() {
			fr.res = "wedged"
		} else {
			fr.res = "slow"
		}
		fr.elapsed = time.Since(t0)
		return fr
	}
	fr.elapsed = time.Since(t0)
	gc.mu.Lock()
	fr.sent4, fr.sent6 = gc.m4[gid], gc.m6[gid]
	delete(gc.m4, gid)
	delete(gc.m6, gid)
	gc.mu.Unlock()
	fr.n = len(fr.sent4) + len(fr.sent6)
	switch {
	case pan != nil:
		fr.res, fr.msg = "panic", fmt.Sprint(pan)
	case fr.n == 0:
		fr.res = "drop"
	default:
		fr.res = "reply"
		// the reply must also survive serialisation: Serve's WriteTo calls ToBytes
		func() {
			defer func() {
				if p := recover(); p != nil {
					fr.res, fr.msg = "panic", "ToBytes: "+fmt.Sprint(p)
				}
			}()
			for _, s := range fr.sent4 {
				if s.Resp == nil {
					panic("a nil response reached the send path")
				}
				s.Resp.ToBytes()
			}
			for _, s := range fr.sent6 {
				if s.Resp == nil {
					panic("a nil response reached the send path")
				}
				s.Resp.ToBytes()
			}
		}()
	}
	return fr
}

var realL2 = false // the listeners of this process are bound to an interface that has a hardware address

func boundIndex() int {
	if ifs := macInterfaces(); len(ifs) > 0 {
		realL2 = true
		return ifs[0].Index
	}
	return 5
}

// one chain, in this process
func runServerOne(t *Trace, c4, c6 []plugConf, seed int64, ndg int) error {
	registerBuiltin()
	installGoroutineHooks()
	os.WriteFile("leases4.txt", []byte(srvMacs[0].String()+" 10.0.0.50\n"+srvMacs[1].String()+" 10.0.0.51\n"), 0o644)
	os.WriteFile("leases6.txt", []byte(srvMacs[0].String()+" 2001:db8::50\n"+srvMacs[1].String()+" 2001:db8::51\n"), 0o644)
	conf := &config.Config{}
	names4, names6 := []string{}, []string{}
	if c4 != nil {
		sc := &config.ServerConfig{}
		for _, p := range c4 {
			sc.Plugins = append(sc.Plugins, config.PluginConfig{Name: p.Name, Args: p.Args})
			names4 = append(names4, p.Name)
		}
		conf.Server4 = sc
	}
	if c6 != nil {
		sc := &config.ServerConfig{}
		for _, p := range c6 {
			sc.Plugins = append(sc.Plugins, config.PluginConfig{Name: p.Name, Args: p.Args})
			names6 = append(names6, p.Name)
		}
		conf.Server6 = sc
	}
	h4, h6, err := plugins.LoadPlugins(conf)
	load := "ok"
	if err != nil {
		load = "err"
	}
	t.Emit(Ev{"ev": "chain", "c4": names4, "c6": names6, "load": load, "msg": fmt.Sprint(err)})
	if err != nil {
		return nil
	}
	ifx := boundIndex()
	l4 := server.NewVerifListener4(h4, net.Interface{Index: ifx})
	l6 := server.NewVerifListener6(h6, net.Interface{})
	r := rand.New(rand.NewSource(seed))
	// with autorefresh in the chain the environment keeps appending to the lease files while the history runs
	auto := false
	for _, p := range append(append([]plugConf{}, c4...), c6...) {
		if p.Name == "file" && len(p.Args) > 1 {
			auto = true
		}
	}
	stopRewrite := make(chan struct{})
	var rw sync.WaitGroup
	if auto {
		rw.Add(1)
		go func() {
			defer rw.Done()
			for i := 0; ; i++ {
				select {
				case <-stopRewrite:
					return
				default:
				}
				for _, fn := range []string{"leases4.txt", "leases6.txt"} {
					if f, err := os.OpenFile(fn, os.O_WRONLY|os.O_APPEND, 0); err == nil {
						if fn == "leases4.txt" {
							fmt.Fprintf(f, "02:00:00:00:02:%02x 10.0.2.%d\n", i%200, i%200)
						} else {
							fmt.Fprintf(f, "02:00:00:00:02:%02x 2001:db8::2:%x\n", i%200, i%200)
						}
						f.Close()
					}
				}
				time.Sleep(200 * time.Microsecond)
			}
		}()
	}
	defer func() { close(stopRewrite); rw.Wait() }()
	own := &dhcpv6.DUIDLL{HWType: 1, LinkLayerAddr: net.HardwareAddr{0, 0xde, 0xad, 0xbe, 0xef, 0}}
	peer4 := &net.UDPAddr{IP: net.IPv4(10, 0, 0, 9), Port: 68}
	dead := false
	conv := newConvState()
	// systematic, not sampled: every option a plugin reads, with every body length 0..5 (DHCPv6: 0..6), on the message
	// types that are answered - the codec does not validate per-option lengths, every reader of an option meets these
	if c4 != nil {
		for _, code := range []uint8{1, 3, 6, 12, 50, 51, 53, 54, 55, 57, 61, 82, 108, 116} {
			for n := 0; n <= 5 && !dead; n++ {
				for _, mt := range []dhcpv4.MessageType{dhcpv4.MessageTypeDiscover, dhcpv4.MessageTypeRequest} {
					d, _ := dhcpv4.NewDiscovery(srvMacs[2+(n+int(code))%5])
					d.UpdateOption(dhcpv4.OptMessageType(mt))
					v := make([]byte, n)
					r.Read(v)
					if code == 53 {
						if n == 0 {
							continue
						}
						v[0] = byte(mt)
					}
					d.Options[code] = v
					fr := feed(l4, l6, 4, d.ToBytes(), 7, peer4)
					t.Emit(Ev{"ev": "dg", "proto": 4, "kind": fmt.Sprintf("sweep-opt%d-len%d", code, n), "mut": "opt-short", "len": len(d.ToBytes()), "res": fr.res, "n": fr.n, "msg": fr.msg})
					if fr.res == "wedged" || fr.res == "slow" {
						dead = true
					}
				}
			}
		}
	}
	if c6 != nil {
		for _, code := range []uint16{1, 2, 3, 6, 8, 14, 16, 25, 26, 39, 79} {
			for n := 0; n <= 6 && !dead; n++ {
				for _, mt := range []dhcpv6.MessageType{dhcpv6.MessageTypeSolicit, dhcpv6.MessageTypeRequest, dhcpv6.MessageTypeRenew} {
					m, _ := dhcpv6.NewSolicit(srvMacs[6]) // one client: the sweep must not use up a small prefix pool
					m.MessageType = mt
					if mt != dhcpv6.MessageTypeSolicit {
						m.AddOption(dhcpv6.OptServerID(own))
					}
					m.AddOption(&dhcpv6.OptIAPD{IaId: [4]byte{3, 0, 0, 1}})
					b := m.ToBytes()
					v := make([]byte, n)
					r.Read(v)
					b = append(b, byte(code>>8), byte(code), 0, byte(n))
					b = append(b, v...)
					fr := feed(l4, l6, 6, b, 7, &net.UDPAddr{IP: net.ParseIP("fe80::99"), Port: 546})
					t.Emit(Ev{"ev": "dg", "proto": 6, "kind": fmt.Sprintf("sweep-opt%d-len%d", code, n), "mut": "opt-short", "len": len(b), "res": fr.res, "n": fr.n, "msg": fr.msg})
					if fr.res == "wedged" || fr.res == "slow" {
						dead = true
					}
				}
			}
		}
	}
	// systematic as well: one client that holds two prefixes comes back with every message type in every layout
	if c6 != nil && !dead {
		who := srvMacs[5]
		emit6 := func(b []byte, kind string) {
			fr := feed(l4, l6, 6, b, 7, &net.UDPAddr{IP: net.ParseIP("fe80::99"), Port: 546})
			conv.learn(fr)
			t.Emit(Ev{"ev": "dg", "proto": 6, "kind": kind, "mut": "none", "len": len(b), "res": fr.res, "n": fr.n, "msg": fr.msg})
			if fr.res == "wedged" || fr.res == "slow" {
				dead = true
			}
		}
		m, _ := dhcpv6.NewSolicit(who)
		m.AddOption(&dhcpv6.OptIAPD{IaId: [4]byte{2, 0, 0, 0}})
		emit6(m.ToBytes(), "t1-conv-first")
		if b, k, ok := followUp6As(r, own, conv, who.String(), 3, "plus-new"); ok && !dead {
			emit6(b, k)
		}
		for _, typ := range []dhcpv6.MessageType{3, 5, 6, 8, 9, 1} {
			for _, layout := range []string{"one-each", "all-in-one", "first", "last", "reversed", "plus-new", "twice"} {
				if dead {
					break
				}
				if b, k, ok := followUp6As(r, own, conv, who.String(), typ, layout); ok {
					emit6(b, k)
				}
			}
		}
	}
	for i := 0; i < ndg && !dead; i++ {
		proto := 4
		if c4 == nil || (c6 != nil && r.Intn(2) == 0) {
			proto = 6
		}
		var b []byte
		var kind string
		if proto == 4 {
			b, kind = wellFormed4(r)
		} else {
			b, kind = wellFormed6(r, own)
		}
		if r.Intn(3) == 0 { // a client that remembers what it was told comes back
			if proto == 6 {
				if fb, fk, ok := followUp6(r, own, conv); ok {
					b, kind = fb, fk
				}
			} else if fb, fk, ok := followUp4(r, conv); ok {
				b, kind = fb, fk
			}
		}
		long := ndg >= 1000 && i%3 == 0
		if long {
			// long-lived process: a steady share of requests that the chain ends early for (they name another server)
			if proto == 4 {
				d, _ := dhcpv4.NewDiscovery(srvMacs[r.Intn(len(srvMacs))])
				d.UpdateOption(dhcpv4.OptMessageType(dhcpv4.MessageTypeRequest))
				d.UpdateOption(dhcpv4.OptServerIdentifier(net.IPv4(10, 0, 0, 77)))
				b, kind = d.ToBytes(), "request-other-server"
			} else {
				m, _ := dhcpv6.NewSolicit(srvMacs[r.Intn(len(srvMacs))])
				m.MessageType = dhcpv6.MessageTypeRequest
				m.AddOption(dhcpv6.OptServerID(&dhcpv6.DUIDLL{HWType: 1, LinkLayerAddr: net.HardwareAddr{9, 9, 9, 9, 9, 9}}))
				b, kind = m.ToBytes(), "t3-other-server"
			}
		}
		mut := "none"
		if !long && r.Intn(5) < 2 {
			b, mut = mutate(b, r)
		}
		peer := peer4
		if proto == 6 {
			peer = &net.UDPAddr{IP: net.ParseIP([]string{"2001:db8::99", "fe80::99"}[r.Intn(2)]), Port: 546}
		}
		fr := feed(l4, l6, proto, b, 7, peer)
		conv.learn(fr)
		t.Emit(Ev{"ev": "dg", "proto": proto, "kind": kind, "mut": mut, "len": len(b), "res": fr.res, "n": fr.n, "msg": fr.msg})
		if fr.res == "wedged" || fr.res == "slow" {
			dead = true
		}
	}
	// with autorefresh: a burst of concurrent datagrams while the files are being rewritten (the watcher's
	// write lock then meets handlers holding the read lock)
	if auto && !dead {
		var bw sync.WaitGroup
		var bmu sync.Mutex
		for w := 0; w < 8; w++ {
			bw.Add(1)
			go func(w int) {
				defer bw.Done()
				rr := rand.New(rand.NewSource(seed + int64(w)))
				for i := 0; i < 25; i++ {
					bmu.Lock()
					stop := dead
					bmu.Unlock()
					if stop {
						return
					}
					proto := 4
					if c4 == nil || (c6 != nil && rr.Intn(2) == 0) {
						proto = 6
					}
					var b []byte
					var kind string
					peer := peer4
					if proto == 4 {
						b, kind = wellFormed4(rr)
					} else {
						b, kind = wellFormed6(rr, own)
						peer = &net.UDPAddr{IP: net.ParseIP("fe80::99"), Port: 546}
					}
					fr := feed(l4, l6, proto, b, 7, peer)
					t.Emit(Ev{"ev": "dg", "proto": proto, "kind": kind, "mut": "burst", "len": len(b), "res": fr.res, "n": fr.n, "msg": fr.msg})
					if fr.res == "wedged" || fr.res == "slow" {
						bmu.Lock()
						dead = true
						bmu.Unlock()
					}
				}
			}(w)
		}
		bw.Wait()
	}
	// liveness probes: one ordinary request per protocol must still be handled
	// "must": this chain cannot but answer the probe (a listed client of the static file, which answers before any
	// pool that could be exhausted; a SOLICIT without server identifier) - a silent drop then means the server no
	// longer handles datagrams
	if c4 != nil {
		d, _ := dhcpv4.NewDiscovery(srvMacs[0])
		d.Options[uint8(dhcpv4.OptionAutoConfigure)] = []byte{1}
		must := true
		for _, p := range c4 {
			if p.Name == "file" {
				break
			}
			if p.Name == "range" {
				must = false // may be exhausted by the history
				break
			}
		}
		fr := feed(l4, l6, 4, d.ToBytes(), 7, peer4)
		t.Emit(Ev{"ev": "probe", "proto": 4, "res": fr.res, "n": fr.n, "msg": fr.msg, "must": must})
	}
	if c6 != nil {
		m, _ := dhcpv6.NewSolicit(srvMacs[2])
		m.AddOption(&dhcpv6.OptIAPD{IaId: [4]byte{7, 7, 7, 7}})
		fr := feed(l4, l6, 6, m.ToBytes(), 7, &net.UDPAddr{IP: net.ParseIP("fe80::77"), Port: 546})
		t.Emit(Ev{"ev": "probe", "proto": 6, "res": fr.res, "n": fr.n, "msg": fr.msg, "must": true})
	}
	return nil
}

func chainSet(level int, r *rand.Rand) [][2][]plugConf {
	p4, p6 := pool4(), pool6()
	var out [][2][]plugConf
	// every single plugin, every ordered pair
	for _, a := range p4 {
		out = append(out, [2][]plugConf{{a}, nil})
	}
	for _, a := range p6 {
		out = append(out, [2][]plugConf{nil, {a}})
	}
	for i, a := range p4 {
		for j, b := range p4 {
			if i != j && (level > 1 || (i*7+j)%5 == 0) {
				out = append(out, [2][]plugConf{{a, b}, nil})
			}
		}
	}
	for i, a := range p6 {
		for j, b := range p6 {
			if i != j {
				out = append(out, [2][]plugConf{nil, {a, b}})
			}
		}
	}
	// random chains of up to 4, both protocols together; and the full chains in example order
	n := 30
	if level > 1 {
		n = 300
	}
	for k := 0; k < n; k++ {
		pick := func(p []plugConf) []plugConf {
			idx := r.Perm(len(p))[:1+r.Intn(4)]
			var c []plugConf
			for _, i := range idx {
				c = append(c, p[i])
			}
			return c
		}
		out = append(out, [2][]plugConf{pick(p4), pick(p6)})
	}
	// plugins listed under the protocol they do not support are skipped by LoadPlugins (a warning, not an error)
	out = append(out, [2][]plugConf{{p4[0], p6[6], p4[1]}, {p6[0], p4[7], p4[2], p6[1]}}, [2][]plugConf{{p6[6]}, {p4[13], p4[3]}})
	full4 := []plugConf{p4[0], p4[1], p4[2], p4[3], p4[4], p4[5], p4[6], p4[7], p4[12], p4[13]}
	full6 := []plugConf{p6[0], p6[1], p6[2], p6[5], p6[6]}
	out = append(out, [2][]plugConf{full4, full6}, [2][]plugConf{{p4[0], p4[13], p4[7]}, {p6[0], p6[6], p6[1]}}, [2][]plugConf{{}, {}})
	return out
}

func runServerChains(t *Trace, dir string, seed int64, level, ndg, par, shard, shards int) error {
	self, err := os.Executable()
	if err != nil {
		return err
	}
	r := rand.New(rand.NewSource(seed))
	chains := chainSet(level, r)
	var mu sync.Mutex
	var wg sync.WaitGroup
	sem := make(chan struct{}, par)
	for i, c := range chains {
		if i%shards != shard {
			continue
		}
		wg.Add(1)
		sem <- struct{}{}
		go func(i int, c [2][]plugConf) {
			defer wg.Done()
			defer func() { <-sem }()
			d := filepath.Join(dir, fmt.Sprintf("c%04d", i))
			os.MkdirAll(d, 0o755)
			j4, _ := json.Marshal(c[0])
			j6, _ := json.Marshal(c[1])
			tmp := filepath.Join(d, "trace.ndjson")
			n := ndg
			if len(c[0]) >= 5 && len(c[1]) >= 3 {
				n = 50 * ndg // the full chains also run as long-lived processes: what is kept per datagram must be given back on every path
			}
			cmd := exec.Command(self, "server", "-mode", "one", "-c4", string(j4), "-c6", string(j6), "-seed", strconv.FormatInt(seed*10007+int64(i), 10),
				"-ndg", strconv.Itoa(n), "-out", tmp)
			cmd.Dir = d
			var stderr bytes.Buffer
			cmd.Stderr = &stderr
			err := cmd.Run()
			lines, _ := ReadTrace(tmp)
			mu.Lock()
			for _, e := range lines {
				delete(e, "seq")
				t.Emit(e)
			}
			if err != nil {
				t.Emit(Ev{"ev": "crash", "c4": string(j4), "c6": string(j6), "what": lastLines(stderr.String(), 8)})
			}
			mu.Unlock()
			os.RemoveAll(d)
		}(i, c)
	}
	wg.Wait()
	return nil
}

// ---- concurrency ------------------------------------------------------------------------------------

// conc: full chains, 16 goroutines, few clients, nearly exhausted pools, concurrent lease-file rewrites.
// Emits, tagged by "fam": range events (reset/setup/creq/cret as in RangeTrace), prefix events
// (reset/msg/ia as in PrefixTrace) and server events (dg: every datagram's outcome and whether the
// reply matches ITS request).
func runServerConc(t *Trace, seed int64, rounds int) error {
	registerBuiltin()
	installGoroutineHooks()
	// no poisoning here: once a buffer is back in the pool it belongs to whoever gets it next, and
	// with 16 goroutines that is immediately somebody else (the sequential modes do poison)
	server.VerifBufPutHook = nil
	os.WriteFile("leases4.txt", []byte(srvMacs[0].String()+" 10.0.0.50\n"), 0o644)
	os.WriteFile("leases6.txt", []byte(srvMacs[0].String()+" 2001:db8::50\n"), 0o644)
	os.Remove("leases.sqlite")
	nRange := 4
	conf := &config.Config{
		Server4: &config.ServerConfig{Plugins: []config.PluginConfig{{Name: "server_id", Args: []string{"10.0.0.1"}}, {Name: "file", Args: []string{"leases4.txt", "autorefresh"}},
			{Name: "dns", Args: []string{"8.8.8.8"}}, {Name: "range", Args: []string{"leases.sqlite", "10.0.0.100", "10.0.0.103", "60s"}}, {Name: "lease_time", Args: []string{"600s"}}}},
		Server6: &config.ServerConfig{Plugins: []config.PluginConfig{{Name: "server_id", Args: []string{"LL", "00:de:ad:be:ef:00"}}, {Name: "file", Args: []string{"leases6.txt", "autorefresh"}},
			{Name: "prefix", Args: []string{"2001:db8:0:fffc::/62", "64"}}, {Name: "dns", Args: []string{"2001:4860:4860::8888"}}}},
	}
	h4, h6, err := plugins.LoadPlugins(conf)
	if err != nil {
		return fmt.Errorf("LoadPlugins: %v", err)
	}
	l4 := server.NewVerifListener4(h4, net.Interface{Index: boundIndex()})
	l6 := server.NewVerifListener6(h6, net.Interface{})
	pg := mkPfxGeom("2001:db8:0:fffc::/62", 64)
	ps := &pfxScn{pg: pg}
	t.Emit(Ev{"fam": "range", "ev": "reset", "N": nRange, "lease": 60, "geom": "10.0.0.100-10.0.0.103", "probe": false})
	t.Emit(Ev{"fam": "range", "ev": "setup", "restart": false, "res": "ok", "msg": ""})
	t.Emit(Ev{"fam": "prefix", "ev": "reset", "N": pg.g.n, "page": 64, "pool": pg.pool})
	base := uint32(10)<<24 | 100
	macID := map[string]int{}
	for i, m := range srvMacs {
		macID[m.String()] = i
	}
	var kmu sync.Mutex
	known := map[int]bool{}
	verifhook.Install(func(site string, kv ...interface{}) {
		switch site {
		case "range.lookup":
			kmu.Lock()
			known[goid()] = kv[2].(bool)
			kmu.Unlock()
		case "range.reply", "range.drop":
			g := goid()
			kmu.Lock()
			k := known[g]
			kmu.Unlock()
			id, ok := macID[kv[1].(string)]
			if !ok {
				id = -1
			}
			idx, res := -1, "drop"
			if site == "range.reply" {
				res = "reply"
				if ip := net.ParseIP(kv[2].(string)).To4(); ip != nil {
					idx = int(uint32(ip[0])<<24|uint32(ip[1])<<16|uint32(ip[2])<<8|uint32(ip[3])) - int(base)
				}
			}
			t.Emit(Ev{"fam": "range", "ev": "creq", "mac": id, "known": k, "res": res, "idx": idx, "held": verifhook.Held(kv[0].(verifhook.TryLocker)), "g": g})
		case "prefix.locked", "prefix.unlocking":
			t.Emit(Ev{"fam": "prefix", "ev": "ia", "site": site, "held": verifhook.Held(kv[0].(verifhook.TryLocker)), "g": goid()})
		case "file.swap":
			t.Emit(Ev{"fam": "server", "ev": "swap", "held": verifhook.Held(kv[0].(verifhook.TryLocker))})
		}
	})
	defer verifhook.Install(nil)
	var wedged int32 // set once a handler is parked on a mutex: the instance is dead, stop feeding it
	for round := 0; round < rounds && atomic.LoadInt32(&wedged) == 0; round++ {
		stop := make(chan struct{})
		var fw sync.WaitGroup
		fw.Add(1)
		go func() { // the environment rewrites the static lease files while requests are served
			defer fw.Done()
			i := 0
			for {
				select {
				case <-stop:
					return
				default:
				}
				i++
				f, err := os.OpenFile("leases4.txt", os.O_WRONLY|os.O_APPEND, 0)
				if err == nil {
					fmt.Fprintf(f, "02:00:00:00:01:%02x 10.0.1.%d\n", i%200, i%200)
					f.Close()
				}
				f, err = os.OpenFile("leases6.txt", os.O_WRONLY|os.O_APPEND, 0)
				if err == nil {
					fmt.Fprintf(f, "02:00:00:00:01:%02x 2001:db8::1:%x\n", i%200, i%200)
					f.Close()
				}
				time.Sleep(300 * time.Microsecond)
			}
		}()
		var wg sync.WaitGroup
		for w := 0; w < 16; w++ {
			wg.Add(1)
			go func(w int) {
				defer wg.Done()
				r := rand.New(rand.NewSource(seed*977 + int64(round*16+w)))
				for i := 0; i < 10; i++ {
					mi := 2 + r.Intn(5) // five dynamic clients on a four-address range / four-block pool
					if r.Intn(8) == 0 {
						mi = 0 // a client of the static file
					}
					if r.Intn(3) == 0 && atomic.LoadInt32(&wedged) == 0 {
						// a datagram the server refuses before the plugins see it (does not parse, a reply opcode, a message type a
						// server does not answer, a relay message without a message inside): whatever the server does about it -
						// dropping, logging - it does while the other goroutines reuse the receive buffers
						var junk []byte
						proto := 4 + 2*r.Intn(2)
						if proto == 4 {
							d, _ := dhcpv4.NewDiscovery(srvMacs[mi])
							switch r.Intn(3) {
							case 0:
								junk = d.ToBytes()[:100+r.Intn(130)]
							case 1:
								d.OpCode = dhcpv4.OpcodeBootReply
								junk = d.ToBytes()
							default:
								junk = make([]byte, 20+r.Intn(400))
								r.Read(junk)
							}
						} else {
							m, _ := dhcpv6.NewSolicit(srvMacs[mi])
							switch r.Intn(3) {
							case 0:
								junk = m.ToBytes()[:3+r.Intn(8)]
							case 1:
								m.MessageType = dhcpv6.MessageTypeAdvertise
								junk = m.ToBytes()
							default:
								junk = append([]byte{12, 0}, make([]byte, 32)...) // a Relay-Forward header with no Relay Message option
							}
						}
						peer := &net.UDPAddr{IP: net.IPv4(10, 0, 0, 9), Port: 68}
						if proto == 6 {
							peer = &net.UDPAddr{IP: net.ParseIP("fe80::99"), Port: 546}
						}
						fr := feed(l4, l6, proto, junk, 7, peer)
						if fr.res == "wedged" || fr.res == "slow" {
							atomic.StoreInt32(&wedged, 1)
						}
						t.Emit(Ev{"fam": "server", "ev": "dg", "proto": proto, "kind": "conc", "mut": "refused", "len": len(junk), "res": fr.res, "n": fr.n, "msg": fr.msg, "match": true, "static": true})
					}
					if r.Intn(2) == 0 {
						d, _ := dhcpv4.NewDiscovery(srvMacs[mi])
						if r.Intn(2) == 0 {
							d.UpdateOption(dhcpv4.OptMessageType(dhcpv4.MessageTypeRequest))
						}
						if atomic.LoadInt32(&wedged) != 0 {
							return
						}
						fr := feed(l4, l6, 4, d.ToBytes(), 7, &net.UDPAddr{IP: net.IPv4(10, 0, 0, 9), Port: 68})
						if fr.res == "wedged" || fr.res == "slow" {
							atomic.StoreInt32(&wedged, 1)
						}
						e := Ev{"fam": "server", "ev": "dg", "proto": 4, "kind": "conc", "mut": "none", "len": 0, "res": fr.res, "n": fr.n, "msg": fr.msg, "match": true, "static": true}
						if mi == 0 {
							// the client of the static file: it is listed before, during and after every refresh, so in EVERY serial order it
							// is answered by the file plugin with its listed address
							e["static"] = len(fr.sent4) == 1 && fr.sent4[0].Resp.YourIPAddr.Equal(net.IPv4(10, 0, 0, 50))
						}
						if len(fr.sent4) == 1 {
							s := fr.sent4[0]
							e["match"] = s.Resp.TransactionID == d.TransactionID && bytes.Equal(s.Resp.ClientHWAddr, d.ClientHWAddr)
							if mi >= 2 {
								ip := s.Resp.YourIPAddr.To4()
								idx := -1
								if ip != nil {
									idx = int(uint32(ip[0])<<24|uint32(ip[1])<<16|uint32(ip[2])<<8|uint32(ip[3])) - int(base)
								}
								lease := -1
								if b := s.Resp.Options.Get(dhcpv4.OptionIPAddressLeaseTime); len(b) == 4 {
									lease = int(b[0])<<24 | int(b[1])<<16 | int(b[2])<<8 | int(b[3])
								}
								t.Emit(Ev{"fam": "range", "ev": "cret", "mac": mi, "res": "reply", "idx": idx, "lease": lease, "g": 0})
							}
						}
						t.Emit(e)
					} else {
						m, _ := dhcpv6.NewSolicit(srvMacs[mi])
						nia := 1 + r.Intn(2)
						for k := 0; k < nia; k++ {
							m.AddOption(&dhcpv6.OptIAPD{IaId: [4]byte{byte(w), byte(i), 0, byte(k)}})
						}
						wire := m.ToBytes()
						if atomic.LoadInt32(&wedged) != 0 {
							return
						}
						fr := feed(l4, l6, 6, wire, 7, &net.UDPAddr{IP: net.ParseIP("fe80::99"), Port: 546})
						if fr.res == "wedged" || fr.res == "slow" {
							atomic.StoreInt32(&wedged, 1)
						}
						e := Ev{"fam": "server", "ev": "dg", "proto": 6, "kind": "conc", "mut": "none", "len": 0, "res": fr.res, "n": fr.n, "msg": fr.msg, "match": true, "static": mi != 0}
						if len(fr.sent6) == 1 {
							if rm, err := fr.sent6[0].Resp.GetInnerMessage(); err == nil {
								e["match"] = rm.TransactionID == m.TransactionID
								if mi == 0 {
									if na := rm.Options.OneIANA(); na != nil {
										for _, a := range na.Options.Addresses() {
											if a.IPv6Addr.Equal(net.ParseIP("2001:db8::50")) {
												e["static"] = true
											}
										}
									}
								}
								// the prefix family's view of this exchange
								ias := []Ev{}
								ans := []Ev{}
								for _, o := range m.Options.IAPD() {
									ias = append(ias, Ev{"iaid": iaidInt(o.IaId), "kinds": []string{}, "hints": []Ev{}})
								}
								back, _ := dhcpv6.FromBytes(rm.ToBytes())
								if bm, ok := back.(*dhcpv6.Message); ok {
									for _, ia := range ias {
										a := Ev{"iaid": ia["iaid"], "count": 0, "status": "none"}
										pf := []Ev{}
										for _, o := range bm.Options.IAPD() {
											if iaidInt(o.IaId) != ia["iaid"].(int) {
												continue
											}
											a["count"] = a["count"].(int) + 1
											for _, p := range o.Options.Prefixes() {
												co := ps.coords(p.Prefix)
												co["pref"], co["valid"] = int(p.PreferredLifetime/time.Second), int(p.ValidLifetime/time.Second)
												co["inpool"] = co["b"].(int) >= 0
												pf = append(pf, co)
											}
											if st := o.Options.Status(); st != nil && st.StatusCode != 0 {
												a["status"] = "noprefix"
											}
										}
										a["pfx"] = pf
										ans = append(ans, a)
									}
								}
								t.Emit(Ev{"fam": "prefix", "ev": "msg", "c": mi, "relay": 0, "type": "SOLICIT", "t0": time.Now().Unix(), "t1": time.Now().Unix(),
									"ias": ias, "stop": false, "wire": "", "ans": ans, "extra": 0, "msg": "", "res": "reply"})
							}
						}
						t.Emit(e)
					}
				}
			}(w)
		}
		wg.Wait()
		close(stop)
		fw.Wait()
		if atomic.LoadInt32(&wedged) != 0 {
			break
		}
		// the refresh itself: well-formed updates of each file, ONE write at a time (one change notification each),
		// must eventually be what the instance of THAT protocol serves (C10's autorefresh sentence, after concurrent load)
		for step := 0; step < 6; step++ {
			proto := []int{4, 6}[step%2]
			mac := net.HardwareAddr{2, 0, 0, 2, byte(step), byte(round)}
			want := net.IPv4(10, 0, byte(2+step), byte(round+1)).To4()
			name := "leases4.txt"
			if proto == 6 {
				want = net.ParseIP(fmt.Sprintf("2001:db8::%x:%x", 2+step, round+1))
				name = "leases6.txt"
			}
			if f, err := os.OpenFile(name, os.O_WRONLY|os.O_APPEND, 0); err == nil {
				f.WriteString(fmt.Sprintf("%s %s\n", mac, want))
				f.Close()
			}
			ok := false
			t0 := time.Now()
			for time.Since(t0) < 20*time.Second && !ok {
				if proto == 4 {
					d, _ := dhcpv4.NewDiscovery(mac)
					fr := feed(l4, l6, 4, d.ToBytes(), 7, &net.UDPAddr{IP: net.IPv4(10, 0, 0, 9), Port: 68})
					ok = len(fr.sent4) == 1 && fr.sent4[0].Resp.YourIPAddr.Equal(want)
				} else {
					m, _ := dhcpv6.NewSolicit(mac)
					fr := feed(l4, l6, 6, m.ToBytes(), 7, &net.UDPAddr{IP: net.ParseIP("fe80::99"), Port: 546})
					if len(fr.sent6) == 1 {
						if rm, err := fr.sent6[0].Resp.GetInnerMessage(); err == nil {
							if na := rm.Options.OneIANA(); na != nil {
								for _, a := range na.Options.Addresses() {
									ok = ok || a.IPv6Addr.Equal(want)
								}
							}
						}
					}
				}
				if !ok {
					time.Sleep(50 * time.Millisecond)
				}
			}
			t.Emit(Ev{"fam": "server", "ev": "refreshed", "proto": proto, "ok": ok, "waited_ms": int(time.Since(t0) / time.Millisecond)})
			if !ok {
				return nil // the instance serves a stale table: nothing more to learn from it
			}
		}
	}
	return nil
}

// sched: impose the interleaving of the TLC counterexample of Server_v6_perIA on the real prefix
// plugin: message A ("new","new") is parked after its first IA_PD (observation point
// prefix.unlocked), message B ("any","new") is handled completely, then A continues. If the plugin
// holds its mutex across the whole message, B cannot run while A is parked and the schedule is
// reported as not imposable.
func runServerSched(t *Trace) error {
	registerBuiltin()
	installGoroutineHooks()
	for _, variant := range []int{0, 1} {
		h6, err := builtin["prefix"].Setup6("2001:db8:0:fffe::/63", "64") // two blocks
		if err != nil {
			return err
		}
		parkG := -1
		var pmu sync.Mutex
		parked := make(chan struct{}, 1)
		release := make(chan struct{})
		first := true
		verifhook.Install(func(site string, kv ...interface{}) {
			if site != "prefix.unlocked" {
				return
			}
			pmu.Lock()
			me := goid()
			doPark := first && me == parkG
			if doPark {
				first = false
			}
			pmu.Unlock()
			if doPark {
				parked <- struct{}{}
				<-release
			}
		})
		mkMsg := func(mac net.HardwareAddr, kinds []string) *dhcpv6.Message {
			m, _ := dhcpv6.NewSolicit(mac)
			for k, kind := range kinds {
				pd := &dhcpv6.OptIAPD{IaId: [4]byte{0, 0, byte(variant), byte(k)}}
				if kind == "new" {
					// a length-only hint for a longer prefix: never served from the leases the client holds
					pd.Options.Add(&dhcpv6.OptIAPrefix{Prefix: &net.IPNet{IP: net.IPv6zero, Mask: net.CIDRMask(72+k, 128)}})
				}
				m.AddOption(pd)
			}
			return m
		}
		kindsA, kindsB := []string{"new", "new"}, []string{"any", "new"}
		if variant == 1 {
			kindsA, kindsB = []string{"any", "new"}, []string{"new", "new"}
		}
		flagsOf := func(out dhcpv6.DHCPv6, n int) []bool {
			fl := make([]bool, n)
			if out == nil {
				return fl
			}
			m, err := out.GetInnerMessage()
			if err != nil {
				return fl
			}
			for k, o := range m.Options.IAPD() {
				if k < n {
					fl[k] = len(o.Options.Prefixes()) > 0
				}
			}
			return fl
		}
		var outA, outB dhcpv6.DHCPv6
		var wg sync.WaitGroup
		doneB := make(chan struct{})
		wg.Add(1)
		go func() {
			defer wg.Done()
			pmu.Lock()
			parkG = goid()
			pmu.Unlock()
			req := mkMsg(srvMacs[2], kindsA)
			resp, _ := dhcpv6.NewAdvertiseFromSolicit(req)
			outA, _ = h6(req, resp)
		}()
		imposed := false
		select {
		case <-parked:
			wg.Add(1)
			go func() {
				defer wg.Done()
				defer close(doneB)
				req := mkMsg(srvMacs[3], kindsB)
				resp, _ := dhcpv6.NewAdvertiseFromSolicit(req)
				outB, _ = h6(req, resp)
			}()
			select {
			case <-doneB:
				imposed = true
			case <-time.After(300 * time.Millisecond):
			}
			close(release)
		case <-time.After(2 * time.Second):
			// A never reached the point (e.g. it finished): run B afterwards
			wg.Add(1)
			go func() {
				defer wg.Done()
				req := mkMsg(srvMacs[3], kindsB)
				resp, _ := dhcpv6.NewAdvertiseFromSolicit(req)
				outB, _ = h6(req, resp)
			}()
		}
		wg.Wait()
		verifhook.Install(nil)
		t.Emit(Ev{"ev": "batch", "free": 2, "imposed": imposed,
			"msgs": []Ev{{"kinds": kindsA, "flags": flagsOf(outA, 2)}, {"kinds": kindsB, "flags": flagsOf(outB, 2)}}})
	}
	return nil
}

func runServer(args []string) error {
	fs := flag.NewFlagSet("server", flag.ContinueOnError)
	out := fs.String("out", "trace.ndjson", "trace file")
	seed := fs.Int64("seed", 1, "seed")
	mode := fs.String("mode", "chains", "chains | one | conc | sched")
	c4 := fs.String("c4", "null", "one: JSON chain for DHCPv4")
	c6 := fs.String("c6", "null", "one: JSON chain for DHCPv6")
	ndg := fs.Int("ndg", 40, "datagrams per chain")
	level := fs.Int("level", 1, "chains: 1 quick, 2 thorough")
	par := fs.Int("par", 12, "children at a time")
	rounds := fs.Int("rounds", 3, "conc: rounds")
	shard := fs.Int("shard", 0, "this shard")
	shards := fs.Int("shards", 1, "number of shards")
	dir := fs.String("dir", "", "scratch directory")
	if err := fs.Parse(args); err != nil {
		return err
	}
	t, err := NewTrace(*out)
	if err != nil {
		return err
	}
	defer t.Close()
	switch *mode {
	case "one":
		var a, b []plugConf
		if err := json.Unmarshal([]byte(*c4), &a); err != nil {
			return err
		}
		if err := json.Unmarshal([]byte(*c6), &b); err != nil {
			return err
		}
		return runServerOne(t, a, b, *seed, *ndg)
	case "chains":
		if *dir == "" {
			d, err := os.MkdirTemp("", "server")
			if err != nil {
				return err
			}
			defer os.RemoveAll(d)
			*dir = d
		}
		os.MkdirAll(*dir, 0o755)
		return runServerChains(t, *dir, *seed, *level, *ndg, *par, *shard, *shards)
	case "conc":
		if *dir != "" {
			os.MkdirAll(*dir, 0o755)
			os.Chdir(*dir)
		}
		return runServerConc(t, *seed, *rounds)
	case "sched":
		return runServerSched(t)
	}
	return fmt.Errorf("unknown mode %s", *mode)
}
