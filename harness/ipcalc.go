package main

// Family ipcalc (property C20): calls allocators.Offset / AddPrefixes on
//  (a) every case of the small world the specification enumerates (W bits,
//      LB*NL of IPCalcMC), embedded into 128 bit so that each half word lands
//      in the top bits of a 64-bit half (a homomorphism for carries/borrows
//      between the halves, order and alignment), and
//  (b) seeded random / boundary 128-bit cases,
// and records arguments and results as sixteen-bit limbs.

import (
	"encoding/binary"
	"errors"
	"flag"
	"math/rand"
	"net"

	"github.com/coredhcp/coredhcp/plugins/allocators"
)

func init() { families["ipcalc"] = runIPCalc }

type u128 struct{ hi, lo uint64 }

func (u u128) ip() net.IP {
	r := make(net.IP, 16)
	binary.BigEndian.PutUint64(r[:8], u.hi)
	binary.BigEndian.PutUint64(r[8:], u.lo)
	return r
}

func limbs16(b []byte) []int {
	r := make([]int, len(b)/2)
	for i := range r {
		r[i] = int(b[2*i])<<8 | int(b[2*i+1])
	}
	return r
}

func limbsU64(v uint64) []int {
	var b [8]byte
	binary.BigEndian.PutUint64(b[:], v)
	return limbs16(b[:])
}

func errClass(err error) string {
	switch {
	case err == nil:
		return "none"
	case errors.Is(err, allocators.ErrOverflow):
		return "overflow"
	default:
		return "other"
	}
}

func maskTo(u u128, p int) u128 {
	switch {
	case p <= 0:
		return u128{}
	case p < 64:
		return u128{u.hi &^ (^uint64(0) >> uint(p)), 0}
	case p == 64:
		return u128{u.hi, 0}
	case p < 128:
		return u128{u.hi, u.lo &^ (^uint64(0) >> uint(p-64))}
	}
	return u
}

func less(a, b u128) bool { return a.hi < b.hi || (a.hi == b.hi && a.lo < b.lo) }

func recOffset(t *Trace, x, base u128, p int, swap bool, src string) {
	var (
		res uint64
		err error
	)
	func() {
		defer func() {
			if r := recover(); r != nil {
				err = errors.New("panic")
			}
		}()
		if swap {
			res, err = allocators.Offset(base.ip(), x.ip(), p)
		} else {
			res, err = allocators.Offset(x.ip(), base.ip(), p)
		}
	}()
	t.Emit(Ev{"ev": "offset", "a": limbs16(x.ip()), "b": limbs16(base.ip()), "p": p, "swap": swap,
		"res": limbsU64(res), "err": errClass(err), "src": src})
}

func recAdd(t *Trace, base u128, n uint64, p int, src string) {
	var (
		res net.IP
		err error
	)
	func() {
		defer func() {
			if r := recover(); r != nil {
				err = errors.New("panic")
			}
		}()
		res, err = allocators.AddPrefixes(base.ip(), n, uint64(p))
	}()
	e := Ev{"ev": "add", "ip": limbs16(base.ip()), "n": limbsU64(n), "p": p, "err": errClass(err), "src": src,
		"res": []int{0, 0, 0, 0, 0, 0, 0, 0}, "rt": []int{0, 0, 0, 0}, "rterr": "skipped"}
	if err == nil {
		if len(res) != 16 {
			e["err"] = "other"
		} else {
			e["res"] = limbs16(res)
			rt, rterr := allocators.Offset(res, base.ip(), p)
			e["rt"] = limbsU64(rt)
			e["rterr"] = errClass(rterr)
		}
	}
	t.Emit(e)
}

func fromLimbs(v interface{}) u128 {
	var u u128
	for _, x := range v.([]interface{}) {
		l := uint64(toInt(x))
		u.hi = u.hi<<16 | u.lo>>48
		u.lo = u.lo<<16 | l
	}
	return u
}

// embed maps a small-world address (w bits, h = w/2) into 128 bit.
func embed(a uint64, h int) u128 {
	ah, al := a>>uint(h), a&(1<<uint(h)-1)
	return u128{ah << uint(64-h), al << uint(64-h)}
}

func embedP(p, h int) int {
	if p <= h {
		return p
	}
	return 64 + (p - h)
}

func embedN(n uint64, p, h int) uint64 {
	if p <= h {
		return n
	}
	j := uint(p - h)
	return (n>>j)<<(uint(64-h)+j) | n&(1<<j-1)
}

func runIPCalc(args []string) error {
	fs := flag.NewFlagSet("ipcalc", flag.ContinueOnError)
	out := fs.String("out", "trace.ndjson", "trace file")
	seed := fs.Int64("seed", 1, "seed")
	w := fs.Int("w", 6, "small-world word size to embed (even, 0 = none)")
	nrand := fs.Int("n", 5000, "random/boundary cases")
	replay := fs.String("replay", "", "re-execute the inputs of this recorded trace")
	if err := fs.Parse(args); err != nil {
		return err
	}
	t, err := NewTrace(*out)
	if err != nil {
		return err
	}
	defer t.Close()

	if *replay != "" {
		lines, err := ReadTrace(*replay)
		if err != nil {
			return err
		}
		for _, e := range lines {
			switch e["ev"] {
			case "offset":
				recOffset(t, fromLimbs(e["a"]), fromLimbs(e["b"]), toInt(e["p"]), e["swap"] == true, "replay")
			case "add":
				recAdd(t, fromLimbs(e["ip"]), fromLimbs(e["n"]).lo, toInt(e["p"]), "replay")
			}
		}
		return nil
	}

	// (a) the small world of IPCalcMC, embedded
	if *w > 0 {
		h := *w / 2
		for p := 0; p <= *w; p++ {
			step := uint64(1) << uint(*w-p)
			for b := uint64(0); b < 1<<uint(*w); b += step {
				for x := b; x < 1<<uint(*w); x++ {
					recOffset(t, embed(x, h), embed(b, h), embedP(p, h), false, "small")
					recOffset(t, embed(x, h), embed(b, h), embedP(p, h), true, "small")
				}
				for n := uint64(0); n < 1<<uint(h); n++ {
					recAdd(t, embed(b, h), embedN(n, p, h), embedP(p, h), "small")
				}
			}
		}
	}

	// (b) random and boundary 128-bit cases
	r := rand.New(rand.NewSource(*seed))
	pick64 := func() uint64 {
		switch r.Intn(8) {
		case 0:
			return 0
		case 1:
			return ^uint64(0)
		case 2:
			return 1 << uint(r.Intn(64))
		case 3:
			return ^uint64(0) << uint(r.Intn(64))
		case 4:
			return ^uint64(0) >> uint(r.Intn(64))
		case 5:
			return uint64(r.Intn(4))
		default:
			return r.Uint64()
		}
	}
	ps := []int{0, 1, 2, 31, 32, 33, 63, 64, 65, 66, 95, 96, 97, 126, 127, 128}
	for i := 0; i < *nrand; i++ {
		var p int
		if r.Intn(3) == 0 {
			p = r.Intn(129)
		} else {
			p = ps[r.Intn(len(ps))]
		}
		base := maskTo(u128{pick64(), pick64()}, p)
		if r.Intn(10) == 0 {
			// addresses that happen to lie in ::ffff:0:0/96 (16-byte addresses To4() is non-nil for) are 128-bit addresses like any other
			p = 96 + r.Intn(33)
			base = maskTo(u128{0, 0xffff<<32 | uint64(r.Uint32())}, p)
		}
		if r.Intn(2) == 0 {
			// offset: x = base + k blocks + delta (when that does not wrap), or any x >= base
			x := u128{pick64(), pick64()}
			if r.Intn(2) == 0 {
				k := pick64()
				if ip, err := allocators.AddPrefixes(base.ip(), k, uint64(p)); err == nil && len(ip) == 16 {
					x = u128{binary.BigEndian.Uint64(ip[:8]), binary.BigEndian.Uint64(ip[8:])}
					// add a delta inside the block
					d := maskTo(u128{pick64(), pick64()}, 128)
					dm := maskTo(d, p)
					x.hi |= d.hi &^ dm.hi
					x.lo |= d.lo &^ dm.lo
				}
			}
			if less(x, base) {
				x, base = base, maskTo(x, p)
				if less(x, base) {
					continue
				}
			}
			recOffset(t, x, base, p, r.Intn(2) == 0, "rand")
		} else {
			n := pick64()
			if r.Intn(3) == 0 && p < 64 {
				// around 2^p, where the shift starts losing bits
				n = uint64(1)<<uint(p) + uint64(r.Intn(3)) - 1
			}
			recAdd(t, base, n, p, "rand")
		}
	}
	return nil
}
