package main

// Family dispatch (properties C11 C12 C13 C15): feeds concrete datagrams, built
// from the abstract input products of spec/DispatchMC.tla, as BYTES to the real
// server.HandleMsg4 / HandleMsg6 through the socket-less verif listener (which
// takes its buffers from the server's receive pool exactly like Serve), and
// records what the send hook captured: nothing, or the reply, its destination,
// the control message and the link-level flag. Every field the properties do
// not mention is randomised from the seed. After a receive buffer went back to
// the pool it is overwritten (poisoned): the pool may hand it to the next
// datagram at any time.

import (
	"bytes"
	"encoding/binary"
	"flag"
	"fmt"
	"math/rand"
	"net"
	"os/exec"
	"strconv"
	"sync"

	"github.com/coredhcp/coredhcp/config"
	"github.com/coredhcp/coredhcp/handler"
	"github.com/coredhcp/coredhcp/plugins"
	"github.com/coredhcp/coredhcp/server"
	"github.com/google/gopacket"
	"github.com/google/gopacket/layers"
	"github.com/insomniacslk/dhcp/dhcpv4"
	"github.com/insomniacslk/dhcp/dhcpv6"
	"github.com/insomniacslk/dhcp/iana"
	"golang.org/x/net/ipv4"
	"golang.org/x/net/ipv6"
)

func init() { families["dispatch"] = runDispatch }

// capture of what the server would have sent
type capture struct {
	mu     sync.Mutex
	s4     []server.VerifSent4
	s6     []server.VerifSent6
	frames [][]byte
	fifs   []net.Interface // the interface each frame was handed to
	l2real bool            // let L2 replies run into sendEthernet up to the frame hook
}

var capt = &capture{}

func installServerHooks() {
	server.VerifSend4Hook = func(s server.VerifSent4) bool {
		capt.mu.Lock()
		capt.s4 = append(capt.s4, s)
		real := capt.l2real
		capt.mu.Unlock()
		if s.L2 && real && s.Woob != nil {
			return false // continue into sendEthernet; the frame hook stops before the socket
		}
		return true
	}
	server.VerifSend6Hook = func(s server.VerifSent6) bool {
		capt.mu.Lock()
		capt.s6 = append(capt.s6, s)
		capt.mu.Unlock()
		return true
	}
	server.VerifFrameHook = func(iface net.Interface, frame []byte) bool {
		capt.mu.Lock()
		capt.frames = append(capt.frames, append([]byte(nil), frame...))
		capt.fifs = append(capt.fifs, iface)
		capt.mu.Unlock()
		return true
	}
	server.VerifBufPutHook = func(buf []byte) {
		b := buf[:cap(buf)]
		for i := range b {
			b[i] = 0xA5
		}
	}
}

func (c *capture) reset() {
	c.mu.Lock()
	c.s4, c.s6, c.frames, c.fifs = nil, nil, nil, nil
	c.mu.Unlock()
}

// an interface with a 6-byte hardware address, for the link-level path
func macInterfaces() []net.Interface {
	var out []net.Interface
	ifs, _ := net.Interfaces()
	for _, i := range ifs {
		if len(i.HardwareAddr) == 6 {
			out = append(out, i)
		}
	}
	return out
}

func classIP4(class string, r *rand.Rand, salt byte) net.IP {
	switch class {
	case "zero":
		return net.IPv4zero.To4()
	case "routable":
		return net.IPv4(10, salt, byte(r.Intn(250)+1), byte(r.Intn(250)+1)).To4()
	case "linklocal":
		return net.IPv4(169, 254, salt, byte(r.Intn(250)+1)).To4()
	case "bcast":
		return net.IPv4bcast.To4()
	}
	return net.IPv4zero.To4()
}

type in4 struct {
	parse  bool
	op, mt int
	gi, ci string
	bflag  bool
	final  string // base | nak | nil
	yi     bool   // a plugin assigns yiaddr
	bound  int
	oobif  int
	hlen   int
	mtbad  int // with mt = -1: 0 = no option 53, 1..4 = an option 53 that is not exactly one byte
}

func (i in4) ev() Ev {
	return Ev{"parse": i.parse, "op": i.op, "mt": i.mt, "gi": i.gi, "ci": i.ci, "bflag": i.bflag, "final": i.final, "yi": i.yi,
		"bound": i.bound, "oobif": i.oobif, "hlen": i.hlen, "mtbad": i.mtbad}
}

// datagram4 builds the bytes of an abstract DHCPv4 input; everything not in `in` is random.
func datagram4(in in4, r *rand.Rand) ([]byte, net.IP) {
	d, _ := dhcpv4.New()
	d.OpCode = dhcpv4.OpcodeType(in.op)
	r.Read(d.TransactionID[:])
	d.HopCount = uint8(r.Intn(4))
	d.NumSeconds = uint16(r.Intn(1000))
	d.Flags = uint16(r.Intn(1<<15)) &^ 0x8000
	if in.bflag {
		d.Flags |= 0x8000
	}
	d.GatewayIPAddr = classIP4(in.gi, r, 1)
	d.ClientIPAddr = classIP4(in.ci, r, 2)
	d.ClientHWAddr = make(net.HardwareAddr, in.hlen)
	r.Read(d.ClientHWAddr)
	// hardware types other than Ethernet (IEEE 802 = 6, ARCNET = 7, EUI-64 = 27, InfiniBand = 32, 0): echoed, and no rule of the
	// destination table depends on them
	d.HWType = iana.HWType([]uint16{1, 1, 6, 1, 27, 32, 0, 7}[r.Intn(8)])
	if r.Intn(2) == 0 {
		d.ServerHostName = "srv" + strconv.Itoa(r.Intn(100))
	}
	d.Options = dhcpv4.Options{}
	if in.mt >= 0 {
		d.Options[uint8(dhcpv4.OptionDHCPMessageType)] = []byte{byte(in.mt)}
	} else if in.mtbad > 0 {
		// "missing" also covers an option 53 that is not one byte long (e.g. sent twice: the
		// codec concatenates repeated options) or empty
		switch in.mtbad {
		case 1:
			d.Options[uint8(dhcpv4.OptionDHCPMessageType)] = []byte{1, 3}
		case 2:
			d.Options[uint8(dhcpv4.OptionDHCPMessageType)] = []byte{3, 7}
		case 3:
			d.Options[uint8(dhcpv4.OptionDHCPMessageType)] = []byte{1, 1, 1}
		default:
			d.Options[uint8(dhcpv4.OptionDHCPMessageType)] = []byte{}
		}
	}
	// every fourth datagram carries LONG options (a reply that echoes them is bigger than the 548 bytes every client must
	// accept), and every third one announces its Maximum DHCP Message Size (option 57): legal, too small to be legal, roomy
	big := r.Intn(4) == 0
	if r.Intn(2) == 0 || big {
		rai := make([]byte, 2+r.Intn(6))
		if big {
			rai = make([]byte, 180+r.Intn(76))
		}
		r.Read(rai)
		d.Options[uint8(dhcpv4.OptionRelayAgentInformation)] = rai
	}
	if r.Intn(2) == 0 || big {
		cid := make([]byte, 1+r.Intn(8))
		if big {
			cid = make([]byte, 180+r.Intn(76))
		}
		r.Read(cid)
		d.Options[uint8(dhcpv4.OptionClientIdentifier)] = cid
	}
	if r.Intn(3) == 0 {
		sz := []uint16{576, 577, 590, 600, 1500, 0, 100, 65535}[r.Intn(8)]
		d.Options[uint8(dhcpv4.OptionMaximumDHCPMessageSize)] = []byte{byte(sz >> 8), byte(sz)}
	}
	if r.Intn(2) == 0 {
		d.Options[uint8(dhcpv4.OptionParameterRequestList)] = []byte{1, 3, 6, 15}
	}
	if r.Intn(3) == 0 {
		d.Options[uint8(dhcpv4.OptionHostName)] = []byte("h" + strconv.Itoa(r.Intn(1000)))
	}
	// options that no rule of the reply table reads (round 9): Rapid Commit (RFC 4039, zero length), user class, client FQDN,
	// client architecture, subnet selection, vendor class - the reply type and addressing must not depend on them
	if r.Intn(3) == 0 {
		for _, c := range []uint8{80, 77, 81, 93, 118, 60} {
			if r.Intn(2) != 0 {
				continue
			}
			switch c {
			case 80:
				d.Options[c] = []byte{}
			case 93:
				d.Options[c] = []byte{0, byte(r.Intn(17))}
			case 118:
				d.Options[c] = []byte{10, byte(r.Intn(256)), byte(r.Intn(256)), 0}
			default:
				body := make([]byte, 3+r.Intn(12))
				r.Read(body)
				d.Options[c] = body
			}
		}
	}
	yi := net.IPv4(192, 0, 2, byte(r.Intn(250)+1)).To4()
	b := d.ToBytes()
	if !in.parse {
		switch r.Intn(4) {
		case 0:
			b = b[:r.Intn(236)] // truncated header
		case 1:
			b[236] ^= 0xff // bad magic cookie
		case 2:
			b = b[:len(b)-1] // no end option
			for len(b) > 240 && b[len(b)-1] == 0 {
				b = b[:len(b)-1]
			}
			b = b[:len(b)-1]
		default:
			b = []byte{}
		}
	}
	return b, yi
}

// chain4 implements the abstract `final`/`yi` of an input with synthetic handlers.
func chain4(in in4, yi net.IP) []handler.Handler4 {
	var hs []handler.Handler4
	hs = append(hs, func(req, resp *dhcpv4.DHCPv4) (*dhcpv4.DHCPv4, bool) { return resp, false })
	if in.yi {
		hs = append(hs, func(req, resp *dhcpv4.DHCPv4) (*dhcpv4.DHCPv4, bool) { resp.YourIPAddr = yi; return resp, false })
	}
	switch in.final {
	case "nak":
		hs = append(hs, func(req, resp *dhcpv4.DHCPv4) (*dhcpv4.DHCPv4, bool) {
			resp.UpdateOption(dhcpv4.OptMessageType(dhcpv4.MessageTypeNak))
			return resp, false
		})
	case "nil":
		hs = append(hs, func(req, resp *dhcpv4.DHCPv4) (*dhcpv4.DHCPv4, bool) { return nil, true })
	}
	return hs
}

func eqOpt4(a, b *dhcpv4.DHCPv4, code dhcpv4.OptionCode) bool {
	return bytes.Equal(a.Options.Get(code), b.Options.Get(code))
}

// live4 is a long-lived listener whose synthetic chain follows the current abstract input, so that
// many datagrams go through ONE listener (state a listener keeps between datagrams is exercised).
type live4 struct {
	l   *server.VerifListener4
	cur in4
	yi  net.IP
	pad int // > 0: the reply is padded (site-specific options 224...) to a message of exactly this many bytes
}

func newLive4(bound int) *live4 {
	ll := &live4{}
	ifi := net.Interface{}
	if bound != 0 {
		if x, err := net.InterfaceByIndex(bound); err == nil {
			ifi = *x
		} else {
			ifi = net.Interface{Index: bound, Name: "bound"}
		}
	}
	hs := []handler.Handler4{
		func(req, resp *dhcpv4.DHCPv4) (*dhcpv4.DHCPv4, bool) { return resp, false },
		func(req, resp *dhcpv4.DHCPv4) (*dhcpv4.DHCPv4, bool) {
			if ll.cur.yi {
				resp.YourIPAddr = ll.yi
			}
			return resp, false
		},
		func(req, resp *dhcpv4.DHCPv4) (*dhcpv4.DHCPv4, bool) {
			switch ll.cur.final {
			case "nak":
				resp.UpdateOption(dhcpv4.OptMessageType(dhcpv4.MessageTypeNak))
			case "nil":
				return nil, true
			}
			for code := uint8(224); ll.pad > 0 && code < 254; code++ {
				need := ll.pad - len(resp.ToBytes())
				if need <= 0 {
					break
				}
				n := need - 2
				if n > 255 {
					n = 255
				}
				if n < 0 {
					n = 0
				}
				resp.Options[code] = bytes.Repeat([]byte{code}, n)
			}
			return resp, false
		},
	}
	ll.l = server.NewVerifListener4(hs, ifi)
	return ll
}

// feed4 sends one abstract input through HandleMsg4 and records the outcome.
func feed4(t *Trace, in in4, r *rand.Rand, evname string) { feed4on(t, nil, in, r, evname) }

var rawOverride []byte // feed4raw: these bytes instead of the ones the abstract input stands for

func feed4raw(t *Trace, ll *live4, in in4, b []byte) {
	rawOverride = b
	feed4on(t, ll, in, rand.New(rand.NewSource(int64(len(b)))), "d4")
}

func feed4on(t *Trace, ll *live4, in in4, r *rand.Rand, evname string) {
	b, yi := datagram4(in, r)
	if rawOverride != nil {
		b, rawOverride = rawOverride, nil
	}
	if ll == nil {
		ll = newLive4(in.bound)
	}
	ll.cur, ll.yi = in, yi
	l := ll.l
	var oob *ipv4.ControlMessage
	if in.oobif != 0 {
		oob = &ipv4.ControlMessage{IfIndex: in.oobif}
	} else if r.Intn(2) == 0 {
		oob = &ipv4.ControlMessage{}
	}
	peer := &net.UDPAddr{IP: net.IPv4(10, 9, 9, byte(r.Intn(250)+1)), Port: 68}
	capt.reset()
	var pan interface{}
	func() {
		defer func() { pan = recover() }()
		l.Feed(b, oob, peer)
	}()
	// what the harness itself reads from the bytes (the trusted abstraction of the input)
	req, perr := dhcpv4.FromBytes(b)
	e := Ev{"ev": evname, "in": in.ev(), "parsed": perr == nil, "panic": pan != nil}
	out := Ev{"sent": false, "n": 0, "type": -1, "opcode": -1, "eqxid": false, "eqhtype": false, "eqchaddr": false, "eqflags": false,
		"eqgiaddr": false, "eqrai": false, "eqcid": false, "pgi": false, "pbc": false, "pci": false, "pyi": false, "port": 0, "ifindex": 0,
		"woob": false, "l2": false, "frame": false, "fdmac": false, "fdip": false, "fsport": 0, "fdport": 0, "fif": 0, "fsmac": false, "fwire": false, "fpay": false, "fecho": false, "fexpected": false, "size": 0}
	capt.mu.Lock()
	sent := append([]server.VerifSent4(nil), capt.s4...)
	frames := capt.frames
	fifs := capt.fifs
	capt.mu.Unlock()
	out["n"] = len(sent)
	if len(sent) >= 1 && perr == nil && sent[0].Resp == nil {
		out["sent"] = true // a nil response reached the send path
	} else if len(sent) >= 1 && perr == nil {
		s := sent[0]
		out["sent"] = true
		out["type"] = int(s.Resp.MessageType())
		out["opcode"] = int(s.Resp.OpCode)
		out["size"] = len(s.Resp.ToBytes())
		out["eqxid"] = s.Resp.TransactionID == req.TransactionID
		out["eqhtype"] = s.Resp.HWType == req.HWType
		out["eqchaddr"] = bytes.Equal(s.Resp.ClientHWAddr, req.ClientHWAddr)
		out["eqflags"] = s.Resp.Flags == req.Flags
		out["eqgiaddr"] = s.Resp.GatewayIPAddr.Equal(req.GatewayIPAddr)
		out["eqrai"] = eqOpt4(s.Resp, req, dhcpv4.OptionRelayAgentInformation)
		out["eqcid"] = eqOpt4(s.Resp, req, dhcpv4.OptionClientIdentifier)
		if s.Peer != nil {
			out["pgi"] = s.Peer.IP.Equal(req.GatewayIPAddr)
			out["pbc"] = s.Peer.IP.Equal(net.IPv4bcast)
			out["pci"] = s.Peer.IP.Equal(req.ClientIPAddr)
			out["pyi"] = s.Peer.IP.Equal(s.Resp.YourIPAddr)
			out["port"] = s.Peer.Port
		}
		if s.Woob != nil {
			out["woob"] = true
			out["ifindex"] = s.Woob.IfIndex
		}
		out["l2"] = s.L2
		// a link-level reply on an interface that exists, to a 6-byte hardware address: a frame must have been built
		if s.L2 && capt.l2real && s.Woob != nil && len(req.ClientHWAddr) == 6 {
			if x, err := net.InterfaceByIndex(s.Woob.IfIndex); err == nil && len(x.HardwareAddr) == 6 {
				out["fexpected"] = true
			}
		}
		if len(frames) == 1 {
			pkt := gopacket.NewPacket(frames[0], layers.LayerTypeEthernet, gopacket.Default)
			eth, _ := pkt.Layer(layers.LayerTypeEthernet).(*layers.Ethernet)
			ip, _ := pkt.Layer(layers.LayerTypeIPv4).(*layers.IPv4)
			udp, _ := pkt.Layer(layers.LayerTypeUDP).(*layers.UDP)
			if eth != nil && ip != nil && udp != nil {
				out["frame"] = true
				out["fdmac"] = bytes.Equal(eth.DstMAC, req.ClientHWAddr)
				out["fdip"] = ip.DstIP.Equal(s.Resp.YourIPAddr)
				out["fsport"] = int(udp.SrcPort)
				out["fdport"] = int(udp.DstPort)
				// the frame as a whole: lengths and checksums a receiver would verify, and the reply itself as payload
				out["fwire"] = frameWireOK(frames[0], ip, udp)
				if pay, err := dhcpv4.FromBytes(udp.Payload); err == nil {
					out["fpay"] = pay.TransactionID == s.Resp.TransactionID && pay.YourIPAddr.Equal(s.Resp.YourIPAddr) && pay.MessageType() == s.Resp.MessageType() &&
						bytes.Equal(pay.ClientHWAddr, s.Resp.ClientHWAddr) && bytes.Equal(pay.Options.Get(dhcpv4.OptionServerIdentifier), s.Resp.Options.Get(dhcpv4.OptionServerIdentifier)) &&
						bytes.Equal(pay.Options.Get(dhcpv4.OptionIPAddressLeaseTime), s.Resp.Options.Get(dhcpv4.OptionIPAddressLeaseTime))
				}
				// what really leaves on the link-level path is the frame: ITS payload carries the request's fields and echoes
				if pay, err := dhcpv4.FromBytes(udp.Payload); err == nil {
					out["fecho"] = pay.OpCode == dhcpv4.OpcodeBootReply && pay.TransactionID == req.TransactionID && pay.HWType == req.HWType &&
						bytes.Equal(pay.ClientHWAddr, req.ClientHWAddr) && pay.Flags == req.Flags && pay.GatewayIPAddr.Equal(req.GatewayIPAddr) &&
						eqOpt4(pay, req, dhcpv4.OptionRelayAgentInformation) && eqOpt4(pay, req, dhcpv4.OptionClientIdentifier)
				}
				if len(fifs) == 1 {
					// the interface the frame leaves on, and the source address it carries: that interface's own
					out["fif"] = fifs[0].Index
					if real, err := net.InterfaceByIndex(fifs[0].Index); err == nil {
						out["fsmac"] = bytes.Equal(eth.SrcMAC, real.HardwareAddr) && fifs[0].Name == real.Name
					}
				}
			}
		}
	} else if len(sent) >= 1 {
		out["sent"] = true // answered something the harness itself cannot parse
	}
	e["out"] = out
	t.Emit(e)
}

func csum16(b []byte, init uint32) uint16 {
	sum := init
	for i := 0; i+1 < len(b); i += 2 {
		sum += uint32(b[i])<<8 | uint32(b[i+1])
	}
	if len(b)%2 == 1 {
		sum += uint32(b[len(b)-1]) << 8
	}
	for sum>>16 != 0 {
		sum = sum&0xffff + sum>>16
	}
	return uint16(sum)
}

// frameWireOK: IPv4 header checksum, total length, UDP length and UDP checksum (pseudo header) of an Ethernet frame
func frameWireOK(frame []byte, ip *layers.IPv4, udp *layers.UDP) bool {
	if len(frame) < 14+20+8 {
		return false
	}
	iph := frame[14:]
	ihl := int(iph[0]&0x0f) * 4
	if ihl < 20 || len(iph) < ihl+8 || csum16(iph[:ihl], 0) != 0xffff {
		return false
	}
	total := int(iph[2])<<8 | int(iph[3])
	if total != len(iph) || ip.TTL == 0 {
		return false
	}
	u := iph[ihl:]
	ulen := int(u[4])<<8 | int(u[5])
	if ulen != len(u) {
		return false
	}
	if u[6] == 0 && u[7] == 0 {
		return true // no UDP checksum: allowed over IPv4
	}
	pseudo := uint32(0)
	for i := 12; i < 20; i += 2 {
		pseudo += uint32(iph[i])<<8 | uint32(iph[i+1])
	}
	pseudo += 17 + uint32(ulen)
	return csum16(u, pseudo) == 0xffff
}

func runD4(t *Trace, seed int64, full bool, shard, shards int) {
	k := 0
	take := func() bool { k++; return k%shards == shard }
	// what a receive buffer still holds from EARLIER datagrams is not part of the datagram: every prefix of a valid request that
	// does not parse on its own must stay unanswered, also right after a longer valid request went through the same buffer
	// (no poisoning of recycled buffers here: real servers have real stale bytes)
	if shard == 0 {
		keep := server.VerifBufPutHook
		server.VerifBufPutHook = nil
		ll := newLive4(0)
		r := rand.New(rand.NewSource(seed * 4409))
		good, _ := datagram4(in4{parse: true, op: 1, mt: 1, gi: "zero", ci: "zero", final: "base", yi: true, bound: 0, oobif: 7, hlen: 6}, r)
		for cut := 0; cut < len(good); cut += 1 + cut/60 {
			if _, err := dhcpv4.FromBytes(good[:cut]); err == nil {
				continue // still a message on its own
			}
			feed4on(t, ll, in4{parse: true, op: 1, mt: 1, gi: "zero", ci: "zero", final: "base", yi: true, bound: 0, oobif: 7, hlen: 6}, r, "d4")
			feed4raw(t, ll, in4{parse: false, op: 1, mt: 1, gi: "zero", ci: "zero", final: "base", yi: true, bound: 0, oobif: 7, hlen: 6}, good[:cut])
		}
		server.VerifBufPutHook = keep
	}
	// a long-running process (see runD6): 300 requests that end in "nil and stop", then requests that must be answered
	{
		ll := newLive4(0)
		for i := 0; i < 330; i++ {
			r := rand.New(rand.NewSource(seed*7001 + int64(shard*1000+i)))
			final := "nil"
			if i >= 300 || i%50 == 49 {
				final = "base"
			}
			feed4on(t, ll, in4{parse: true, op: 1, mt: 1 + 2*(i%2), gi: []string{"zero", "routable"}[i%2], ci: "zero", bflag: i%3 == 0, final: final, yi: true, bound: 0, oobif: 7, hlen: 6}, r, "d4")
		}
	}
	// the link-level reply path for real: on an interface with a hardware address the reply runs through sendEthernet up to the
	// frame hook, and what the frame carries is what the client gets - every hardware address length and type, long options
	if ifs := macInterfaces(); shard == 0 && len(ifs) >= 1 {
		capt.l2real = true
		ll := newLive4(ifs[0].Index)
		n := 0
		for i := 0; i < 170; i++ {
			r := rand.New(rand.NewSource(seed*5003 + int64(i)))
			feed4on(t, ll, in4{parse: true, op: 1, mt: 1 + 2*(i%2), gi: "zero", ci: "zero", bflag: false, final: "base", yi: i%5 != 4, bound: ifs[0].Index, oobif: 0,
				hlen: []int{6, 7, 8, 6, 16, 15, 6, 1, 0, 6, 12}[i%11]}, r, "d4")
			n++
		}
		capt.l2real = false
		t.Emit(Ev{"ev": "note", "what": "c11_l2_frames", "value": n})
	}
	// (1) C11 product: opcode x message type x parse x giaddr set/unset x chain result
	ops := make([]int, 0, 256)
	mts := make([]int, 0, 257)
	for i := 0; i < 256; i++ {
		ops = append(ops, i)
	}
	for i := -1; i < 256; i++ {
		mts = append(mts, i)
	}
	for _, parse := range []bool{true, false} {
		for _, op := range ops {
			for _, mt := range mts {
				if !full && parse && op != 1 && mt > 8 && (op+mt)%7 != 0 {
					continue // quick tier: thin out the (non-request opcode, exotic type) corner
				}
				if !parse && (op+mt)%5 != 0 && !full {
					continue
				}
				for _, gi := range []string{"zero", "routable"} {
					for _, final := range []string{"base", "nak", "nil"} {
						if final == "nak" && mt != 3 {
							continue
						}
						if (op != 1 || (mt != 1 && mt != 3)) && final != "base" && !full {
							continue
						}
						if !take() {
							continue
						}
						r := rand.New(rand.NewSource(seed*1000003 + int64(k)))
						hl := 6
						if op == 1 && (mt == 1 || mt == 3) {
							// the requests that are answered come with every hardware address length chaddr has room for
							// (both reply paths of this product: relay, and link-level unicast)
							for _, h := range []int{0, 1, 7, 8, 15, 16} {
								feed4(t, in4{parse: parse, op: op, mt: mt, gi: gi, ci: "zero", bflag: false, final: final, yi: true, bound: 0, oobif: 7, hlen: h}, r, "d4")
							}
						} else {
							hl = []int{6, 6, 6, 16, 0, 8}[k%6]
						}
						feed4(t, in4{parse: parse, op: op, mt: mt, gi: gi, ci: "zero", bflag: false, final: final, yi: true, bound: 0, oobif: 7, hlen: hl}, r, "d4")
					}
				}
			}
		}
	}
}

// malformed message-type options (abstract mt = -1), all opcodes
func runD4BadMT(t *Trace, seed int64) {
	k := 0
	for op := 0; op < 256; op++ {
		for bad := 1; bad <= 4; bad++ {
			for _, gi := range []string{"zero", "routable"} {
				k++
				r := rand.New(rand.NewSource(seed*2003 + int64(k)))
				feed4(t, in4{parse: true, op: op, mt: -1, mtbad: bad, gi: gi, ci: "zero", final: "base", yi: true, bound: 0, oobif: 7, hlen: 6}, r, "d4")
			}
		}
	}
}

func runD4Addr(t *Trace, seed int64, reps int) {
	// (2) C15 product: addressing. Interfaces with a hardware address make the link-level path real.
	ifs := macInterfaces()
	ifA, ifB := 5, 7
	capt.l2real = false
	if len(ifs) >= 2 {
		ifA, ifB = ifs[0].Index, ifs[1].Index
		capt.l2real = true
	} else if len(ifs) == 1 {
		ifA, ifB = ifs[0].Index, ifs[0].Index
		capt.l2real = true
	}
	t.Emit(Ev{"ev": "note", "what": "l2_frame_checked", "value": capt.l2real, "ifA": ifA, "ifB": ifB})
	ifC := ifB
	if len(ifs) >= 3 {
		ifC = ifs[2].Index
	} else if !capt.l2real {
		ifC = 9
	}
	// one more arrival interface whose index is ifB + 256 (what the server keeps per interface must be keyed by the
	// whole index): a bridge device, created for this run when the sandbox allows it
	if capt.l2real {
		name := fmt.Sprintf("vfbr%d", ifB+256)
		exec.Command("ip", "link", "del", name).Run()
		if err := exec.Command("ip", "link", "add", "name", name, "index", strconv.Itoa(ifB+256), "type", "bridge").Run(); err == nil {
			defer exec.Command("ip", "link", "del", name).Run()
			if x, err := net.InterfaceByIndex(ifB + 256); err == nil && len(x.HardwareAddr) == 6 {
				ifC = x.Index
			}
		}
		t.Emit(Ev{"ev": "note", "what": "high_ifindex", "value": ifC == ifB+256, "ifC": ifC})
	}
	// long-lived listeners: one bound to ifA, one unbound; requests arrive on changing interfaces
	lives := map[int]*live4{ifA: newLive4(ifA), 0: newLive4(0)}
	classes := []string{"zero", "routable", "linklocal", "bcast"}
	k := 0
	for rep := 0; rep < reps; rep++ {
		for _, mt := range []int{1, 3} {
			for _, gi := range classes {
				for _, ci := range classes {
					for _, bflag := range []bool{false, true} {
						for _, final := range []string{"base", "nak", "nil"} {
							if final == "nak" && mt != 3 {
								continue
							}
							for _, yi := range []bool{true, false} {
								for _, bo := range [][2]int{{ifA, 0}, {ifA, ifB}, {0, ifB}, {0, ifC}} {
									k++
									r := rand.New(rand.NewSource(seed*7919 + int64(k)))
									// hardware address lengths other than 6 as well (chaddr has room for 16): the reply carries the request's, whatever the path
									feed4on(t, lives[bo[0]], in4{parse: true, op: 1, mt: mt, gi: gi, ci: ci, bflag: bflag, final: final, yi: yi, bound: bo[0], oobif: bo[1],
										hlen: []int{6, 6, 8, 6, 16, 7, 6, 1, 6, 0, 6}[k%11]}, r, "d4")
								}
							}
						}
					}
				}
			}
		}
	}
	// link-level replies of every size up to what fits the interface: the 14 sizes just below the MTU (IP packet = message + 28
	// bytes; the Ethernet header does not count against the MTU), and some ordinary ones
	if capt.l2real {
		if x, err := net.InterfaceByIndex(ifA); err == nil && x.MTU >= 576 {
			sizes := []int{300, 301, 548, 576, 1000}
			for d := 0; d <= 16; d++ {
				sizes = append(sizes, x.MTU-28-d)
			}
			ll := lives[ifA]
			for i, sz := range sizes {
				r := rand.New(rand.NewSource(seed*31337 + int64(i)))
				ll.pad = sz
				feed4on(t, ll, in4{parse: true, op: 1, mt: 1 + 2*(i%2), gi: "zero", ci: "zero", bflag: false, final: "base", yi: true, bound: ifA, oobif: 0, hlen: 6}, r, "d4")
			}
			ll.pad = 0
		}
	}
	capt.l2real = false
}

// ---------------------------------------------------------------------------------------------
// DHCPv6

type in6 struct {
	parse bool
	depth int
	outer string
	itype int
	cid   bool
	rapid bool
	src   string
	final string
	bound int
	oobif int
}

func (i in6) ev() Ev {
	return Ev{"parse": i.parse, "depth": i.depth, "outer": i.outer, "itype": i.itype, "cid": i.cid, "rapid": i.rapid, "src": i.src,
		"final": i.final, "bound": i.bound, "oobif": i.oobif}
}

type layer6 struct {
	link, peer net.IP
	iid        []byte
	hasIID     bool
}

func datagram6(in in6, r *rand.Rand) ([]byte, []layer6) {
	m := &dhcpv6.Message{MessageType: dhcpv6.MessageType(in.itype)}
	r.Read(m.TransactionID[:])
	if in.cid {
		m.AddOption(dhcpv6.OptClientID(duidFor(r.Intn(5), r)))
	}
	if in.rapid {
		m.AddOption(&dhcpv6.OptionGeneric{OptionCode: dhcpv6.OptionRapidCommit})
	}
	if r.Intn(2) == 0 {
		m.AddOption(dhcpv6.OptElapsedTime(0))
	}
	if r.Intn(2) == 0 {
		m.AddOption(dhcpv6.OptRequestedOption(dhcpv6.OptionDNSRecursiveNameServer, dhcpv6.OptionDomainSearchList))
	}
	if r.Intn(3) == 0 {
		m.AddOption(&dhcpv6.OptIANA{IaId: [4]byte{1, 2, 3, byte(r.Intn(256))}})
	}
	if in.cid && r.Intn(5) == 0 {
		// a second, different Client Identifier option further down: the message's client identifier is the one the codec
		// (and with it every plugin) reads, the first
		m.AddOption(dhcpv6.OptClientID(&dhcpv6.DUIDOpaque{Type: dhcpv6.DUIDType(9), Data: []byte{0xde, 0xad, byte(r.Intn(256))}}))
	}
	var outer dhcpv6.DHCPv6 = m
	var ls []layer6
	for i := 0; i < in.depth; i++ {
		l := layer6{link: net.ParseIP(fmt.Sprintf("2001:db8:%x::%x", r.Intn(0xffff), i+1)), peer: net.ParseIP(fmt.Sprintf("fe80::%x:%x", r.Intn(0xffff), i+1))}
		mt := dhcpv6.MessageTypeRelayForward
		if in.outer == "repl" {
			mt = dhcpv6.MessageTypeRelayReply
		}
		rm := &dhcpv6.RelayMessage{MessageType: mt, HopCount: uint8(i), LinkAddr: l.link, PeerAddr: l.peer}
		if r.Intn(3) != 0 {
			l.iid = make([]byte, r.Intn(7)) // 0..6 bytes: an Interface-ID of length 0 is still an Interface-ID to mirror
			r.Read(l.iid)
			l.hasIID = true
			rm.AddOption(dhcpv6.OptInterfaceID(l.iid))
		}
		if r.Intn(4) == 0 {
			// RFC 8357 Relay Source Port (the port of the DOWNSTREAM relay): the reply still goes back to where the datagram came from
			rm.AddOption(&dhcpv6.OptionGeneric{OptionCode: 135, OptionData: []byte{byte(r.Intn(2) * 4), byte(r.Intn(2) * 0xd2)}})
		}
		if r.Intn(5) == 0 {
			// RFC 4994 Relay Agent Echo Request: a list of option codes the relay would like back (any codes, also those of the
			// options a Relay-Reply is made of); whatever a server does with it, the layer encloses the server's answer
			codes := [][]byte{{0, 9}, {0, 18, 0, 9}, {0, 37, 0, 38}, {0, 9, 0, 18, 0, 37}, {0, 43}}[r.Intn(5)]
			rm.AddOption(&dhcpv6.OptionGeneric{OptionCode: 43, OptionData: codes})
			if r.Intn(2) == 0 {
				rm.AddOption(&dhcpv6.OptionGeneric{OptionCode: 38, OptionData: []byte("subscriber")})
			}
		}
		rm.AddOption(dhcpv6.OptRelayMessage(outer))
		outer = rm
		ls = append([]layer6{l}, ls...) // outermost first
	}
	b := outer.ToBytes()
	if !in.parse {
		switch r.Intn(3) {
		case 0:
			b = b[:r.Intn(4)]
		case 1:
			b = append(b, 0, 1, 0xff, 0xff, 1) // an option longer than the datagram
		default:
			b = []byte{}
		}
	}
	return b, ls
}

type live6 struct {
	l   *server.VerifListener6
	cur in6
}

func newLive6(bound int) *live6 {
	ll := &live6{}
	ifi := net.Interface{}
	if bound != 0 {
		ifi = net.Interface{Index: bound, Name: "bound"}
	}
	hs := []handler.Handler6{
		func(req, resp dhcpv6.DHCPv6) (dhcpv6.DHCPv6, bool) { return resp, false },
		func(req, resp dhcpv6.DHCPv6) (dhcpv6.DHCPv6, bool) {
			if ll.cur.final == "nil" {
				return nil, true
			}
			return resp, false
		},
	}
	ll.l = server.NewVerifListener6(hs, ifi)
	return ll
}

var lives6 = map[int]*live6{}

func feed6(t *Trace, in in6, r *rand.Rand) {
	b, reqLayers := datagram6(in, r)
	// one long-lived listener per binding: datagrams from the same sources arrive on changing interfaces
	ll := lives6[in.bound]
	if ll == nil {
		ll = newLive6(in.bound)
		lives6[in.bound] = ll
	}
	ll.cur = in
	l := ll.l
	var oob *ipv6.ControlMessage
	if in.oobif != 0 {
		oob = &ipv6.ControlMessage{IfIndex: in.oobif}
	} else if r.Intn(2) == 0 {
		oob = &ipv6.ControlMessage{}
	}
	peer := &net.UDPAddr{IP: net.ParseIP(fmt.Sprintf("2001:db8:aa::%x", 1+r.Intn(0xfff))), Port: 546 + r.Intn(2)*1000}
	if in.src == "linklocal" {
		// link-local is fe80::/10, not only fe80::/64
		peer.IP = net.ParseIP(fmt.Sprintf([]string{"fe80::%x", "fe80::%x", "fe80:0:0:1::%x", "fe9a::%x", "febf:ffff::%x"}[r.Intn(5)], 1+r.Intn(3)))
	}
	capt.reset()
	var pan interface{}
	func() {
		defer func() { pan = recover() }()
		l.Feed(b, oob, peer)
	}()
	req, perr := dhcpv6.FromBytes(b)
	e := Ev{"ev": "d6", "in": in.ev(), "parsed": perr == nil, "panic": pan != nil}
	out := Ev{"sent": false, "n": 0, "type": -1, "eqxid": false, "eqcid": false, "rapid": false, "layers": -1, "mirror": false,
		"dstsame": false, "ifindex": 0, "woob": false}
	capt.mu.Lock()
	sent := append([]server.VerifSent6(nil), capt.s6...)
	capt.mu.Unlock()
	out["n"] = len(sent)
	if len(sent) >= 1 && perr == nil && sent[0].Resp == nil {
		out["sent"] = true // a nil response reached the send path
	} else if len(sent) >= 1 && perr == nil {
		s := sent[0]
		out["sent"] = true
		inner, ierr := req.GetInnerMessage()
		// what goes onto the wire
		back, err := dhcpv6.FromBytes(s.Resp.ToBytes())
		if err == nil && ierr == nil {
			layersN := 0
			mirror := true
			cur := back
			for cur.IsRelay() {
				rm := cur.(*dhcpv6.RelayMessage)
				if layersN < len(reqLayers) {
					rl := reqLayers[layersN]
					if rm.MessageType != dhcpv6.MessageTypeRelayReply || !rm.LinkAddr.Equal(rl.link) || !rm.PeerAddr.Equal(rl.peer) ||
						!bytes.Equal(rm.Options.InterfaceID(), rl.iid) || (rm.GetOneOption(dhcpv6.OptionInterfaceID) != nil) != rl.hasIID {
						mirror = false
					}
				} else {
					mirror = false
				}
				layersN++
				next, derr := dhcpv6.DecapsulateRelay(cur)
				if derr != nil {
					mirror = false
					break
				}
				cur = next
			}
			out["layers"] = layersN
			out["mirror"] = mirror
			if bm, ok := cur.(*dhcpv6.Message); ok {
				out["type"] = int(bm.MessageType)
				out["eqxid"] = bm.TransactionID == inner.TransactionID
				c1, c2 := bm.Options.ClientID(), inner.Options.ClientID()
				out["eqcid"] = c1 != nil && c2 != nil && bytes.Equal(c1.ToBytes(), c2.ToBytes())
				out["rapid"] = bm.GetOneOption(dhcpv6.OptionRapidCommit) != nil
			}
		}
		out["dstsame"] = s.Peer != nil && s.Peer.IP.Equal(peer.IP) && s.Peer.Port == peer.Port
		if s.Woob != nil {
			out["woob"] = true
			out["ifindex"] = s.Woob.IfIndex
		}
	} else if len(sent) >= 1 {
		out["sent"] = true
	}
	e["out"] = out
	t.Emit(e)
}

func runD6(t *Trace, seed int64, full bool, shard, shards int) {
	k := 0
	// a long-running process: several hundred requests whose chain ends in "nil and stop" (nothing is sent), and
	// afterwards ordinary requests are still answered - whatever the server keeps per request must be given back
	// on every path (every shard is its own process and starts with this)
	for i := 0; i < 330; i++ {
		r := rand.New(rand.NewSource(seed*7001 + int64(shard*1000+i)))
		final := "nil"
		if i >= 300 || i%50 == 49 {
			final = "resp"
		}
		feed6(t, in6{true, i % 3, "forw", []int{1, 3, 5, 6, 8, 11}[i%6], true, false, []string{"global", "linklocal"}[i%2], final, []int{5, 0}[i%2], 7}, r)
	}
	for _, parse := range []bool{true, false} {
		for depth := 0; depth <= 4; depth++ {
			for _, outer := range []string{"forw", "repl"} {
				if depth == 0 && outer == "repl" {
					continue
				}
				for itype := 0; itype < 256; itype++ {
					if itype == 12 || itype == 13 {
						continue // a relay type byte here would be one more relay layer
					}
					for _, cid := range []bool{true, false} {
						for _, rapid := range []bool{false, true} {
							for _, src := range []string{"global", "linklocal"} {
								for _, final := range []string{"resp", "nil"} {
									for _, bo := range [][2]int{{5, 0}, {5, 7}, {0, 7}, {0, 8}} {
										if !full {
											// quick tier: thin out the corners that cannot reply anyway
											interesting := itype <= 14
											if !interesting && (itype+depth)%16 != 0 {
												continue
											}
											if (!parse || final == "nil" || outer == "repl") && (itype+depth+bo[0]+bo[1])%4 != 0 {
												continue
											}
										}
										k++
										if k%shards != shard {
											continue
										}
										r := rand.New(rand.NewSource(seed*1000003 + int64(k)))
										feed6(t, in6{parse, depth, outer, itype, cid, rapid, src, final, bo[0], bo[1]}, r)
									}
								}
							}
						}
					}
				}
			}
		}
	}
}

// ---------------------------------------------------------------------------------------------
// C13: chains of synthetic plugins, loaded through plugins.LoadPlugins

type synCall struct {
	idx     int
	reqSame bool
	id      int
	marks   []int
}

var (
	synMu     sync.Mutex
	synCalls  []synCall
	synFirst4 *dhcpv4.DHCPv4
	synFirst6 dhcpv6.DHCPv6
	synOrig   []byte // canonical bytes of the datagram fed to the chain
	synSetups []string
	synReg    sync.Once
)

const (
	optMarks4 = 224
	optID4    = 225
	optMarks6 = 65001
	optID6    = 65002
)

func marksOf4(p *dhcpv4.DHCPv4) (int, []int) {
	id := 0
	if b := p.Options.Get(dhcpv4.GenericOptionCode(optID4)); len(b) == 1 {
		id = int(b[0])
	}
	ms := []int{}
	for _, x := range p.Options.Get(dhcpv4.GenericOptionCode(optMarks4)) {
		ms = append(ms, int(x))
	}
	return id, ms
}

func marksOf6(p dhcpv6.DHCPv6) (int, []int) {
	id := 0
	ms := []int{}
	if o := p.GetOneOption(dhcpv6.OptionCode(optID6)); o != nil {
		if b := o.ToBytes(); len(b) == 1 {
			id = int(b[0])
		}
	}
	if o := p.GetOneOption(dhcpv6.OptionCode(optMarks6)); o != nil {
		for _, x := range o.ToBytes() {
			ms = append(ms, int(x))
		}
	}
	return id, ms
}

func synHandler4(beh string, idx int) handler.Handler4 {
	return func(req, resp *dhcpv4.DHCPv4) (*dhcpv4.DHCPv4, bool) {
		synMu.Lock()
		if synFirst4 == nil {
			synFirst4 = req
		}
		// the ORIGINAL request: the same object for every handler, and the datagram that was fed (not a part or a copy of it)
		c := synCall{idx: idx, reqSame: req == synFirst4 && bytes.Equal(req.ToBytes(), synOrig), id: -1, marks: []int{}}
		if resp != nil {
			c.id, c.marks = marksOf4(resp)
		}
		synCalls = append(synCalls, c)
		synMu.Unlock()
		mark := func(p *dhcpv4.DHCPv4) {
			p.UpdateOption(dhcpv4.OptGeneric(dhcpv4.GenericOptionCode(optMarks4), append(append([]byte{}, p.Options.Get(dhcpv4.GenericOptionCode(optMarks4))...), byte(idx))))
		}
		switch beh {
		case "pass":
			return resp, false
		case "nilpass":
			return nil, false
		case "modify":
			if resp != nil {
				mark(resp)
			}
			return resp, false
		case "replace":
			n, _ := dhcpv4.NewReplyFromRequest(req)
			mt := dhcpv4.MessageTypeOffer
			if req.MessageType() == dhcpv4.MessageTypeRequest {
				mt = dhcpv4.MessageTypeAck
			}
			if resp != nil {
				mt = resp.MessageType()
			}
			n.UpdateOption(dhcpv4.OptMessageType(mt))
			n.YourIPAddr = net.IPv4(192, 0, 2, byte(idx)).To4()
			n.UpdateOption(dhcpv4.OptGeneric(dhcpv4.GenericOptionCode(optID4), []byte{byte(idx)}))
			return n, false
		case "stop":
			if resp != nil {
				mark(resp)
			}
			return resp, true
		case "stopnil":
			return nil, true
		}
		return resp, false
	}
}

func synHandler6(beh string, idx int) handler.Handler6 {
	return func(req, resp dhcpv6.DHCPv6) (dhcpv6.DHCPv6, bool) {
		synMu.Lock()
		if synFirst6 == nil {
			synFirst6 = req
		}
		// the ORIGINAL request - for a relayed one the outermost Relay-Forward, not the message inside it
		c := synCall{idx: idx, reqSame: req == synFirst6 && bytes.Equal(req.ToBytes(), synOrig), id: -1, marks: []int{}}
		if resp != nil {
			c.id, c.marks = marksOf6(resp)
		}
		synCalls = append(synCalls, c)
		synMu.Unlock()
		mark := func(p dhcpv6.DHCPv6) {
			var old []byte
			if o := p.GetOneOption(dhcpv6.OptionCode(optMarks6)); o != nil {
				old = o.ToBytes()
			}
			p.UpdateOption(&dhcpv6.OptionGeneric{OptionCode: dhcpv6.OptionCode(optMarks6), OptionData: append(append([]byte{}, old...), byte(idx))})
		}
		switch beh {
		case "pass":
			return resp, false
		case "nilpass":
			return nil, false
		case "modify":
			if resp != nil {
				mark(resp)
			}
			return resp, false
		case "replace":
			inner, _ := req.GetInnerMessage()
			n, err := dhcpv6.NewReplyFromMessage(inner)
			if err != nil {
				n, _ = dhcpv6.NewAdvertiseFromSolicit(inner)
			}
			n.UpdateOption(&dhcpv6.OptionGeneric{OptionCode: dhcpv6.OptionCode(optID6), OptionData: []byte{byte(idx)}})
			return n, false
		case "stop":
			if resp != nil {
				mark(resp)
			}
			return resp, true
		case "stopnil":
			return nil, true
		}
		return resp, false
	}
}

func registerSyn() {
	synReg.Do(func() {
		reg := func(p *plugins.Plugin) {
			if err := plugins.RegisterPlugin(p); err != nil {
				panic(err)
			}
		}
		s4 := func(name string) plugins.SetupFunc4 {
			return func(args ...string) (handler.Handler4, error) {
				synMu.Lock()
				synSetups = append(synSetups, name+"/4/"+fmt.Sprint(args))
				synMu.Unlock()
				idx, _ := strconv.Atoi(args[1])
				return synHandler4(args[0], idx), nil
			}
		}
		s6 := func(name string) plugins.SetupFunc6 {
			return func(args ...string) (handler.Handler6, error) {
				synMu.Lock()
				synSetups = append(synSetups, name+"/6/"+fmt.Sprint(args))
				synMu.Unlock()
				idx, _ := strconv.Atoi(args[1])
				return synHandler6(args[0], idx), nil
			}
		}
		reg(&plugins.Plugin{Name: "syn_dual", Setup4: s4("syn_dual"), Setup6: s6("syn_dual")})
		reg(&plugins.Plugin{Name: "syn_v4", Setup4: s4("syn_v4")})
		reg(&plugins.Plugin{Name: "syn_v6", Setup6: s6("syn_v6")})
		reg(&plugins.Plugin{Name: "syn_fail",
			Setup4: func(args ...string) (handler.Handler4, error) { return nil, fmt.Errorf("syn_fail: setup refused") },
			Setup6: func(args ...string) (handler.Handler6, error) { return nil, fmt.Errorf("syn_fail: setup refused") }})
		// a failing setup that hands back a usable handler TOGETHER with its error (several built-in plugins do): still a failure
		reg(&plugins.Plugin{Name: "syn_failh",
			Setup4: func(args ...string) (handler.Handler4, error) {
				return synHandler4("pass", 99), fmt.Errorf("syn_failh: setup refused")
			},
			Setup6: func(args ...string) (handler.Handler6, error) {
				return synHandler6("pass", 99), fmt.Errorf("syn_failh: setup refused")
			}})
		reg(&plugins.Plugin{Name: "syn_nilh",
			Setup4: func(args ...string) (handler.Handler4, error) { return nil, nil },
			Setup6: func(args ...string) (handler.Handler6, error) { return nil, nil }})
	})
}

// the five behaviours of the property, and a sixth the statement also settles: a handler that returns nil WITHOUT signalling
// stop (only the stop flag ends the chain; the next handler is handed nil)
var synBehaviours = []string{"pass", "modify", "replace", "stop", "stopnil", "nilpass"}

func runChains(t *Trace, seed int64, maxLen int) error {
	registerSyn()
	var chains [][]string
	chains = append(chains, []string{})
	prev := [][]string{{}}
	for n := 1; n <= maxLen; n++ {
		var next [][]string
		for _, c := range prev {
			for _, b := range synBehaviours {
				next = append(next, append(append([]string{}, c...), b))
			}
		}
		chains = append(chains, next...)
		prev = next
	}
	for k, bs := range chains {
		r := rand.New(rand.NewSource(seed*31 + int64(k)))
		for _, proto := range []int{4, 6} {
			var pcs []config.PluginConfig
			names := []string{"syn_dual", "syn_v4", "syn_v6"}
			for i, b := range bs {
				name := "syn_dual"
				if r.Intn(2) == 0 {
					name = names[1+(proto-4)/2]
				}
				_ = names
				pcs = append(pcs, config.PluginConfig{Name: name, Args: []string{b, strconv.Itoa(i + 1)}})
			}
			conf := &config.Config{}
			if proto == 4 {
				conf.Server4 = &config.ServerConfig{Plugins: pcs}
			} else {
				conf.Server6 = &config.ServerConfig{Plugins: pcs}
			}
			h4, h6, err := plugins.LoadPlugins(conf)
			if err != nil {
				return fmt.Errorf("LoadPlugins of a synthetic chain failed: %v", err)
			}
			synMu.Lock()
			synCalls, synFirst4, synFirst6 = nil, nil, nil
			synMu.Unlock()
			capt.reset()
			var pan interface{}
			if proto == 4 {
				b, _ := datagram4(in4{parse: true, op: 1, mt: 1 + 2*r.Intn(2), gi: "routable", ci: "zero", final: "base", hlen: 6}, r)
				if p, err := dhcpv4.FromBytes(b); err == nil {
					synOrig = p.ToBytes()
				}
				l := server.NewVerifListener4(h4, net.Interface{Index: 5})
				func() {
					defer func() { pan = recover() }()
					l.Feed(b, nil, &net.UDPAddr{IP: net.IPv4(10, 1, 1, 1), Port: 67})
				}()
			} else {
				b, _ := datagram6(in6{parse: true, depth: r.Intn(3), outer: "forw", itype: []int{1, 3, 5, 11}[r.Intn(4)], cid: true, src: "global", final: "resp"}, r)
				if p, err := dhcpv6.FromBytes(b); err == nil {
					synOrig = p.ToBytes()
				}
				l := server.NewVerifListener6(h6, net.Interface{Index: 5})
				func() {
					defer func() { pan = recover() }()
					l.Feed(b, nil, &net.UDPAddr{IP: net.ParseIP("2001:db8::77"), Port: 547})
				}()
			}
			synMu.Lock()
			calls := append([]synCall(nil), synCalls...)
			synMu.Unlock()
			invoked := []int{}
			saw := []Ev{}
			reqsame := true
			for _, c := range calls {
				invoked = append(invoked, c.idx)
				saw = append(saw, Ev{"id": c.id, "marks": c.marks})
				reqsame = reqsame && c.reqSame
			}
			e := Ev{"ev": "chain", "proto": proto, "bs": bs, "invoked": invoked, "saw": saw, "reqsame": reqsame, "panic": pan != nil,
				"sent": false, "n": 0, "out": Ev{"id": -1, "marks": []int{}}}
			capt.mu.Lock()
			if proto == 4 && len(capt.s4) > 0 && capt.s4[0].Resp == nil {
				e["sent"], e["n"] = true, len(capt.s4) // a nil response reached the send path
			} else if proto == 4 && len(capt.s4) > 0 {
				id, ms := marksOf4(capt.s4[0].Resp)
				e["sent"], e["n"], e["out"] = true, len(capt.s4), Ev{"id": id, "marks": ms}
			}
			if proto == 6 && len(capt.s6) > 0 && capt.s6[0].Resp == nil {
				e["sent"], e["n"] = true, len(capt.s6)
			} else if proto == 6 && len(capt.s6) > 0 {
				resp := capt.s6[0].Resp
				if resp.IsRelay() {
					if m, err := resp.GetInnerMessage(); err == nil {
						resp = m
					}
				}
				id, ms := marksOf6(resp)
				e["sent"], e["n"], e["out"] = true, len(capt.s6), Ev{"id": id, "marks": ms}
			}
			capt.mu.Unlock()
			if len(bs) == 0 {
				e["bs"] = []string{}
			}
			t.Emit(e)
		}
	}
	return nil
}

func runLoads(t *Trace, seed int64, maxList int) {
	registerSyn()
	kinds := []string{"v4", "v6", "dual", "unknown", "fail", "nilh"}
	nameOf := map[string]string{"v4": "syn_v4", "v6": "syn_v6", "dual": "syn_dual", "unknown": "syn_does_not_exist", "fail": "syn_fail", "nilh": "syn_nilh"}
	var lists [][]string
	lists = append(lists, []string{})
	prev := [][]string{{}}
	for n := 1; n <= maxList; n++ {
		var next [][]string
		for _, c := range prev {
			for _, k := range kinds {
				next = append(next, append(append([]string{}, c...), k))
			}
		}
		lists = append(lists, next...)
		prev = next
	}
	r := rand.New(rand.NewSource(seed))
	mk := func(l []string) *config.ServerConfig {
		sc := &config.ServerConfig{}
		for i, k := range l {
			name := nameOf[k]
			if k == "fail" && r.Intn(2) == 0 {
				name = "syn_failh"
			}
			sc.Plugins = append(sc.Plugins, config.PluginConfig{Name: name, Args: []string{"pass", strconv.Itoa(i + 1)}})
		}
		return sc
	}
	try := func(has6 bool, l6 []string, has4 bool, l4 []string) {
		conf := &config.Config{}
		if has6 {
			conf.Server6 = mk(l6)
		}
		if has4 {
			conf.Server4 = mk(l4)
		}
		var (
			h4  []handler.Handler4
			h6  []handler.Handler6
			err error
			pan interface{}
		)
		func() {
			defer func() { pan = recover() }()
			h4, h6, err = plugins.LoadPlugins(conf)
		}()
		e := Ev{"ev": "load", "has6": has6, "l6": l6, "has4": has4, "l4": l4, "err": err != nil, "panic": pan != nil, "h4": []int{}, "h6": []int{}}
		if err == nil && pan == nil {
			// identify the handlers by what they record when called
			ids4, ids6 := []int{}, []int{}
			for _, h := range h4 {
				if h == nil {
					ids4 = append(ids4, -2) // a nil handler in the list the server would call
					continue
				}
				synMu.Lock()
				synCalls, synFirst4 = nil, nil
				synMu.Unlock()
				req, resp, _ := buildReq4(dhcpv4.MessageTypeDiscover, net.HardwareAddr{1, 2, 3, 4, 5, 6}, "none", r)
				h(req, resp)
				synMu.Lock()
				if len(synCalls) == 1 {
					ids4 = append(ids4, synCalls[0].idx)
				} else {
					ids4 = append(ids4, -1)
				}
				synMu.Unlock()
			}
			for _, h := range h6 {
				if h == nil {
					ids6 = append(ids6, -2)
					continue
				}
				synMu.Lock()
				synCalls, synFirst6 = nil, nil
				synMu.Unlock()
				m, _ := dhcpv6.NewMessage()
				m.MessageType = dhcpv6.MessageTypeSolicit
				m.AddOption(dhcpv6.OptClientID(duidFor(1, r)))
				resp, _ := dhcpv6.NewAdvertiseFromSolicit(m)
				h(m, resp)
				synMu.Lock()
				if len(synCalls) == 1 {
					ids6 = append(ids6, synCalls[0].idx)
				} else {
					ids6 = append(ids6, -1)
				}
				synMu.Unlock()
			}
			e["h4"], e["h6"] = ids4, ids6
		}
		if len(l4) == 0 {
			e["l4"] = []string{}
		}
		if len(l6) == 0 {
			e["l6"] = []string{}
		}
		t.Emit(e)
	}
	try(false, nil, false, nil)
	for _, l := range lists {
		o := lists[r.Intn(len(lists))]
		try(false, nil, true, l)
		try(true, l, false, nil)
		try(true, o, true, l)
		try(true, l, true, o)
	}
}

func runDispatch(args []string) error {
	fs := flag.NewFlagSet("dispatch", flag.ContinueOnError)
	out := fs.String("out", "trace.ndjson", "trace file")
	seed := fs.Int64("seed", 1, "seed")
	mode := fs.String("mode", "d4", "d4 | d4addr | d6 | chain | load")
	full := fs.Bool("full", false, "the whole product (thorough tier)")
	reps := fs.Int("reps", 1, "d4addr: repetitions of the addressing product with fresh random fields")
	maxLen := fs.Int("maxlen", 5, "chain: chains of up to this many handlers; load: lists of up to this many plugins")
	shard := fs.Int("shard", 0, "this shard")
	shards := fs.Int("shards", 1, "number of shards")
	if err := fs.Parse(args); err != nil {
		return err
	}
	t, err := NewTrace(*out)
	if err != nil {
		return err
	}
	defer t.Close()
	installServerHooks()
	_ = binary.BigEndian
	switch *mode {
	case "d4":
		runD4(t, *seed, *full, *shard, *shards)
		if *shard == 0 {
			runD4BadMT(t, *seed)
		}
	case "d4addr":
		runD4Addr(t, *seed, *reps)
	case "d6":
		runD6(t, *seed, *full, *shard, *shards)
	case "chain":
		return runChains(t, *seed, *maxLen)
	case "load":
		runLoads(t, *seed, *maxLen)
	default:
		return fmt.Errorf("unknown mode %s", *mode)
	}
	return nil
}
