package main

// Family file (property C10): drives the real static-lease plugin through
// file.Plugin.Setup4 / Setup6 with lease files built from the line alphabet of
// spec/StaticFile.tla (blank, comment, ok(m,a), whitespace-only, 1 field,
// 3 fields, bad MAC, bad IP, wrong family), concretised with seeded MAC / IP
// spellings, and reads the served mapping back through the handlers. With
// autorefresh the file is edited in single-syscall steps (truncate, append,
// in-place overwrite) and the harness waits for the watcher's reload, which it
// sees through the file.reload.* observation points (no sleeping).

import (
	"bytes"
	"flag"
	"fmt"
	"math/rand"
	"net"
	"os"
	"path/filepath"
	"strings"
	"sync"
	"time"

	"github.com/coredhcp/coredhcp/handler"
	fileplugin "github.com/coredhcp/coredhcp/plugins/file"
	"github.com/coredhcp/coredhcp/verifhook"
	"github.com/insomniacslk/dhcp/dhcpv4"
	"github.com/insomniacslk/dhcp/dhcpv6"
	"github.com/insomniacslk/dhcp/iana"
)

func init() { families["file"] = runFile }

type fline struct {
	k    string
	m, a int
}

func (l fline) ev() Ev { return Ev{"k": l.k, "m": l.m, "a": l.a} }

var fileBadKinds = []string{"wsonly", "fields1", "fields3", "badmac", "badip", "wrongfamily"}

func fileAlphabet(nm, na int) []fline {
	ls := []fline{{"blank", -1, -1}, {"comment", -1, -1}}
	for m := 0; m < nm; m++ {
		for a := 0; a < na; a++ {
			ls = append(ls, fline{"ok", m, a})
		}
	}
	for _, k := range fileBadKinds {
		ls = append(ls, fline{k, -1, -1})
	}
	return ls
}

func fileMac(id int) net.HardwareAddr {
	return net.HardwareAddr{0x00, 0x1a, 0x2b, 0x3c, 0x4d, byte(0x50 + id)}
}

func fileAddr(p, id int) net.IP {
	if p == 4 {
		return net.IPv4(10, 0, byte(id), byte(10+id)).To4()
	}
	return net.ParseIP(fmt.Sprintf("2001:db8:0:%x::%x", id, 0x10+id))
}

func spellMac(m net.HardwareAddr, r *rand.Rand) string {
	h := fmt.Sprintf("%x", []byte(m))
	var s string
	switch r.Intn(4) {
	case 0:
		s = m.String()
	case 1:
		s = strings.ToUpper(m.String())
	case 2:
		s = strings.ReplaceAll(m.String(), ":", "-")
	default:
		s = h[0:4] + "." + h[4:8] + "." + h[8:12]
	}
	return s
}

func spellIP(p int, ip net.IP, r *rand.Rand) string {
	if p == 4 {
		return ip.String()
	}
	switch r.Intn(3) {
	case 0:
		return ip.String()
	case 1:
		return strings.ToUpper(ip.String())
	default:
		b := ip.To16()
		parts := make([]string, 8)
		for i := 0; i < 8; i++ {
			parts[i] = fmt.Sprintf("%04x", int(b[2*i])<<8|int(b[2*i+1]))
		}
		return strings.Join(parts, ":")
	}
}

func sep(r *rand.Rand) string { return []string{" ", "  ", "\t", " \t "}[r.Intn(4)] }

func (l fline) text(p int, r *rand.Rand) string {
	mac := spellMac(fileMac(0), r)
	switch l.k {
	case "blank":
		return ""
	case "comment":
		if r.Intn(25) == 0 {
			return "# " + strings.Repeat("a very long comment ", 3500) // one line of 70 000 bytes
		}
		return []string{"# static leases", "#" + mac + " 10.0.0.1", "#"}[r.Intn(3)]
	case "ok":
		t := spellMac(fileMac(l.m), r) + sep(r) + spellIP(p, fileAddr(p, l.a), r)
		if r.Intn(3) == 0 {
			t += " "
		}
		if r.Intn(4) == 0 {
			t = " " + t
		}
		if r.Intn(40) == 0 {
			t += strings.Repeat(" ", 66000) // still two fields, on a line longer than 64 KiB
		}
		return t
	case "wsonly":
		return []string{" ", "\t", "   \t"}[r.Intn(3)]
	case "fields1":
		return mac
	case "fields3":
		return mac + " " + spellIP(p, fileAddr(p, 0), r) + " extra"
	case "badmac":
		return []string{"zz:11:22:33:44:55", "00:11:22:33:44", "001122334455", "00:11:22:33:44:55:66"}[r.Intn(4)] + " " + spellIP(p, fileAddr(p, 0), r)
	case "badip":
		return mac + " " + []string{"10.0.0.256", "2001:db8:::1", "notanip", "10.0.0", "1.2.3.4/24", "2001:db8::66%eth0", "fe80::66%2", "::ffff:10.0.0.66%lo", "10.0.0.66%eth0"}[r.Intn(9)]
	case "wrongfamily":
		if p == 4 {
			return mac + " " + []string{"2001:db8::1", "::1", "fe80::1"}[r.Intn(3)]
		}
		return mac + " " + []string{"10.0.0.1", "::ffff:10.0.0.1", "192.168.1.1"}[r.Intn(3)]
	}
	return ""
}

func renderFile(p int, ls []fline, r *rand.Rand) string {
	var b strings.Builder
	for i, l := range ls {
		b.WriteString(l.text(p, r))
		if i < len(ls)-1 || r.Intn(2) == 0 {
			b.WriteString("\n")
		}
	}
	return b.String()
}

func linesEv(ls []fline) []Ev {
	out := []Ev{}
	for _, l := range ls {
		out = append(out, l.ev())
	}
	return out
}

type fileScn struct {
	t     *Trace
	dir   string
	r     *rand.Rand
	path  map[int]string
	h4    handler.Handler4
	h6    handler.Handler6
	auto  map[int]bool
	nm    int
	id    int
	watch *reloadWatch
	link  bool // the configured name is a symbolic link to the current generation of the file
	gen   map[int]int
}

// reloadWatch collects the watcher's reload events per file name.
type reloadWatch struct {
	mu     sync.Mutex
	alias  map[string]string // what the configured name resolved to at set-up -> the configured name
	ch     map[string]chan string
	busy   map[string]bool
	missed int
}

func newReloadWatch() *reloadWatch {
	w := &reloadWatch{ch: map[string]chan string{}, busy: map[string]bool{}, alias: map[string]string{}}
	verifhook.Install(func(site string, kv ...interface{}) {
		if !strings.HasPrefix(site, "file.reload.") {
			return
		}
		fn := kv[1].(string)
		w.mu.Lock()
		if a, ok := w.alias[fn]; ok {
			fn = a // whichever name the plugin works with, it is this instance's file
		}
		c := w.ch[fn]
		if site == "file.reload.begin" {
			w.busy[fn] = true
		} else {
			w.busy[fn] = false
		}
		w.mu.Unlock()
		if c != nil && site != "file.reload.begin" {
			c <- strings.TrimPrefix(site, "file.reload.")
		}
	})
	return w
}

func (w *reloadWatch) register(fn string) {
	w.mu.Lock()
	w.ch[fn] = make(chan string, 64)
	w.mu.Unlock()
}

func (w *reloadWatch) isBusy(fn string) bool {
	w.mu.Lock()
	defer w.mu.Unlock()
	return w.busy[fn]
}

func newFileScn(t *Trace, dir string, id int, r *rand.Rand, w *reloadWatch) *fileScn {
	s := &fileScn{t: t, dir: dir, r: r, path: map[int]string{}, auto: map[int]bool{}, nm: 2, id: id, watch: w}
	t.Emit(Ev{"ev": "reset"})
	return s
}

func (s *fileScn) setup(p int, auto bool, ls []fline) bool {
	fn := filepath.Join(s.dir, fmt.Sprintf("leases-%d-v%d.txt", s.id, p))
	s.path[p] = fn
	if s.link {
		// leases-..txt -> leases-..txt.gen0 ; updates are published by re-pointing the link (relink)
		os.Remove(fn)
		g0 := fn + ".gen0"
		if err := os.WriteFile(g0, []byte(renderFile(p, ls, s.r)), 0o644); err != nil {
			panic(err)
		}
		if err := os.Symlink(filepath.Base(g0), fn); err != nil {
			panic(err)
		}
		if s.gen == nil {
			s.gen = map[int]int{}
		}
		s.gen[p] = 0
		s.watch.mu.Lock()
		s.watch.alias[g0] = fn
		s.watch.mu.Unlock()
	} else if err := os.WriteFile(fn, []byte(renderFile(p, ls, s.r)), 0o644); err != nil {
		panic(err)
	}
	args := []string{fn}
	if auto {
		args = append(args, "autorefresh")
		s.watch.register(fn)
	}
	var err error
	func() {
		defer func() {
			if r := recover(); r != nil {
				err = fmt.Errorf("panic: %v", r)
			}
		}()
		if p == 4 {
			var h handler.Handler4
			h, err = fileplugin.Plugin.Setup4(args...)
			if err == nil {
				s.h4 = h
			}
		} else {
			var h handler.Handler6
			h, err = fileplugin.Plugin.Setup6(args...)
			if err == nil {
				s.h6 = h
			}
		}
	}()
	res, msg := "ok", ""
	if err != nil {
		res, msg = "err", err.Error()
	} else {
		s.auto[p] = auto
	}
	s.t.Emit(Ev{"ev": "setup", "p": p, "auto": auto, "file": linesEv(ls), "res": res, "msg": msg})
	return err == nil
}

// step edits the file of protocol p with ONE syscall and, for an autorefresh instance, waits
// for the watcher to have reloaded.
func (s *fileScn) step(p int, op string, whole []fline, added []fline) {
	fn := s.path[p]
	old, _ := os.ReadFile(fn)
	switch op {
	case "relink":
		// a new generation next to the old one, the link re-pointed with one rename, the old generation deleted
		// (the way configuration managers publish a file); the LAST update of a scenario: the watch dies with the old file
		g := s.gen[p] + 1
		s.gen[p] = g
		ng, og := fmt.Sprintf("%s.gen%d", fn, g), fmt.Sprintf("%s.gen%d", fn, g-1)
		if err := os.WriteFile(ng, []byte(renderFile(p, whole, s.r)), 0o644); err != nil {
			panic(err)
		}
		tmp := fn + ".lnk"
		os.Remove(tmp)
		if err := os.Symlink(filepath.Base(ng), tmp); err != nil {
			panic(err)
		}
		if err := os.Rename(tmp, fn); err != nil {
			panic(err)
		}
		if err := os.Remove(og); err != nil {
			panic(err)
		}
	case "trunc":
		if err := os.Truncate(fn, 0); err != nil {
			panic(err)
		}
	case "append":
		txt := renderFile(p, added, s.r)
		if len(old) > 0 && old[len(old)-1] != '\n' {
			txt = "\n" + txt
		}
		f, err := os.OpenFile(fn, os.O_WRONLY|os.O_APPEND, 0)
		if err != nil {
			panic(err)
		}
		if _, err := f.Write([]byte(txt)); err != nil {
			panic(err)
		}
		f.Close()
	case "overwrite":
		txt := renderFile(p, whole, s.r)
		if !strings.HasSuffix(txt, "\n") && len(txt) < len(old) {
			txt += "\n"
		}
		for len(txt) < len(old) {
			txt += "\n" // blank lines: no effect on the mapping
		}
		f, err := os.OpenFile(fn, os.O_WRONLY, 0)
		if err != nil {
			panic(err)
		}
		if _, err := f.WriteAt([]byte(txt), 0); err != nil {
			panic(err)
		}
		f.Close()
	}
	s.t.Emit(Ev{"ev": "step", "p": p, "op": op, "file": linesEv(whole)})
	if !s.auto[p] {
		return
	}
	now, _ := os.ReadFile(fn)
	s.watch.mu.Lock()
	c := s.watch.ch[fn]
	s.watch.mu.Unlock()
	// a healthy watcher reloads within milliseconds; the generous limit only costs time when it does not,
	// and keeps a loaded machine from turning slowness into a liveness verdict
	limit := 20 * time.Second
	if s.watch.missed >= 1 {
		limit = 2 * time.Second // the watcher of this process is evidently not reloading; do not wait long again
	}
	if bytes.Equal(now, old) {
		// nothing changed on disk (e.g. truncating an empty file): a reload may or may not
		// come, and is harmless; none is required
		limit = 300 * time.Millisecond
	}
	select {
	case res := <-c:
		s.t.Emit(Ev{"ev": "reload", "p": p, "res": res})
	case <-time.After(limit):
		if !bytes.Equal(now, old) {
			s.watch.missed++
			s.t.Emit(Ev{"ev": "noreload", "p": p})
		}
		return
	}
	// drain further reloads the same step may have caused
	for {
		select {
		case res := <-c:
			s.t.Emit(Ev{"ev": "reload", "p": p, "res": res})
			continue
		case <-time.After(25 * time.Millisecond):
		}
		if s.watch.isBusy(fn) {
			continue
		}
		break
	}
}

func (s *fileScn) addrID(p int, ip net.IP) (int, int) {
	fam := 6
	if ip.To4() != nil {
		fam = 4
	}
	for f := 4; f <= 6; f += 2 {
		for id := 0; id < 4; id++ {
			if fileAddr(f, id).Equal(ip) {
				return fam, id
			}
		}
	}
	return fam, -1
}

func (s *fileScn) q4(m int) {
	if s.h4 == nil {
		return
	}
	mac := fileMac(m)
	req, resp, err := buildReq4(dhcpv4.MessageTypeDiscover, mac, "none", s.r)
	if err != nil {
		return
	}
	// the mapping is keyed by the hardware address (chaddr): a client identifier option - naming this, another
	// listed or an unlisted address, or no address at all - does not change who is asking
	switch s.r.Intn(7) {
	case 0:
		req.Options[uint8(dhcpv4.OptionClientIdentifier)] = append([]byte{1}, mac...)
	case 1:
		req.Options[uint8(dhcpv4.OptionClientIdentifier)] = append([]byte{1}, fileMac((m+1)%(s.nm+1))...)
	case 2:
		req.Options[uint8(dhcpv4.OptionClientIdentifier)] = append([]byte{1}, fileMac((m+s.nm)%(s.nm+1))...)
	case 3:
		req.Options[uint8(dhcpv4.OptionClientIdentifier)] = []byte{1, 'p', 'x', 'e'}
	case 4:
		req.Options[uint8(dhcpv4.OptionClientIdentifier)] = append([]byte{255, 0, 0, 0, 1, 0, 3, 0, 1}, fileMac((m+1)%(s.nm+1))...)
	}
	if again, err := dhcpv4.FromBytes(req.ToBytes()); err == nil {
		req = again
	}
	before := resp.ToBytes()
	var (
		out  *dhcpv4.DHCPv4
		stop bool
		pan  interface{}
	)
	func() {
		defer func() { pan = recover() }()
		out, stop = s.h4(req, resp)
	}()
	e := Ev{"ev": "q4", "m": m, "res": "miss", "addr": -1, "fam": 0, "stop": stop, "same": false}
	switch {
	case pan != nil:
		e["res"] = "panic"
	case out == nil:
		e["res"] = "nil"
	default:
		var after []byte
		func() {
			defer func() { pan = recover() }()
			after = out.ToBytes()
		}()
		if pan != nil {
			// the reply cannot be serialised (in the server this panic kills the process)
			e["res"] = "unserialisable"
			break
		}
		e["same"] = bytes.Equal(before, after)
		if !out.YourIPAddr.IsUnspecified() && len(out.YourIPAddr) > 0 {
			e["res"] = "hit"
			e["fam"], e["addr"] = s.addrID(4, out.YourIPAddr)
		}
	}
	s.t.Emit(e)
}

func (s *fileScn) q6(m int, iana_ bool) { s.q6x(m, iana_, false) }

// q6x: iata_ adds an IA_TA (temporary addresses): the static mapping is served in an IA_NA when one was requested - an
// IA_TA, with or without an IA_NA next to it, changes nothing about that
func (s *fileScn) q6x(m int, iana_, iata_ bool) {
	if s.h6 == nil {
		return
	}
	mac := fileMac(m)
	msg, err := dhcpv6.NewMessage()
	if err != nil {
		return
	}
	msg.MessageType = dhcpv6.MessageTypeSolicit
	if s.r.Intn(2) == 0 {
		msg.AddOption(dhcpv6.OptClientID(&dhcpv6.DUIDLL{HWType: iana.HWTypeEthernet, LinkLayerAddr: mac}))
	} else {
		msg.AddOption(dhcpv6.OptClientID(&dhcpv6.DUIDLLT{HWType: iana.HWTypeEthernet, Time: 12345, LinkLayerAddr: mac}))
	}
	iaid := [4]byte{9, byte(s.r.Intn(256)), byte(s.r.Intn(256)), 7}
	if iana_ {
		msg.AddOption(&dhcpv6.OptIANA{IaId: iaid})
	}
	if iata_ {
		msg.AddOption(&dhcpv6.OptIATA{IaId: [4]byte{8, 8, 8, byte(s.r.Intn(256))}})
		if s.r.Intn(2) == 0 {
			msg.AddOption(&dhcpv6.OptIAPD{IaId: [4]byte{7, 7, 7, 7}})
		}
	}
	req, err := dhcpv6.FromBytes(msg.ToBytes())
	if err != nil {
		return
	}
	resp, err := dhcpv6.NewAdvertiseFromSolicit(req.(*dhcpv6.Message))
	if err != nil {
		return
	}
	before := resp.ToBytes()
	var (
		out  dhcpv6.DHCPv6
		stop bool
		pan  interface{}
	)
	func() {
		defer func() { pan = recover() }()
		out, stop = s.h6(req, resp)
	}()
	e := Ev{"ev": "q6", "m": m, "iana": iana_, "res": "miss", "addr": -1, "fam": 0, "n": 0, "iaidok": false, "stop": stop, "same": false}
	switch {
	case pan != nil:
		e["res"] = "panic"
	case out == nil:
		e["res"] = "nil"
	default:
		e["same"] = bytes.Equal(before, out.ToBytes())
		back, err := dhcpv6.FromBytes(out.ToBytes())
		if err != nil {
			e["res"] = "unparseable"
			break
		}
		ias := back.(*dhcpv6.Message).Options.IANA()
		e["n"] = len(ias)
		if len(ias) > 0 {
			e["res"] = "hit"
			e["iaidok"] = ias[0].IaId == iaid
			if as := ias[0].Options.Addresses(); len(as) == 1 {
				e["fam"], e["addr"] = s.addrID(6, as[0].IPv6Addr)
			}
		}
	}
	s.t.Emit(e)
}

func (s *fileScn) queryAll() {
	for m := 0; m <= s.nm; m++ { // the last id is never listed
		s.q4(m)
		s.q6(m, true)
	}
	s.q6(0, false)
	s.q6(1, false)
	s.q6x(0, false, true)
	s.q6x(1, true, true)
}

func filesUpTo(alpha []fline, n int) [][]fline {
	out := [][]fline{{}}
	prev := [][]fline{{}}
	for i := 0; i < n; i++ {
		var next [][]fline
		for _, f := range prev {
			for _, l := range alpha {
				g := append(append([]fline(nil), f...), l)
				next = append(next, g)
			}
		}
		out = append(out, next...)
		prev = next
	}
	return out
}

func randFile(alpha []fline, r *rand.Rand, good bool, maxLen int) []fline {
	n := r.Intn(maxLen + 1)
	var f []fline
	for i := 0; i < n; i++ {
		l := alpha[r.Intn(len(alpha))]
		for good && !(l.k == "ok" || l.k == "blank" || l.k == "comment") {
			l = alpha[r.Intn(len(alpha))]
		}
		f = append(f, l)
	}
	if !good {
		bad := fline{fileBadKinds[r.Intn(len(fileBadKinds))], -1, -1}
		pos := r.Intn(len(f) + 1)
		f = append(f[:pos], append([]fline{bad}, f[pos:]...)...)
	}
	return f
}

func runFile(args []string) error {
	fs := flag.NewFlagSet("file", flag.ContinueOnError)
	out := fs.String("out", "trace.ndjson", "trace file")
	seed := fs.Int64("seed", 1, "seed")
	mode := fs.String("mode", "parse", "parse | dual | auto")
	maxLines := fs.Int("lines", 3, "parse: all files of up to this many lines")
	count := fs.Int("count", 10, "dual/auto: scenarios (auto: at most ~12 per process, inotify instances are limited)")
	shard := fs.Int("shard", 0, "this shard")
	shards := fs.Int("shards", 1, "number of shards")
	dir := fs.String("dir", "", "scratch directory for lease files")
	replay := fs.String("replay", "", "unused: file scenarios are re-run by seed")
	if err := fs.Parse(args); err != nil {
		return err
	}
	_ = replay
	if *dir == "" {
		d, err := os.MkdirTemp("", "file")
		if err != nil {
			return err
		}
		defer os.RemoveAll(d)
		*dir = d
	}
	t, err := NewTrace(*out)
	if err != nil {
		return err
	}
	defer t.Close()
	w := newReloadWatch()
	alpha := fileAlphabet(2, 2)
	switch *mode {
	case "parse":
		files := filesUpTo(alpha, *maxLines)
		k := 0
		for _, p := range []int{4, 6} {
			for _, f := range files {
				k++
				if k%*shards != *shard {
					continue
				}
				r := rand.New(rand.NewSource(*seed*1000003 + int64(k)))
				s := newFileScn(t, *dir, k, r, w)
				if s.setup(p, false, f) {
					s.queryAll()
				}
				os.Remove(s.path[p])
			}
		}
	case "dual":
		for k := *shard; k < *count; k += *shards {
			r := rand.New(rand.NewSource(*seed*7919 + int64(k)))
			s := newFileScn(t, *dir, k, r, w)
			order := []int{4, 6}
			if k%2 == 1 {
				order = []int{6, 4}
			}
			for _, p := range order {
				f := randFile(alpha, r, k%7 != 3, 4)
				s.setup(p, false, f)
				s.queryAll()
			}
			s.queryAll()
		}
	case "gen2":
		// two generations in quick succession: a BIG table (its parse takes a few hundred milliseconds) is written, and while
		// it is still being parsed a small one replaces it. When everything has settled the served mapping is the file's:
		// the small table. (A reload that is still running must not overwrite the result of a later one.)
		for _, proto := range []int{4, 6} {
			d := filepath.Join(*dir, fmt.Sprintf("gen2-%d", proto))
			os.MkdirAll(d, 0o755)
			path := filepath.Join(d, "leases.txt")
			probe := net.HardwareAddr{0x00, 0x1a, 0x2b, 0x3c, 0x4d, 0x99}
			addrA, addrB := net.IP(net.IPv4(10, 7, 7, 1).To4()), net.IP(net.IPv4(10, 7, 7, 2).To4())
			if proto == 6 {
				addrA, addrB = net.ParseIP("2001:db8:7::1"), net.ParseIP("2001:db8:7::2")
			}
			onlyBig := net.HardwareAddr{0x02, 0x00, 0x00, 0x00, 0x00, 0x07}
			mkBig := func(n int) []byte {
				var b bytes.Buffer
				fmt.Fprintf(&b, "%s %s\n", probe, addrA)
				for i := 0; i < n; i++ {
					if proto == 4 {
						fmt.Fprintf(&b, "02:00:00:%02x:%02x:%02x 10.%d.%d.%d\n", byte(i>>16), byte(i>>8), byte(i), 100+byte(i>>16)%100, byte(i>>8), byte(i))
					} else {
						fmt.Fprintf(&b, "02:00:00:%02x:%02x:%02x 2001:db8:9:%x:%x::1\n", byte(i>>16), byte(i>>8), byte(i), i>>16, i&0xffff)
					}
				}
				return b.Bytes()
			}
			// calibrate: a table whose parse takes at least 250 ms on this machine
			n := 50000
			var big []byte
			var parse time.Duration
			for {
				big = mkBig(n)
				os.WriteFile(path, big, 0o644)
				t0 := time.Now()
				if proto == 4 {
					fileplugin.LoadDHCPv4Records(path)
				} else {
					fileplugin.LoadDHCPv6Records(path)
				}
				parse = time.Since(t0)
				if parse >= 200*time.Millisecond || n >= 1600000 {
					break
				}
				n *= 2
			}
			small := []byte(fmt.Sprintf("%s %s\n", probe, addrB))
			os.WriteFile(path, small, 0o644)
			var h4 handler.Handler4
			var h6 handler.Handler6
			var err error
			if proto == 4 {
				h4, err = fileplugin.Plugin.Setup4(path, "autorefresh")
			} else {
				h6, err = fileplugin.Plugin.Setup6(path, "autorefresh")
			}
			if err != nil {
				t.Emit(Ev{"ev": "note", "what": "gen2 setup failed: " + err.Error()})
				continue
			}
			served := func(mac net.HardwareAddr) net.IP {
				if proto == 4 {
					req, resp, err := buildReq4(dhcpv4.MessageTypeDiscover, mac, "none", rand.New(rand.NewSource(1)))
					if err != nil {
						return nil
					}
					out, _ := h4(req, resp)
					if out == nil || out.YourIPAddr.IsUnspecified() {
						return nil
					}
					return out.YourIPAddr
				}
				msg, _ := dhcpv6.NewMessage()
				msg.MessageType = dhcpv6.MessageTypeSolicit
				msg.AddOption(dhcpv6.OptClientID(&dhcpv6.DUIDLL{HWType: iana.HWTypeEthernet, LinkLayerAddr: mac}))
				msg.AddOption(&dhcpv6.OptIANA{IaId: [4]byte{1, 2, 3, 4}})
				req, err := dhcpv6.FromBytes(msg.ToBytes())
				if err != nil {
					return nil
				}
				resp, err := dhcpv6.NewAdvertiseFromSolicit(req.(*dhcpv6.Message))
				if err != nil {
					return nil
				}
				out, _ := h6(req, resp)
				if out == nil {
					return nil
				}
				if m, ok := out.(*dhcpv6.Message); ok {
					if na := m.Options.OneIANA(); na != nil {
						if as := na.Options.Addresses(); len(as) == 1 {
							return as[0].IPv6Addr
						}
					}
				}
				return nil
			}
			for round := 0; round < *count; round++ {
				// generation 1: the big table, in place; generation 2, a moment later: the small one
				if f, err := os.OpenFile(path, os.O_WRONLY|os.O_TRUNC, 0); err == nil {
					f.Write(big)
					f.Close()
				}
				time.Sleep(60 * time.Millisecond)
				if f, err := os.OpenFile(path, os.O_WRONLY|os.O_TRUNC, 0); err == nil {
					f.Write(small)
					f.Close()
				}
				// settle: wait until the small table is served, then long enough for every reload still running to finish
				t0 := time.Now()
				for time.Since(t0) < 20*time.Second {
					if ip := served(probe); ip != nil && ip.Equal(addrB) {
						break
					}
					time.Sleep(20 * time.Millisecond)
				}
				time.Sleep(4*parse + 300*time.Millisecond)
				ip := served(probe)
				ghost := served(onlyBig)
				ok := ip != nil && ip.Equal(addrB) && ghost == nil
				t.Emit(Ev{"ev": "gen2", "proto": proto, "round": round, "ok": ok, "served": fmt.Sprint(ip), "ghost": fmt.Sprint(ghost), "lines": n, "parse_ms": int(parse / time.Millisecond)})
				if !ok {
					break
				}
			}
		}
	case "link":
		// the configured name is a symbolic link: in-place updates through it, then ONE update published by re-pointing
		// the link and deleting the old generation; the served mapping must follow (v4, v6, dual-stack)
		for k := *shard; k < *count; k += *shards {
			r := rand.New(rand.NewSource(*seed*7919 + int64(k)))
			s := newFileScn(t, *dir, 5000+k, r, w)
			s.link = true
			protos := [][]int{{4}, {6}, {4, 6}, {6, 4}}[k%4]
			cur := map[int][]fline{}
			okAll := true
			for _, p := range protos {
				cur[p] = randFile(alpha, r, true, 3)
				if !s.setup(p, true, cur[p]) {
					okAll = false
				}
			}
			if !okAll {
				continue
			}
			s.queryAll()
			for i := r.Intn(3); i > 0; i-- {
				p := protos[r.Intn(len(protos))]
				add := randFile(alpha, r, r.Intn(3) != 0, 2)
				if len(add) == 0 {
					add = []fline{alpha[2+r.Intn(4)]}
				}
				cur[p] = append(append([]fline(nil), cur[p]...), add...)
				s.step(p, "append", cur[p], add)
				s.queryAll()
			}
			for _, p := range protos {
				nf := randFile(alpha, r, r.Intn(4) != 0, 3)
				s.step(p, "relink", nf, nil)
				s.queryAll()
			}
		}
	case "auto":
		for k := *shard; k < *count; k += *shards {
			r := rand.New(rand.NewSource(*seed*104729 + int64(k)))
			s := newFileScn(t, *dir, k, r, w)
			cur := map[int][]fline{}
			protos := []int{4}
			switch k % 4 {
			case 1:
				protos = []int{6}
			case 2:
				protos = []int{4, 6}
			case 3:
				protos = []int{6, 4}
			}
			okAll := true
			for _, p := range protos {
				f := randFile(alpha, r, true, 3)
				cur[p] = f
				auto := true
				if len(protos) == 2 && r.Intn(3) == 0 {
					auto = false
				}
				if !s.setup(p, auto, f) {
					okAll = false
				}
			}
			if !okAll {
				continue
			}
			s.queryAll()
			steps := 3 + r.Intn(3)
			for i := 0; i < steps; i++ {
				p := protos[r.Intn(len(protos))]
				switch r.Intn(5) {
				case 0:
					cur[p] = nil
					s.step(p, "trunc", nil, nil)
				case 1, 2:
					add := randFile(alpha, r, r.Intn(3) != 0, 2)
					if len(add) == 0 {
						add = []fline{alpha[2+r.Intn(4)]}
					}
					cur[p] = append(append([]fline(nil), cur[p]...), add...)
					s.step(p, "append", cur[p], add)
				default:
					nf := randFile(alpha, r, r.Intn(3) != 0, 3)
					cur[p] = nf
					s.step(p, "overwrite", nf, nil)
				}
				s.queryAll()
			}
		}
	default:
		return fmt.Errorf("unknown mode %s", *mode)
	}
	return nil
}
