package main

import (
	"bufio"
	"encoding/json"
	"os"
	"sync"
)

// Ev is one trace line.
type Ev map[string]interface{}

// Trace writes ndjson trace lines. It is safe for concurrent use; the order of
// lines is the order of Emit calls (callers emit at linearization points).
type Trace struct {
	mu   sync.Mutex
	path string
	f    *os.File
	w    *bufio.Writer
	n    int
	seq  int
}

func NewTrace(path string) (*Trace, error) {
	f, err := os.Create(path)
	if err != nil {
		return nil, err
	}
	return &Trace{path: path, f: f, w: bufio.NewWriterSize(f, 1<<20)}, nil
}

// Pending notes, next to the trace, the input that is about to be handed to the code under test. Should the code take the
// process down, the driver attaches it to the crash observation, so that a replay can hand the same input over again.
func (t *Trace) Pending(e Ev) {
	if b, err := json.Marshal(e); err == nil {
		os.WriteFile(t.path+".pending", b, 0o644)
	}
}

// Done: the input noted by Pending was handled.
func (t *Trace) Done() { os.Remove(t.path + ".pending") }

func (t *Trace) Emit(e Ev) {
	t.mu.Lock()
	defer t.mu.Unlock()
	t.seq++
	e["seq"] = t.seq
	b, err := json.Marshal(e)
	if err != nil {
		panic(err)
	}
	t.w.Write(b)
	t.w.WriteByte('\n')
	// one write per line: if the code under test takes the process down (fatal runtime error),
	// everything recorded so far is on disk and the driver can see where it happened
	t.w.Flush()
	t.n++
}

func (t *Trace) Len() int {
	t.mu.Lock()
	defer t.mu.Unlock()
	return t.n
}

func (t *Trace) Close() error {
	t.mu.Lock()
	defer t.mu.Unlock()
	if err := t.w.Flush(); err != nil {
		return err
	}
	return t.f.Close()
}

// ReadTrace reads an ndjson file into a list of events.
func ReadTrace(path string) ([]Ev, error) {
	f, err := os.Open(path)
	if err != nil {
		return nil, err
	}
	defer f.Close()
	var out []Ev
	sc := bufio.NewScanner(f)
	sc.Buffer(make([]byte, 1<<20), 1<<26)
	for sc.Scan() {
		if len(sc.Bytes()) == 0 {
			continue
		}
		var e Ev
		if err := json.Unmarshal(sc.Bytes(), &e); err != nil {
			return nil, err
		}
		out = append(out, e)
	}
	return out, sc.Err()
}

func toInt(v interface{}) int {
	switch x := v.(type) {
	case float64:
		return int(x)
	case int:
		return x
	case json.Number:
		i, _ := x.Int64()
		return int(i)
	}
	return 0
}

func toStr(v interface{}) string {
	s, _ := v.(string)
	return s
}
