package main

// Family plugins (properties C14 C17 C19): runs every built-in plugin, set up
// through Plugin.Setup4 / Plugin.Setup6 with one configuration per PROCESS
// (several plugins keep their configuration in package globals that accumulate
// across set-ups), over the abstract request products of spec/PluginsMC.tla
// (mode table: accepted configurations; C14 C17) or over argument vectors built
// from valid / boundary / invalid argument kinds and a battery of requests
// (mode args; C19). The reply is serialised and parsed back; watched options
// are decoded by this file's own encoders and compared with the configured
// arguments.

import (
	"bytes"
	"database/sql"
	"encoding/binary"
	"encoding/json"
	"flag"
	"fmt"
	"math/rand"
	"net"
	"net/url"
	"os"
	"os/exec"
	"path/filepath"
	"strconv"
	"strings"
	"sync"
	"time"

	"github.com/coredhcp/coredhcp/config"
	"github.com/coredhcp/coredhcp/handler"
	"github.com/coredhcp/coredhcp/plugins"
	pl_autoconfigure "github.com/coredhcp/coredhcp/plugins/autoconfigure"
	pl_dns "github.com/coredhcp/coredhcp/plugins/dns"
	pl_file "github.com/coredhcp/coredhcp/plugins/file"
	pl_ipv6only "github.com/coredhcp/coredhcp/plugins/ipv6only"
	pl_leasetime "github.com/coredhcp/coredhcp/plugins/leasetime"
	pl_mtu "github.com/coredhcp/coredhcp/plugins/mtu"
	pl_nbp "github.com/coredhcp/coredhcp/plugins/nbp"
	pl_netmask "github.com/coredhcp/coredhcp/plugins/netmask"
	pl_prefix "github.com/coredhcp/coredhcp/plugins/prefix"
	pl_range "github.com/coredhcp/coredhcp/plugins/range"
	pl_router "github.com/coredhcp/coredhcp/plugins/router"
	pl_searchdomains "github.com/coredhcp/coredhcp/plugins/searchdomains"
	pl_serverid "github.com/coredhcp/coredhcp/plugins/serverid"
	pl_sleep "github.com/coredhcp/coredhcp/plugins/sleep"
	pl_staticroute "github.com/coredhcp/coredhcp/plugins/staticroute"
	"github.com/coredhcp/coredhcp/server"
	"github.com/insomniacslk/dhcp/dhcpv4"
	"github.com/insomniacslk/dhcp/dhcpv6"
	"github.com/insomniacslk/dhcp/rfc1035label"
)

func init() { families["plugins"] = runPlugins }

var builtin = map[string]*plugins.Plugin{
	"autoconfigure": &pl_autoconfigure.Plugin, "dns": &pl_dns.Plugin, "file": &pl_file.Plugin, "ipv6only": &pl_ipv6only.Plugin,
	"lease_time": &pl_leasetime.Plugin, "mtu": &pl_mtu.Plugin, "nbp": &pl_nbp.Plugin, "netmask": &pl_netmask.Plugin,
	"prefix": &pl_prefix.Plugin, "range": &pl_range.Plugin, "router": &pl_router.Plugin, "searchdomains": &pl_searchdomains.Plugin,
	"server_id": &pl_serverid.Plugin, "sleep": &pl_sleep.Plugin, "staticroute": &pl_staticroute.Plugin,
}

var watched4 = []int{1, 3, 6, 26, 51, 54, 66, 67, 108, 116, 119, 121}
var watched6 = []int{2, 23, 24, 59, 60}

var own4 = map[string][]int{"netmask": {1}, "router": {3}, "dns": {6}, "mtu": {26}, "lease_time": {51}, "server_id": {54}, "nbp": {66, 67},
	"ipv6only": {108}, "autoconfigure": {116}, "searchdomains": {119}, "staticroute": {121}}
var own6 = map[string][]int{"server_id": {2}, "dns": {23}, "searchdomains": {24}, "nbp": {59, 60}}

func has(xs []int, x int) bool {
	for _, y := range xs {
		if y == x {
			return true
		}
	}
	return false
}

// ---- this file's own encoders of what a configuration must look like on the wire ----------

func encLabels(domains []string) []byte {
	var out []byte
	for _, d := range domains {
		if d == "" {
			return nil
		}
		for _, l := range strings.Split(strings.TrimSuffix(d, "."), ".") {
			if len(l) == 0 || len(l) > 63 {
				return nil // cannot be honoured on the wire
			}
			out = append(out, byte(len(l)))
			out = append(out, l...)
		}
		out = append(out, 0)
	}
	return out
}

func secondsOf(arg string) ([]byte, bool) {
	d, err := time.ParseDuration(arg)
	if err != nil {
		return nil, false
	}
	s := int64(d.Round(time.Second) / time.Second)
	if d < 0 || s > 0xffffffff {
		return nil, true // accepted by ParseDuration but not representable as uint32 seconds
	}
	b := make([]byte, 4)
	binary.BigEndian.PutUint32(b, uint32(s))
	return b, true
}

// expected4 / expected6: option code -> exact bytes the configuration stands for (nil: cannot be honoured)
func expected4(pl string, args []string) map[int][]byte {
	e := map[int][]byte{}
	cat4 := func(as []string) []byte {
		var b []byte
		for _, a := range as {
			ip := net.ParseIP(a).To4()
			if ip == nil {
				return nil
			}
			b = append(b, ip...)
		}
		return b
	}
	switch pl {
	case "netmask":
		if len(args) > 0 {
			e[1] = cat4(args[:1])
		}
	case "router":
		e[3] = cat4(args)
	case "dns":
		e[6] = cat4(args)
	case "server_id":
		if len(args) > 0 {
			e[54] = cat4(args[:1])
		}
	case "mtu":
		if len(args) > 0 {
			if v, err := strconv.Atoi(args[0]); err == nil && v >= 0 && v <= 0xffff {
				e[26] = []byte{byte(v >> 8), byte(v)}
			} else {
				e[26] = nil
			}
		}
	case "lease_time":
		if len(args) > 0 {
			e[51], _ = secondsOf(args[0])
		}
	case "ipv6only":
		e[108] = []byte{0, 0, 0, 0}
		if len(args) > 0 {
			e[108], _ = secondsOf(args[0])
		}
	case "autoconfigure":
		v := byte(0)
		if len(args) > 0 && (args[0] == "1" || args[0] == "AutoConfigure") {
			v = 1
		}
		e[116] = []byte{v}
	case "searchdomains":
		e[119] = encLabels(args)
	case "staticroute":
		var b []byte
		for _, a := range args {
			f := strings.Split(a, ",")
			if len(f) != 2 {
				b = nil
				break
			}
			_, dst, err := net.ParseCIDR(f[0])
			gw := net.ParseIP(f[1]).To4()
			if err != nil || gw == nil || dst.IP.To4() == nil || len(dst.Mask) != 4 {
				b = nil
				break
			}
			ones, _ := dst.Mask.Size()
			b = append(b, byte(ones))
			b = append(b, dst.IP.To4()[:(ones+7)/8]...)
			b = append(b, gw...)
		}
		e[121] = b
	case "nbp":
		if len(args) == 1 {
			if u, err := url.Parse(args[0]); err == nil {
				switch u.Scheme {
				case "http", "https", "ftp":
					e[67] = []byte(u.String())
				default:
					e[66] = []byte(u.Host)
					e[67] = []byte(u.Path)
				}
			}
		}
	}
	return e
}

func expected6(pl string, args []string) map[int][]byte {
	e := map[int][]byte{}
	switch pl {
	case "dns":
		var b []byte
		for _, a := range args {
			ip := net.ParseIP(a)
			if ip == nil {
				b = nil
				break
			}
			b = append(b, ip.To16()...)
		}
		e[23] = b
	case "searchdomains":
		e[24] = encLabels(args)
	case "server_id":
		if len(args) >= 2 {
			mac, err := net.ParseMAC(args[1])
			if err == nil {
				switch strings.ToLower(args[0]) {
				case "ll", "duid-ll", "duid_ll":
					e[2] = append([]byte{0, 3, 0, 1}, mac...)
				case "llt", "duid-llt", "duid_llt":
					e[2] = append([]byte{0, 1, 0, 1, 0, 0, 0, 0}, mac...)
				}
			}
		}
	case "nbp":
		if len(args) == 1 {
			if u, err := url.Parse(args[0]); err == nil {
				e[59] = []byte(u.String())
				if p := u.Query().Get("params"); p != "" {
					// RFC 5970 section 3.2: 16-bit length, then the parameter
					e[60] = append([]byte{byte(len(p) >> 8), byte(len(p))}, p...)
				}
			}
		}
	}
	return e
}

// ---- abstract requests --------------------------------------------------------------------------

type req4abs struct {
	prlhas bool
	prl    []int
	ac     bool
	siaddr string
	opt54  string
	mt     int // 1 discover, 3 request
	hlen   int
	gi     bool
	// prlzero: option 55 is present with length 0 (a list that names nothing, in its shortest wire form)
	prlzero bool
}

type pre4abs struct {
	typ   string
	yi    bool
	lease bool
	// lzero: the lease time that is already set is 0 seconds (set, not absent)
	lzero bool
}

var otherN int

// the pool / allocation length of the prefix plugin under test (battery: one request hints deep into the pool)
var (
	deepPool *net.IPNet
	deepPage int
)

func fourWayIP(c string, own net.IP) net.IP {
	switch c {
	case "zero":
		return net.IPv4zero.To4()
	case "own":
		return own
	case "other":
		// another server: whatever kind of address it has (private, link-local, loopback, multicast, class E, all ones)
		otherN++
		return [][]byte{{10, 99, 99, 99}, {169, 254, 7, 7}, {127, 0, 0, 9}, {224, 0, 0, 9}, {240, 0, 0, 1}, {255, 255, 255, 255}, {8, 8, 4, 4}}[otherN%7]
	}
	return nil
}

func buildPlug4(a req4abs, p pre4abs, own net.IP, r *rand.Rand) (*dhcpv4.DHCPv4, *dhcpv4.DHCPv4, error) {
	req, err := dhcpv4.New()
	if err != nil {
		return nil, nil, err
	}
	req.ClientHWAddr = make(net.HardwareAddr, a.hlen)
	r.Read(req.ClientHWAddr)
	req.UpdateOption(dhcpv4.OptMessageType(dhcpv4.MessageType(a.mt)))
	if a.prlhas && a.prlzero {
		req.Options[uint8(dhcpv4.OptionParameterRequestList)] = []byte{}
	} else if a.prlhas {
		codes := []byte{}
		for _, c := range a.prl {
			codes = append(codes, byte(c))
		}
		for _, c := range []byte{1, 3, 15, 119, 121} { // codes that are not conditional
			if r.Intn(2) == 0 {
				codes = append(codes, c)
			}
		}
		if len(codes) == 0 {
			codes = append(codes, 1) // a present list is never empty on the wire
		}
		r.Shuffle(len(codes), func(i, j int) { codes[i], codes[j] = codes[j], codes[i] })
		req.Options[uint8(dhcpv4.OptionParameterRequestList)] = codes
	}
	if a.ac {
		req.Options[uint8(dhcpv4.OptionAutoConfigure)] = []byte{byte(r.Intn(2))}
	}
	if r.Intn(3) == 0 {
		// a vendor class identifier, well formed or cut short
		vc := []string{"PXEClient", "PXEClient:Arch:00000:UNDI:002001", "HTTPClient", "HTTPClient:Arch:", "HTTPClient:Arch:16", "HTTPClient:Arch:00016:UNDI:003001", "MSFT 5.0", ""}[r.Intn(8)]
		req.Options[uint8(dhcpv4.OptionClassIdentifier)] = []byte(vc)
	}
	if r.Intn(3) == 0 {
		// options no plugin's table reads (round 9): a well-formed Relay Agent Information option with circuit id, link selection
		// (RFC 3527) and server identifier override (RFC 5107, naming this / another / a random server), Rapid Commit (RFC 4039),
		// subnet selection, client architecture
		rai := []byte{1, 3, 'e', 't', 'h'}
		if r.Intn(2) == 0 {
			rai = append(rai, 5, 4, 10, 7, byte(r.Intn(256)), 0)
		}
		if r.Intn(3) != 0 {
			ov := net.IPv4(198, 51, 100, byte(1+r.Intn(250))).To4()
			if own != nil && r.Intn(3) == 0 {
				ov = own.To4()
			}
			rai = append(rai, 11, 4, ov[0], ov[1], ov[2], ov[3])
		}
		req.Options[uint8(dhcpv4.OptionRelayAgentInformation)] = rai
		if r.Intn(2) == 0 {
			req.Options[80] = []byte{}
		}
		if r.Intn(2) == 0 {
			req.Options[118] = []byte{10, 7, byte(r.Intn(256)), 0}
		}
		if r.Intn(2) == 0 {
			req.Options[93] = []byte{0, byte(r.Intn(17))}
		}
	}
	if ip := fourWayIP(a.siaddr, own); ip != nil {
		req.ServerIPAddr = ip
	}
	if ip := fourWayIP(a.opt54, own); ip != nil {
		req.Options[uint8(dhcpv4.OptionServerIdentifier)] = []byte(ip.To4())
	}
	if a.gi {
		req.GatewayIPAddr = net.IPv4(10, 7, 7, 1).To4()
	}
	req, err = dhcpv4.FromBytes(req.ToBytes())
	if err != nil {
		return nil, nil, err
	}
	resp, err := dhcpv4.NewReplyFromRequest(req)
	if err != nil {
		return nil, nil, err
	}
	if p.typ == "offer" {
		resp.UpdateOption(dhcpv4.OptMessageType(dhcpv4.MessageTypeOffer))
	} else {
		resp.UpdateOption(dhcpv4.OptMessageType(dhcpv4.MessageTypeAck))
	}
	if p.yi {
		resp.YourIPAddr = net.IPv4(192, 0, 2, 55).To4()
	}
	if p.lease {
		lt := 7777 * time.Second
		if p.lzero {
			lt = 0
		}
		resp.UpdateOption(dhcpv4.OptIPAddressLeaseTime(lt))
	}
	return req, resp, nil
}

type req6abs struct {
	typ   int
	oro   []int
	sid   string
	depth int
	nocid bool
	deep  bool   // an IA_PD whose hint lies deep inside the configured prefix pool (deepPool)
	known bool   // the client is the one listed in the generated lease files (00:11:22:33:44:55)
	ias   string // "" (an IA_NA or none, at random) | "ta" (IA_TA only) | "ta+pd" | "na+ta"
	sid2  string // a SECOND Server Identifier option further down ("" = none): the message's server identifier is the one the codec reads, the first
}

func sidFor(rel string, ownDUID []byte) dhcpv6.DUID {
	mac := net.HardwareAddr{0xaa, 0xbb, 0xcc, 0xdd, 0xee, 0xff}
	isLLT := len(ownDUID) >= 2 && ownDUID[1] == 1
	if len(ownDUID) >= 10 {
		mac = net.HardwareAddr(ownDUID[len(ownDUID)-6:])
	}
	mk := func(llt bool, m net.HardwareAddr) dhcpv6.DUID {
		if llt {
			return &dhcpv6.DUIDLLT{HWType: 1, Time: 0, LinkLayerAddr: m}
		}
		return &dhcpv6.DUIDLL{HWType: 1, LinkLayerAddr: m}
	}
	switch rel {
	case "same":
		return mk(isLLT, mac)
	case "otherkind":
		return mk(!isLLT, mac)
	case "longer":
		return mk(isLLT, append(append(net.HardwareAddr{}, mac...), 0x01))
	case "differs":
		m2 := append(net.HardwareAddr{}, mac...)
		m2[5] ^= 0x01
		return mk(isLLT, m2)
	case "huge":
		// longer than the 128 + 2 octets RFC 8415 11.1 allows: still a Server Identifier, and not this server's
		return &dhcpv6.DUIDEN{EnterpriseNumber: 32473, EnterpriseIdentifier: bytes.Repeat([]byte{0xab}, 140)}
	}
	return nil
}

func buildPlug6(a req6abs, ownDUID []byte, r *rand.Rand) (dhcpv6.DHCPv6, dhcpv6.DHCPv6, error) {
	m := &dhcpv6.Message{MessageType: dhcpv6.MessageType(a.typ)}
	r.Read(m.TransactionID[:])
	if a.known {
		m.AddOption(dhcpv6.OptClientID(&dhcpv6.DUIDLL{HWType: 1, LinkLayerAddr: net.HardwareAddr{0x00, 0x11, 0x22, 0x33, 0x44, 0x55}}))
	} else if !a.nocid {
		m.AddOption(dhcpv6.OptClientID(duidFor(r.Intn(5), r)))
	}
	if a.deep && deepPool != nil {
		ip := append(net.IP{}, deepPool.IP.To16()...)
		ones, _ := deepPool.Mask.Size()
		for i := (ones + 7) / 8; i < 16 && i < (ones+7)/8+3; i++ {
			ip[i] = 0xff // far from the pool's base, still inside the pool
		}
		if deepPage > 0 && deepPage <= 128 {
			ip = ip.Mask(net.CIDRMask(deepPage, 128))
		}
		m.AddOption(&dhcpv6.OptIAPD{IaId: [4]byte{0, 0, 0, 6}, Options: dhcpv6.PDOptions{Options: dhcpv6.Options{
			&dhcpv6.OptIAPrefix{PreferredLifetime: 100 * time.Second, ValidLifetime: 200 * time.Second, Prefix: &net.IPNet{IP: ip, Mask: net.CIDRMask(deepPage, 128)}}}}})
	}
	switch a.ias {
	case "ta":
		m.AddOption(&dhcpv6.OptIATA{IaId: [4]byte{0, 0, 0, 9}})
	case "ta+pd":
		m.AddOption(&dhcpv6.OptIATA{IaId: [4]byte{0, 0, 0, 9}})
		m.AddOption(&dhcpv6.OptIAPD{IaId: [4]byte{0, 0, 0, 8}})
	case "na+ta":
		m.AddOption(&dhcpv6.OptIANA{IaId: [4]byte{0, 0, 0, 7}})
		m.AddOption(&dhcpv6.OptIATA{IaId: [4]byte{0, 0, 0, 9}})
	}
	codes := []dhcpv6.OptionCode{}
	for _, c := range a.oro {
		codes = append(codes, dhcpv6.OptionCode(c))
	}
	if r.Intn(2) == 0 {
		codes = append(codes, dhcpv6.OptionDomainSearchList)
	}
	r.Shuffle(len(codes), func(i, j int) { codes[i], codes[j] = codes[j], codes[i] }) // a request list is a set: any order
	if len(codes) > 0 || r.Intn(2) == 0 {
		m.AddOption(dhcpv6.OptRequestedOption(codes...))
	}
	if d := sidFor(a.sid, ownDUID); d != nil {
		m.AddOption(dhcpv6.OptServerID(d))
	}
	if d := sidFor(a.sid2, ownDUID); a.sid2 != "" && d != nil {
		m.AddOption(dhcpv6.OptServerID(d))
	}
	if a.ias == "" && r.Intn(2) == 0 {
		m.AddOption(&dhcpv6.OptIANA{IaId: [4]byte{0, 0, 0, 1}})
	}
	var outer dhcpv6.DHCPv6 = m
	for i := 0; i < a.depth; i++ {
		rm, err := dhcpv6.EncapsulateRelay(outer, dhcpv6.MessageTypeRelayForward, net.ParseIP("2001:db8:1::1"), net.ParseIP("fe80::1"))
		if err != nil {
			return nil, nil, err
		}
		outer = rm
	}
	req, err := dhcpv6.FromBytes(outer.ToBytes())
	if err != nil {
		return nil, nil, err
	}
	resp := &dhcpv6.Message{MessageType: dhcpv6.MessageTypeReply, TransactionID: m.TransactionID}
	if a.typ == 1 {
		resp.MessageType = dhcpv6.MessageTypeAdvertise
	}
	if cid := m.GetOneOption(dhcpv6.OptionClientID); cid != nil {
		resp.AddOption(cid)
	}
	return req, resp, nil
}

// ---- observation -------------------------------------------------------------------------------

func longDomains(n int) []string {
	var ds []string
	for i := 0; i < n; i++ {
		ds = append(ds, fmt.Sprintf("dom%02d-abcdefghij.example", i))
	}
	return ds
}

func opts4(p *dhcpv4.DHCPv4) map[int][]byte {
	m := map[int][]byte{}
	for _, c := range watched4 {
		if v, ok := p.Options[uint8(c)]; ok {
			m[c] = append([]byte{}, v...)
		}
	}
	return m
}

func opts6(p dhcpv6.DHCPv6) map[int][][]byte {
	m := map[int][][]byte{}
	inner, err := p.GetInnerMessage()
	if err != nil {
		return m
	}
	for _, c := range watched6 {
		for _, o := range inner.GetOption(dhcpv6.OptionCode(c)) {
			m[c] = append(m[c], o.ToBytes())
		}
	}
	return m
}

func callWatch(f func()) (pan interface{}, slow bool) {
	done := make(chan struct{})
	go func() {
		defer close(done)
		defer func() { pan = recover() }()
		f()
	}()
	select {
	case <-done:
	case <-time.After(5 * time.Second):
		slow = true
	}
	return
}

func observe4(t *Trace, pl string, args []string, h handler.Handler4, a req4abs, p pre4abs, own net.IP, r *rand.Rand, cfg Ev) {
	req, resp, err := buildPlug4(a, p, own, r)
	if err != nil {
		return
	}
	preBytes, _ := dhcpv4.FromBytes(resp.ToBytes())
	pre := opts4(preBytes)
	var (
		out  *dhcpv4.DHCPv4
		stop bool
	)
	pan, slow := callWatch(func() { out, stop = h(req, resp) })
	obs := Ev{"nil": out == nil, "stop": stop, "panic": pan != nil, "slow": slow, "roundtrip": true, "decodes": true, "siaddrok": false, "opts": []Ev{}, "msg": ""}
	if pan != nil {
		obs["msg"] = fmt.Sprint(pan)
		obs["nil"] = true
	}
	if out != nil && pan == nil && !slow {
		var wire []byte
		pan2, _ := callWatch(func() { wire = out.ToBytes() })
		if pan2 != nil {
			obs["panic"] = true // the reply cannot be serialised: in the server this takes the process down
			obs["msg"] = "ToBytes: " + fmt.Sprint(pan2)
		} else {
			back, err := dhcpv4.FromBytes(wire)
			if err != nil {
				obs["roundtrip"] = false
				obs["msg"] = "reply does not parse: " + err.Error()
			} else {
				obs["roundtrip"] = bytes.Equal(back.ToBytes(), wire)
				if c, why := undecodable4(back); c >= 0 {
					obs["decodes"] = false
					obs["msg"] = fmt.Sprintf("option %d of the parsed reply does not decode: %s", c, why)
				}
				post := opts4(back)
				exp := expected4(pl, args)
				var os_ []Ev
				for _, c := range watched4 {
					v, present := post[c]
					pv, was := pre[c]
					want, owned := exp[c]
					os_ = append(os_, Ev{"code": c, "present": present, "count": map[bool]int{true: 1, false: 0}[present],
						"valueok": present && owned && want != nil && bytes.Equal(v, want),
						"changed": present != was || !bytes.Equal(v, pv), "own": has(own4[pl], c)})
				}
				obs["opts"] = os_
				obs["siaddrok"] = own != nil && back.ServerIPAddr.Equal(own)
			}
		}
	}
	t.Emit(Ev{"ev": "h", "pl": pl, "proto": 4, "cfg": cfg, "args": args,
		"req": Ev{"prlhas": a.prlhas, "prl": intsOrEmpty(a.prl), "ac": a.ac, "siaddr": a.siaddr, "opt54": a.opt54, "mt": a.mt, "hlen": a.hlen},
		"pre": Ev{"type": p.typ, "yi": p.yi, "lease": p.lease, "lzero": p.lzero}, "obs": obs})
}

// undecodable4: the first watched option of a parsed DHCPv4 reply whose bytes are not a value of the option's
// type (the DHCPv4 codec keeps option bodies as bytes, so a parse of the packet alone does not tell).
func undecodable4(p *dhcpv4.DHCPv4) (int, string) {
	for _, c := range watched4 {
		v, ok := p.Options[uint8(c)]
		if !ok {
			continue
		}
		bad := ""
		switch c {
		case 1, 54, 51, 108:
			if len(v) != 4 {
				bad = fmt.Sprintf("%d bytes, want 4", len(v))
			}
		case 3, 6:
			if len(v)%4 != 0 {
				bad = fmt.Sprintf("%d bytes, want a multiple of 4", len(v))
			}
		case 26:
			if len(v) != 2 {
				bad = fmt.Sprintf("%d bytes, want 2", len(v))
			}
		case 116:
			if len(v) != 1 {
				bad = fmt.Sprintf("%d bytes, want 1", len(v))
			}
		case 119:
			if _, err := rfc1035label.FromBytes(v); err != nil {
				bad = err.Error()
			}
		case 121:
			var rs dhcpv4.Routes
			if err := rs.FromBytes(v); err != nil {
				bad = err.Error()
			} else if !bytes.Equal(rs.ToBytes(), v) {
				bad = "routes do not re-encode to the same bytes"
			}
		}
		if bad != "" {
			return c, bad
		}
	}
	return -1, ""
}

func intsOrEmpty(x []int) []int {
	if x == nil {
		return []int{}
	}
	return x
}

func observe6(t *Trace, pl string, args []string, h handler.Handler6, a req6abs, ownDUID []byte, r *rand.Rand, cfg Ev) {
	req, resp, err := buildPlug6(a, ownDUID, r)
	if err != nil {
		return
	}
	pre := opts6(resp)
	var (
		out  dhcpv6.DHCPv6
		stop bool
	)
	pan, slow := callWatch(func() { out, stop = h(req, resp) })
	obs := Ev{"nil": out == nil, "stop": stop, "panic": pan != nil, "slow": slow, "roundtrip": true, "decodes": true, "siaddrok": false, "opts": []Ev{}, "msg": ""}
	if pan != nil {
		obs["msg"] = fmt.Sprint(pan)
		obs["nil"] = true
	}
	if out != nil && pan == nil && !slow {
		var wire []byte
		pan2, _ := callWatch(func() { wire = out.ToBytes() })
		if pan2 != nil {
			obs["panic"] = true
			obs["msg"] = "ToBytes: " + fmt.Sprint(pan2)
		} else {
			back, err := dhcpv6.FromBytes(wire)
			if err != nil {
				obs["roundtrip"] = false
				obs["msg"] = "reply does not parse: " + err.Error()
			} else {
				obs["roundtrip"] = bytes.Equal(back.ToBytes(), wire)
				post := opts6(back)
				exp := expected6(pl, args)
				var os_ []Ev
				for _, c := range watched6 {
					vs := post[c]
					pvs := pre[c]
					want, owned := exp[c]
					same := len(vs) == len(pvs)
					for i := 0; same && i < len(vs); i++ {
						same = bytes.Equal(vs[i], pvs[i])
					}
					os_ = append(os_, Ev{"code": c, "present": len(vs) > 0, "count": len(vs),
						"valueok": len(vs) == 1 && owned && want != nil && bytes.Equal(vs[0], want), "changed": !same, "own": has(own6[pl], c)})
				}
				obs["opts"] = os_
			}
		}
	}
	t.Emit(Ev{"ev": "h", "pl": pl, "proto": 6, "cfg": cfg, "args": args,
		"req": Ev{"type": a.typ, "oro": intsOrEmpty(a.oro), "sid": a.sid, "sid2": a.sid2, "depth": a.depth, "nocid": a.nocid},
		"pre": Ev{"type": "offer", "yi": false, "lease": false}, "obs": obs})
}

func subsets(xs []int) [][]int {
	out := [][]int{{}}
	for _, x := range xs {
		n := len(out)
		for i := 0; i < n; i++ {
			out = append(out, append(append([]int{}, out[i]...), x))
		}
	}
	return out
}

// what the OTHER protocol section configures when a plugin is listed in both
var dualArgs = map[string]map[int][]string{
	"dns":           {4: {"9.9.9.9"}, 6: {"2001:db8::53"}},
	"searchdomains": {4: {"other4.example"}, 6: {"other6.example"}},
	"nbp":           {4: {"tftp://10.0.0.9/other4"}, 6: {"http://[2001:db8::9]/other6"}},
	"server_id":     {4: {"10.9.9.9"}, 6: {"LL", "00:11:22:33:44:55"}},
	"sleep":         {4: {"1ms"}, 6: {"1ms"}},
}

// one configuration, in this process
func runPluginOne(t *Trace, pl string, proto int, args []string, reqs string, seed int64) {
	p := builtin[pl]
	r := rand.New(rand.NewSource(seed))
	cfg := Ev{"tftp": false, "params": false}
	if pl == "nbp" && len(args) == 1 {
		if u, err := url.Parse(args[0]); err == nil {
			cfg["tftp"] = !(u.Scheme == "http" || u.Scheme == "https" || u.Scheme == "ftp")
			cfg["params"] = u.Query().Get("params") != ""
		}
	}
	var (
		h4  handler.Handler4
		h6  handler.Handler6
		err error
	)
	pan, _ := callWatch(func() {
		// "dual": the plugin is configured in BOTH protocol sections of one server; LoadPlugins sets up all of server6
		// first, then all of server4 - each instance must keep its own configuration
		other := dualArgs[pl]
		if reqs == "table-dual" && other != nil && proto == 4 && p.Setup6 != nil {
			p.Setup6(other[6]...)
		}
		if proto == 4 {
			h4, err = p.Setup4(args...)
		} else {
			h6, err = p.Setup6(args...)
		}
		if reqs == "table-dual" && other != nil && proto == 6 && p.Setup4 != nil {
			p.Setup4(other[4]...)
		}
	})
	res := "ok"
	msg := ""
	switch {
	case pan != nil:
		res, msg = "panic", fmt.Sprint(pan)
	case err != nil:
		res, msg = "err", err.Error()
	case proto == 4 && h4 == nil, proto == 6 && h6 == nil:
		res, msg = "err", "nil handler without error"
	}
	t.Emit(Ev{"ev": "setup", "pl": pl, "proto": proto, "args": args, "res": res, "msg": msg})
	if res != "ok" {
		return
	}
	var own net.IP
	var ownDUID []byte
	if pl == "server_id" {
		if proto == 4 {
			own = net.ParseIP(args[0]).To4()
		} else {
			ownDUID = expected6(pl, args)[2]
		}
	}
	if proto == 4 {
		pres := []pre4abs{}
		for _, ty := range []string{"offer", "ack"} {
			for _, yi := range []bool{false, true} {
				for _, le := range []bool{false, true} {
					pres = append(pres, pre4abs{ty, yi, le, false})
				}
				if pl == "lease_time" {
					pres = append(pres, pre4abs{ty, yi, true, true})
				}
			}
		}
		if reqs == "battery" {
			bat := []req4abs{
				{mt: 1, hlen: 6, siaddr: "absent", opt54: "absent"},
				{mt: 1, hlen: 6, prlhas: true, prl: []int{6, 26, 66, 67, 108}, siaddr: "absent", opt54: "absent"},
				{mt: 3, hlen: 6, prlhas: true, prl: []int{108}, siaddr: "absent", opt54: "own"},
				{mt: 1, hlen: 6, ac: true, prlhas: true, prl: []int{}, siaddr: "absent", opt54: "absent"},
				{mt: 3, hlen: 6, siaddr: "other", opt54: "absent"},
				{mt: 1, hlen: 0, siaddr: "absent", opt54: "absent"},
				{mt: 3, hlen: 16, gi: true, siaddr: "zero", opt54: "zero"},
				{mt: 1, hlen: 8, prlhas: true, prl: []int{6}, siaddr: "absent", opt54: "other"},
			}
			for i, a := range bat {
				observe4(t, pl, args, h4, a, pres[(i*3)%len(pres)], own, r, cfg)
				observe4(t, pl, args, h4, a, pres[(i*3+5)%len(pres)], own, r, cfg)
			}
			return
		}
		// table: the product of the dimensions this plugin's table depends on
		prls := [][]int{nil}
		for _, s := range subsets([]int{6, 26, 66, 67, 108}) {
			prls = append(prls, s)
		}
		switch pl {
		case "server_id":
			// the whole product several times over in ONE process: what the plugin decides must not depend on how many
			// requests (in particular: how many for other servers) it has seen before
			for pass := 0; pass < 4; pass++ {
				for _, si := range []string{"absent", "zero", "own", "other"} {
					for _, o54 := range []string{"absent", "zero", "own", "other"} {
						for _, mt := range []int{1, 3} {
							for _, ph := range []bool{false, true} {
								observe4(t, pl, args, h4, req4abs{prlhas: ph, prl: []int{6}, siaddr: si, opt54: o54, mt: mt, hlen: 6}, pres[r.Intn(len(pres))], own, r, cfg)
							}
						}
					}
				}
			}
		case "dns", "mtu", "nbp", "ipv6only":
			if pl == "ipv6only" {
				// a present list that names nothing, as a zero-length option 55: still no explicit request
				for _, p := range pres {
					observe4(t, pl, args, h4, req4abs{prlhas: true, prl: []int{}, prlzero: true, siaddr: "absent", opt54: "absent", mt: 1 + 2*r.Intn(2), hlen: 6}, p, own, r, cfg)
				}
			}
			for i, prl := range prls {
				for _, p := range pres {
					observe4(t, pl, args, h4, req4abs{prlhas: i > 0, prl: prl, ac: r.Intn(2) == 0, siaddr: "absent", opt54: "absent", mt: 1 + 2*r.Intn(2), hlen: 6}, p, own, r, cfg)
				}
			}
		default:
			for _, i := range []int{0, 1, 32, 17} {
				for _, ac := range []bool{false, true} {
					for _, p := range pres {
						observe4(t, pl, args, h4, req4abs{prlhas: i > 0, prl: prls[i], ac: ac, siaddr: "absent", opt54: "absent", mt: 1 + 2*r.Intn(2), hlen: 6}, p, own, r, cfg)
					}
				}
			}
		}
		return
	}
	// DHCPv6
	if reqs == "battery" {
		bat := []req6abs{
			{typ: 1, oro: []int{23, 59, 60}, sid: "none"}, {typ: 3, oro: []int{23}, sid: "same"}, {typ: 5, sid: "none"}, {typ: 1, sid: "none", depth: 2, oro: []int{59}},
			{typ: 11, oro: []int{23, 60}, sid: "none"}, {typ: 1, sid: "none", nocid: true}, {typ: 6, sid: "differs"}, {typ: 8, sid: "same", depth: 1},
			// the client a generated lease file lists, with every layout of identity associations
			{typ: 1, sid: "none", known: true, ias: "ta"}, {typ: 3, sid: "same", known: true, ias: "ta+pd", depth: 1}, {typ: 1, sid: "none", known: true, ias: "na+ta"},
			{typ: 5, sid: "same", known: true}, {typ: 1, sid: "none", ias: "ta"},
		}
		if pl == "prefix" && len(args) == 2 {
			if _, n, err := net.ParseCIDR(args[0]); err == nil && n.IP.To4() == nil {
				if pg, err := strconv.Atoi(args[1]); err == nil && pg > 0 && pg <= 128 {
					deepPool, deepPage = n, pg
					bat = append(bat, req6abs{typ: 1, sid: "none", deep: true}, req6abs{typ: 1, sid: "none"})
				}
			}
		}
		for _, a := range bat {
			observe6(t, pl, args, h6, a, ownDUID, r, cfg)
		}
		return
	}
	oros := subsets([]int{23, 59, 60})
	if pl == "server_id" {
		for pass := 0; pass < 2; pass++ {
			for typ := 1; typ <= 11; typ++ {
				for _, sid := range []string{"none", "same", "otherkind", "longer", "differs", "huge"} {
					for depth := 0; depth <= 2; depth++ {
						observe6(t, pl, args, h6, req6abs{typ: typ, oro: oros[r.Intn(len(oros))], sid: sid, depth: depth}, ownDUID, r, cfg)
					}
				}
			}
		}
		for typ := 1; typ <= 11; typ++ {
			for _, sid := range []string{"none", "same", "otherkind", "longer", "differs", "huge"} {
				for depth := 0; depth <= 2; depth++ {
					observe6(t, pl, args, h6, req6abs{typ: typ, oro: oros[r.Intn(len(oros))], sid: sid, depth: depth}, ownDUID, r, cfg)
				}
			}
		}
		// two Server Identifier options: another server's first and this server's last, and the other way round
		for typ := 1; typ <= 11; typ++ {
			for _, two := range [][2]string{{"differs", "same"}, {"same", "differs"}, {"same", "same"}, {"otherkind", "same"}} {
				for depth := 0; depth <= 2; depth++ {
					observe6(t, pl, args, h6, req6abs{typ: typ, oro: oros[r.Intn(len(oros))], sid: two[0], sid2: two[1], depth: depth}, ownDUID, r, cfg)
				}
			}
		}
		return
	}
	for _, typ := range []int{1, 3, 5, 11} {
		for _, oro := range oros {
			for depth := 0; depth <= 2; depth++ {
				observe6(t, pl, args, h6, req6abs{typ: typ, oro: oro, sid: "none", depth: depth}, ownDUID, r, cfg)
			}
		}
	}
}

// server_id followed by one other plugin, in this process: the reply that leaves the chain must still carry
// this server's identifier (C14 speaks about every reply, not only about server_id's own output)
func runSidChainOne(t *Trace, other string, proto int, args []string, seed int64) {
	r := rand.New(rand.NewSource(seed))
	sidArgs := []string{"10.0.0.1"}
	if proto == 6 {
		sidArgs = []string{"LL", "00:de:ad:be:ef:00"}
	}
	emit := func(e Ev) {
		e["ev"], e["proto"], e["other"], e["args"] = "sidchain", proto, other, args
		t.Emit(e)
	}
	if proto == 4 {
		sid, err := builtin["server_id"].Setup4(sidArgs...)
		if err != nil {
			return
		}
		x, err := builtin[other].Setup4(args...)
		if err != nil || x == nil {
			return
		}
		own := net.ParseIP(sidArgs[0]).To4()
		if other == "server_id" {
			own = net.ParseIP(args[0]).To4() // listed twice: the identifier configured last is this server's
		}
		pres := []pre4abs{{"offer", false, false, false}, {"offer", true, false, false}, {"ack", true, true, false}, {"ack", false, false, false}}
		bat := []req4abs{
			{mt: 1, hlen: 6, siaddr: "absent", opt54: "absent"},
			{mt: 1, hlen: 6, prlhas: true, prl: []int{6, 26, 66, 67, 108}, siaddr: "absent", opt54: "absent"},
			{mt: 3, hlen: 6, prlhas: true, prl: []int{66}, siaddr: "own", opt54: "own"},
			{mt: 1, hlen: 6, ac: true, siaddr: "zero", opt54: "absent"},
			{mt: 3, hlen: 6, prlhas: true, prl: []int{1, 3}, siaddr: "absent", opt54: "own"},
		}
		for _, a := range bat {
			for _, p := range pres {
				req, resp, err := buildPlug4(a, p, own, r)
				if err != nil {
					continue
				}
				var out *dhcpv4.DHCPv4
				var stop bool
				pan, _ := callWatch(func() {
					out, stop = sid(req, resp)
					if !stop && out != nil {
						out, _ = x(req, out)
					}
				})
				e := Ev{"nil": out == nil, "panic": pan != nil, "sidok": false, "siaddrok": false}
				if out != nil && pan == nil {
					if back, err := dhcpv4.FromBytes(out.ToBytes()); err == nil {
						e["sidok"] = bytes.Equal(back.Options.Get(dhcpv4.OptionServerIdentifier), own)
						e["siaddrok"] = back.ServerIPAddr.Equal(own)
					}
				}
				emit(e)
			}
		}
		return
	}
	sid, err := builtin["server_id"].Setup6(sidArgs...)
	if err != nil {
		return
	}
	x, err := builtin[other].Setup6(args...)
	if err != nil || x == nil {
		return
	}
	ownDUID := expected6("server_id", sidArgs)[2]
	if other == "server_id" {
		ownDUID = expected6("server_id", args)[2] // listed twice: one identifier, the one configured last
	}
	for _, a := range []req6abs{{typ: 1, oro: []int{23, 59, 60}, sid: "none"}, {typ: 3, oro: []int{23}, sid: "same"}, {typ: 11, oro: []int{59}, sid: "none"},
		{typ: 1, sid: "none", depth: 2, oro: []int{60}}, {typ: 5, sid: "same", depth: 1}} {
		req, resp, err := buildPlug6(a, ownDUID, r)
		if err != nil {
			continue
		}
		var out dhcpv6.DHCPv6
		var stop bool
		pan, _ := callWatch(func() {
			out, stop = sid(req, resp)
			if !stop && out != nil {
				out, _ = x(req, out)
			}
		})
		e := Ev{"nil": out == nil, "panic": pan != nil, "sidok": false, "siaddrok": true}
		if out != nil && pan == nil {
			if back, err := dhcpv6.FromBytes(out.ToBytes()); err == nil {
				got := opts6(back)[2]
				e["sidok"] = len(got) == 1 && bytes.Equal(got[0], ownDUID)
			}
		}
		emit(e)
	}
}

// one configuration through the LOADER, in this process: plugins.LoadPlugins on a configuration that lists the
// plugin under the given protocol (whether it supports it or not), then datagrams through HandleMsg4/6
func runLoadOne(t *Trace, pl string, proto int, args []string, seed int64) {
	registerBuiltin()
	installGoroutineHooks()
	sc := &config.ServerConfig{Plugins: []config.PluginConfig{{Name: pl, Args: args}}}
	conf := &config.Config{}
	if proto == 4 {
		conf.Server4 = sc
	} else {
		conf.Server6 = sc
	}
	var (
		h4  []handler.Handler4
		h6  []handler.Handler6
		err error
	)
	pan, _ := callWatch(func() { h4, h6, err = plugins.LoadPlugins(conf) })
	res := "ok"
	switch {
	case pan != nil:
		res = "panic"
	case err != nil:
		res = "err"
	}
	nilh := false
	for _, h := range h4 {
		nilh = nilh || h == nil
	}
	for _, h := range h6 {
		nilh = nilh || h == nil
	}
	t.Emit(Ev{"ev": "load1", "pl": pl, "proto": proto, "args": args, "res": res, "nilhandler": nilh, "msg": fmt.Sprint(err)})
	if res != "ok" {
		return
	}
	l4 := server.NewVerifListener4(h4, net.Interface{Index: boundIndex()})
	l6 := server.NewVerifListener6(h6, net.Interface{})
	r := rand.New(rand.NewSource(seed))
	own := &dhcpv6.DUIDLL{HWType: 1, LinkLayerAddr: net.HardwareAddr{0, 0xde, 0xad, 0xbe, 0xef, 0}}
	for i := 0; i < 8; i++ {
		var b []byte
		var kind string
		peer := &net.UDPAddr{IP: net.IPv4(10, 0, 0, 9), Port: 68}
		if proto == 4 {
			b, kind = wellFormed4(r)
		} else {
			b, kind = wellFormed6(r, own)
			peer = &net.UDPAddr{IP: net.ParseIP("fe80::99"), Port: 546}
		}
		fr := feed(l4, l6, proto, b, 7, peer)
		t.Emit(Ev{"ev": "lh", "pl": pl, "proto": proto, "kind": kind, "res": fr.res, "n": fr.n, "msg": fr.msg})
		if fr.res == "wedged" || fr.res == "slow" {
			return
		}
	}
}

// accepted configurations for the decision tables (C14 C17)
func tableConfigs() []struct {
	pl    string
	proto int
	args  []string
} {
	type c = struct {
		pl    string
		proto int
		args  []string
	}
	return []c{
		{"netmask", 4, []string{"255.255.255.0"}}, {"netmask", 4, []string{"255.255.240.0"}}, {"netmask", 4, []string{"255.255.255.255"}},
		{"router", 4, []string{"10.0.0.1"}}, {"router", 4, []string{"10.0.0.1", "10.0.0.2", "192.168.1.254"}},
		{"dns", 4, []string{"8.8.8.8"}}, {"dns", 4, []string{"8.8.8.8", "1.1.1.1", "9.9.9.9"}},
		{"dns", 6, []string{"2001:4860:4860::8888"}}, {"dns", 6, []string{"2001:4860:4860::8888", "2606:4700:4700::1111"}},
		{"mtu", 4, []string{"1500"}}, {"mtu", 4, []string{"576"}}, {"mtu", 4, []string{"65535"}}, {"mtu", 4, []string{"9000"}},
		{"searchdomains", 4, []string{"example.org"}}, {"searchdomains", 4, []string{"a.example.org", "b.example.net", "c"}},
		{"searchdomains", 6, []string{"example.org"}}, {"searchdomains", 6, []string{"a.example.org", "corp.example.net"}},
		{"staticroute", 4, []string{"10.0.0.0/8,10.0.0.1", "10.0.0.0/24,10.0.0.2", "0.0.0.0/0,10.0.0.254", "0.0.0.0/1,10.0.0.3", "10.0.0.0/16,10.0.0.1"}},
		// lists are ordered (the first router / name server is the preferred one): configurations that are NOT in ascending order
		{"router", 4, []string{"192.168.1.254", "192.168.1.1", "192.168.1.129"}}, {"dns", 4, []string{"9.9.9.9", "1.1.1.1", "8.8.8.8", "1.1.1.1"}},
		{"dns", 6, []string{"2606:4700:4700::1111", "2001:4860:4860::8888", "2001:4860:4860::8844"}},
		{"searchdomains", 4, []string{"z.example.org", "a.example.org", "m.example.org"}}, {"searchdomains", 6, []string{"z.example.org", "a.example.org"}},
		// a search list whose encoding is longer than one option instance can hold (255 bytes): the whole list, in order
		{"searchdomains", 4, longDomains(12)}, {"searchdomains", 6, longDomains(12)}, {"searchdomains", 4, longDomains(25)},
		{"staticroute", 4, []string{"192.168.7.0/25,10.0.0.9", "10.1.0.0/16,10.0.0.1", "0.0.0.0/0,10.0.0.254"}},
		{"staticroute", 4, []string{"10.1.130.3/17,10.0.0.1"}}, {"staticroute", 4, []string{"192.168.1.77/26,10.0.0.9", "172.17.0.0/12,10.0.0.1", "10.9.8.7/16,10.0.0.2"}},
		{"server_id", 4, []string{"::ffff:192.0.2.1"}}, {"server_id", 4, []string{"0:0:0:0:0:ffff:c000:201"}},
		{"router", 4, []string{"::ffff:10.0.0.1"}}, {"dns", 4, []string{"::ffff:8.8.8.8", "1.1.1.1"}}, {"netmask", 4, []string{"::ffff:255.255.255.0"}},
		{"staticroute", 4, []string{"10.1.0.0/16,10.0.0.1"}}, {"staticroute", 4, []string{"10.1.0.0/16,10.0.0.1", "0.0.0.0/0,10.0.0.254", "192.168.7.0/25,10.0.0.9"}},
		{"lease_time", 4, []string{"3600s"}}, {"lease_time", 4, []string{"1h30m"}}, {"lease_time", 4, []string{"45s"}},
		{"ipv6only", 4, []string{}}, {"ipv6only", 4, []string{"300s"}}, {"ipv6only", 4, []string{"2h"}},
		{"autoconfigure", 4, []string{}}, {"autoconfigure", 4, []string{"0"}}, {"autoconfigure", 4, []string{"1"}}, {"autoconfigure", 4, []string{"AutoConfigure"}},
		{"autoconfigure", 4, []string{"DoNotAutoConfigure"}},
		{"nbp", 4, []string{"tftp://10.0.0.254/images/boot%20loader/gr%C3%BCb.efi"}}, {"nbp", 4, []string{"tftp://10.0.0.254/a%5Bb%5D/c%7Cd"}},
		{"nbp", 4, []string{"tftp://10.0.0.2/pxelinux.0"}}, {"nbp", 4, []string{"http://boot.example.org/ipxe.efi"}}, {"nbp", 4, []string{"https://boot.example.org/a/b?x=1"}},
		{"nbp", 6, []string{"http://[2001:db8::1]/boot.efi"}}, {"nbp", 6, []string{"tftp://[2001:db8::2]/pxe?params=root=/dev/nfs"}},
		{"sleep", 4, []string{"1ms"}}, {"sleep", 6, []string{"2ms"}},
		{"server_id", 4, []string{"10.0.0.1"}}, {"server_id", 4, []string{"192.168.255.254"}},
		{"server_id", 6, []string{"LL", "00:de:ad:be:ef:00"}}, {"server_id", 6, []string{"llt", "aa:bb:cc:dd:ee:ff"}}, {"server_id", 6, []string{"duid-ll", "02:00:00:00:00:01"}},
		{"server_id", 6, []string{"DUID_LLT", "02-00-5e-10-00-00"}},
	}
}

func argKinds(dir string) []string {
	good := filepath.Join(dir, "good-leases.txt")
	os.WriteFile(good, []byte("00:11:22:33:44:55 10.0.0.5\n"), 0o644)
	good6 := filepath.Join(dir, "good-leases6.txt")
	os.WriteFile(good6, []byte("00:11:22:33:44:55 2001:db8::5\n"), 0o644)
	bad := filepath.Join(dir, "bad-leases.txt")
	os.WriteFile(bad, []byte("00:11:22:33:44:55\n"), 0o644)
	return []string{
		"10.0.0.1", "2001:db8::1", "::ffff:10.0.0.1", "10.0.0.0/24", "2001:db8::/32", "2001:db8::/60", "2001:d00::/24", "10.0.0.200",
		"10.0.0.0/24,10.0.0.1", "2001:db8::/32,10.0.0.1", "10.0.0.0/24,2001:db8::1", "10.0.0.0/24,10.0.0.1,extra",
		"::ffff:10.0.0.0/104,192.168.1.1", "10.0.0.0/24,::ffff:10.0.0.1", "fe80::/10,10.0.0.1",
		// destinations without a length (a host? refused today), host routes, a length of zero bits on a host address (round 9)
		"192.168.7.9,192.168.1.1", "192.168.7.9/32,192.168.1.1", "::ffff:10.0.0.9,10.0.0.1", "10.0.0.9/0,10.0.0.1", "10.0.0.0/24,10.0.0.1/24",
		"30s", "-5s", "garbage", "1500", "70000", "-1", "64", "200",
		"http://boot.example/x.efi", "tftp://10.0.0.2/pxe.0", "%zz://bad url", "ll", "llt", "en", "aa:bb:cc:dd:ee:ff",
		"255.255.255.0", "255.0.255.0", "0.0.0.0", good, good6, bad, filepath.Join(dir, "missing.txt"), "", "autorefresh", "AutoConfigure",
		"example.org", strings.Repeat("x", 70) + ".example.org", "a..b", filepath.Join(dir, "leases.sqlite"),
	}
}

func runPlugins(args []string) error {
	fs := flag.NewFlagSet("plugins", flag.ContinueOnError)
	out := fs.String("out", "trace.ndjson", "trace file")
	seed := fs.Int64("seed", 1, "seed")
	mode := fs.String("mode", "table", "table | args | one")
	plug := fs.String("plugin", "", "one: plugin name")
	proto := fs.Int("proto", 4, "one: protocol")
	jargs := fs.String("args", "[]", "one: JSON list of arguments")
	reqs := fs.String("reqs", "table", "one: table | battery")
	arity := fs.Int("arity", 2, "args: argument vectors of up to this length")
	shard := fs.Int("shard", 0, "this shard")
	shards := fs.Int("shards", 1, "number of shards")
	dir := fs.String("dir", "", "scratch directory (children run here)")
	par := fs.Int("par", 12, "children running at a time")
	pairKinds := fs.Int("pairkinds", 1000, "args: pairs are built from the first N argument kinds only")
	if err := fs.Parse(args); err != nil {
		return err
	}
	t, err := NewTrace(*out)
	if err != nil {
		return err
	}
	defer t.Close()
	if *mode == "loadone" {
		var a []string
		if err := json.Unmarshal([]byte(*jargs), &a); err != nil {
			return err
		}
		runLoadOne(t, *plug, *proto, a, *seed)
		return nil
	}
	if *mode == "sidone" {
		var a []string
		if err := json.Unmarshal([]byte(*jargs), &a); err != nil {
			return err
		}
		runSidChainOne(t, *plug, *proto, a, *seed)
		return nil
	}
	if *mode == "one" {
		var a []string
		if err := json.Unmarshal([]byte(*jargs), &a); err != nil {
			return err
		}
		if a == nil {
			a = []string{}
		}
		if builtin[*plug] == nil {
			return fmt.Errorf("unknown plugin %s", *plug)
		}
		runPluginOne(t, *plug, *proto, a, *reqs, *seed)
		return nil
	}
	if *dir == "" {
		d, err := os.MkdirTemp("", "plugins")
		if err != nil {
			return err
		}
		defer os.RemoveAll(d)
		*dir = d
	}
	if err := os.MkdirAll(*dir, 0o755); err != nil {
		return err
	}
	self, err := os.Executable()
	if err != nil {
		return err
	}
	type job struct {
		pl    string
		proto int
		args  []string
		reqs  string
	}
	var jobs []job
	if *mode == "table" {
		for _, c := range tableConfigs() {
			jobs = append(jobs, job{c.pl, c.proto, c.args, "table"})
			if dualArgs[c.pl] != nil {
				jobs = append(jobs, job{c.pl, c.proto, c.args, "table-dual"})
			}
		}
	} else if *mode == "sidchain" {
		for _, c := range tableConfigs() {
			jobs = append(jobs, job{c.pl, c.proto, c.args, "sidchain"}) // (server_id itself too: the plugin listed twice)
		}
	} else {
		kinds := argKinds(*dir)
		names := []string{}
		for n := range builtin {
			names = append(names, n)
		}
		sortStrings(names)
		var vecs [][]string
		vecs = append(vecs, []string{})
		for _, k := range kinds {
			vecs = append(vecs, []string{k})
		}
		if *arity >= 2 {
			pk := kinds
			if *pairKinds < len(pk) {
				// a spread of kinds, not just the first ones
				var sel []string
				for i := 0; i < *pairKinds; i++ {
					sel = append(sel, kinds[(i*len(kinds))/(*pairKinds)])
				}
				pk = sel
			}
			for _, k1 := range pk {
				for _, k2 := range pk {
					vecs = append(vecs, []string{k1, k2})
				}
			}
		}
		// the prefix plugin's (pool, allocation length) pairs are always included
		for _, pool := range []string{"2001:db8::/32", "2001:db8::/60", "2001:d00::/24", "10.0.0.0/24", "::/0"} {
			for _, sz := range []string{"64", "56", "128", "200", "-1", "0"} {
				vecs = append(vecs, []string{pool, sz})
			}
		}
		vecs = append(vecs, []string{"2001:db8::/64", "120"}, []string{"2001:db8::/64", "072"}, []string{"2001:db8:0:100::/56", "64"})
		// valid range configurations (four arguments): small pools of sizes around the bitmap's word size are run into
		// exhaustion by the battery (every request comes from another hardware address)
		for _, rg := range [][2]string{{"10.0.0.200", "10.0.0.202"}, {"10.0.0.1", "10.0.0.2"}, {"192.168.0.250", "192.168.1.5"}, {"255.255.255.250", "255.255.255.255"},
			// the widest ranges there are: the whole IPv4 address space (2^32 addresses: one more than fits 32 bits), all but one, a /8
			{"0.0.0.0", "255.255.255.255"}, {"0.0.0.1", "255.255.255.255"}, {"10.0.0.0", "10.255.255.255"}, {"0.0.0.0", "0.0.0.3"}} {
			for _, lt := range []string{"30s", "0s", "1h"} {
				vecs = append(vecs, []string{filepath.Join(*dir, fmt.Sprintf("range-%d.sqlite", len(vecs))), rg[0], rg[1], lt})
			}
		}
		// lease databases the range plugin must refuse (or survive): a row with an IPv6 address, a row with a malformed
		// hardware address, a table of the older schema (no hostname column), a file that is not a database
		for i, mk := range []func(string){
			func(f string) {
				mkLeaseDB(f, "insert into leases4 values ('aa:bb:cc:dd:ee:ff', '2001:db8::1', 4102444800, 'h')")
			},
			func(f string) { mkLeaseDB(f, "insert into leases4 values ('zz:zz', '10.0.0.201', 4102444800, 'h')") },
			func(f string) {
				mkRawDB(f, "create table leases4 (mac string not null, ip string not null, expiry int, primary key (mac, ip))",
					"insert into leases4 values ('aa:bb:cc:dd:ee:ff', '10.0.0.201', 4102444800)", "alter table leases4 add column hostname string")
			},
			func(f string) {
				os.WriteFile(f, []byte("this is not an sqlite database, it only has the name of one\n"), 0o644)
			},
			func(f string) {
				mkLeaseDB(f, "insert into leases4 values ('aa:bb:cc:dd:ee:ff', '10.0.0.201', 4102444800, 'h')")
			}, // a good one
		} {
			f := filepath.Join(*dir, fmt.Sprintf("odd-%d.sqlite", i))
			mk(f)
			vecs = append(vecs, []string{f, "10.0.0.200", "10.0.0.202", "30s"})
		}
		if *arity >= 3 {
			r := rand.New(rand.NewSource(*seed))
			for i := 0; i < 4000; i++ {
				vecs = append(vecs, []string{kinds[r.Intn(len(kinds))], kinds[r.Intn(len(kinds))], kinds[r.Intn(len(kinds))]})
				if i%4 == 0 {
					vecs[len(vecs)-1] = append(vecs[len(vecs)-1], kinds[r.Intn(len(kinds))])
				}
			}
		}
		// through the loader: every plugin under BOTH protocols (LoadPlugins skips what a plugin does not support),
		// argument vectors of arity 0..1 plus the table's accepted ones
		for _, n := range names {
			for _, pr := range []int{4, 6} {
				for _, v := range vecs {
					if len(v) <= 1 {
						if n == "sleep" && len(v) == 1 {
							if d, err := time.ParseDuration(v[0]); err == nil && d > 50*time.Millisecond {
								v = []string{"3ms"} // a configured long delay is honoured faithfully; keep the run short
							}
						}
						jobs = append(jobs, job{n, pr, v, "loadone"})
					}
				}
			}
		}
		for _, c := range tableConfigs() {
			jobs = append(jobs, job{c.pl, c.proto, c.args, "loadone"}, job{c.pl, 10 - c.proto, c.args, "loadone"})
		}
		for _, n := range names {
			for _, pr := range []int{4, 6} {
				if (pr == 4 && builtin[n].Setup4 == nil) || (pr == 6 && builtin[n].Setup6 == nil) {
					continue
				}
				for _, v := range vecs {
					if n == "sleep" && len(v) == 1 && (v[0] == "30s") {
						v = []string{"3ms"} // a configured 30 s delay is honoured faithfully; keep the battery short
					}
					jobs = append(jobs, job{n, pr, v, "battery"})
				}
			}
		}
	}
	var mu sync.Mutex
	var wg sync.WaitGroup
	sem := make(chan struct{}, *par)
	for i, j := range jobs {
		if i%*shards != *shard {
			continue
		}
		wg.Add(1)
		sem <- struct{}{}
		go func(i int, j job) {
			defer wg.Done()
			defer func() { <-sem }()
			ja, _ := json.Marshal(j.args)
			tmp := filepath.Join(*dir, fmt.Sprintf("one-%d.ndjson", i))
			childMode := "one"
			if j.reqs == "sidchain" {
				childMode = "sidone"
			} else if j.reqs == "loadone" {
				childMode = "loadone"
			}
			cmd := exec.Command(self, "plugins", "-mode", childMode, "-plugin", j.pl, "-proto", strconv.Itoa(j.proto), "-args", string(ja),
				"-reqs", j.reqs, "-seed", strconv.FormatInt(*seed*100003+int64(i), 10), "-out", tmp)
			cmd.Dir = *dir
			var stderr bytes.Buffer
			cmd.Stderr = &stderr
			err := cmd.Run()
			lines, _ := ReadTrace(tmp)
			os.Remove(tmp)
			mu.Lock()
			for _, e := range lines {
				delete(e, "seq")
				t.Emit(e)
			}
			if err != nil {
				// the child died: a crash of the code under test that recover() could not catch
				phase := "setup"
				if len(lines) > 0 {
					phase = "handle"
				}
				t.Emit(Ev{"ev": "crash", "pl": j.pl, "proto": j.proto, "args": j.args, "phase": phase,
					"oom": strings.Contains(stderr.String(), "out of memory"), "what": lastLines(stderr.String(), 6)})
			}
			mu.Unlock()
		}(i, j)
	}
	wg.Wait()
	return nil
}

func mkRawDB(file string, stmts ...string) {
	os.Remove(file)
	db, err := sql.Open("sqlite3", "file:"+file)
	if err != nil {
		return
	}
	defer db.Close()
	for _, st := range stmts {
		db.Exec(st)
	}
}

func mkLeaseDB(file string, stmts ...string) {
	mkRawDB(file, append([]string{"create table if not exists leases4 (mac string not null, ip string not null, expiry int, hostname string not null, primary key (mac, ip))"}, stmts...)...)
}

func lastLines(s string, n int) string {
	ls := strings.Split(strings.TrimSpace(s), "\n")
	if len(ls) > n {
		ls = ls[:n]
	}
	return strings.Join(ls, " | ")
}

func sortStrings(a []string) {
	for i := 1; i < len(a); i++ {
		for j := i; j > 0 && a[j] < a[j-1]; j-- {
			a[j], a[j-1] = a[j-1], a[j]
		}
	}
}
