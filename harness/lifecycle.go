package main

// Family lifecycle (spec/Lifecycle.tla; not a listed property): the real server.Start / Serve / Wait /
// Close with real UDP sockets on loopback and NO capture hooks: a DISCOVER relayed from 127.0.0.1:67 and a
// SOLICIT from [::1] are answered over the wire; a failing listen address makes Start clean up; after
// Close the ports are free and Wait returns.

import (
	"flag"
	"fmt"
	"math/rand"
	"net"
	"os"
	"os/exec"
	"sync"
	"sync/atomic"
	"syscall"
	"time"
	"unsafe"

	"github.com/coredhcp/coredhcp/config"
	"github.com/coredhcp/coredhcp/handler"
	"github.com/coredhcp/coredhcp/plugins"
	"github.com/coredhcp/coredhcp/server"
	"github.com/insomniacslk/dhcp/dhcpv4"
	"github.com/insomniacslk/dhcp/dhcpv6"
	"golang.org/x/net/ipv4"
)

func init() { families["lifecycle"] = runLifecycle }

func portBusy(a net.UDPAddr) bool {
	network := "udp4"
	if a.IP.To4() == nil {
		network = "udp6"
	}
	c, err := net.ListenUDP(network, &net.UDPAddr{IP: a.IP, Port: a.Port})
	if err != nil {
		return true
	}
	c.Close()
	return false
}

func runLifecycle(args []string) error {
	fs := flag.NewFlagSet("lifecycle", flag.ContinueOnError)
	out := fs.String("out", "trace.ndjson", "trace file")
	seed := fs.Int64("seed", 1, "seed")
	mode := fs.String("mode", "life", "life | startrace")
	if err := fs.Parse(args); err != nil {
		return err
	}
	t, err := NewTrace(*out)
	if err != nil {
		return err
	}
	defer t.Close()
	registerBuiltin()
	server.VerifSend4Hook, server.VerifSend6Hook, server.VerifFrameHook, server.VerifBufPutHook = nil, nil, nil, nil
	if *mode == "startrace" {
		runStartRace(t, *seed)
		return nil
	}
	if *mode == "pinning" {
		runPinning(t, *seed)
		return nil
	}
	r := rand.New(rand.NewSource(*seed))
	relay, rerr := net.ListenUDP("udp4", &net.UDPAddr{IP: net.IPv4(127, 0, 0, 1), Port: 67})
	if rerr != nil {
		t.Emit(Ev{"ev": "note", "what": "no relay socket on 127.0.0.1:67, DHCPv4 round trips skipped: " + rerr.Error()})
	} else {
		defer relay.Close()
	}
	base := 20000 + (r.Intn(20000)+os.Getpid()*131)%20000 // concurrent runs of this harness must not collide
	k := 0
	for n := 1; n <= 3; n++ {
		for failat := 0; failat <= n; failat++ {
			for rep := 0; rep < 2; rep++ {
				k++
				var a4, a6 []net.UDPAddr
				var all []net.UDPAddr
				protoOf := []int{}
				for i := 1; i <= n; i++ {
					port := base + k*8 + i
					v6 := (i+rep)%2 == 0
					ip := net.IPv4(127, 0, 0, 1).To4()
					if v6 {
						ip = net.ParseIP("::1")
					}
					if i == failat { // an address this host does not have: bind fails
						ip = net.IPv4(10, 254, 254, 254).To4()
						if v6 {
							ip = net.ParseIP("2001:db8:dead::1")
						}
					}
					a := net.UDPAddr{IP: ip, Port: port}
					all = append(all, a)
					if v6 {
						a6 = append(a6, a)
						protoOf = append(protoOf, 6)
					} else {
						a4 = append(a4, a)
						protoOf = append(protoOf, 4)
					}
				}
				// Start opens all DHCPv6 listeners first, then the DHCPv4 ones: the abstract position of the
				// failing address is its position in that order
				conf := &config.Config{}
				if len(a6) > 0 {
					conf.Server6 = &config.ServerConfig{Addresses: a6, Plugins: []config.PluginConfig{{Name: "server_id", Args: []string{"LL", "00:de:ad:be:ef:00"}}}}
				}
				if len(a4) > 0 {
					conf.Server4 = &config.ServerConfig{Addresses: a4, Plugins: []config.PluginConfig{{Name: "server_id", Args: []string{"127.0.0.1"}}}}
				}
				srv, err := server.Start(conf)
				res := "ok"
				if err != nil {
					res = "err"
				}
				t.Emit(Ev{"ev": "lstart", "n": n, "failat": failat, "res": res, "msg": fmt.Sprint(err)})
				busy := func() []bool {
					b := []bool{}
					for i, a := range all {
						if i+1 == failat {
							continue // never a local address
						}
						b = append(b, portBusy(a))
					}
					return b
				}
				if err != nil {
					time.Sleep(20 * time.Millisecond)
					t.Emit(Ev{"ev": "ports", "when": "after-fail", "busy": busy()})
					continue
				}
				t.Emit(Ev{"ev": "ports", "when": "after-start", "busy": busy()})
				buf := make([]byte, 65536)
				// one request/reply exchange with listener i over the wire; replies to earlier requests are skipped
				roundTrip := func(i int, a net.UDPAddr, tag byte) (Ev, bool) {
					if protoOf[i] == 4 {
						if relay == nil {
							return nil, false
						}
						d, _ := dhcpv4.NewDiscovery(net.HardwareAddr{2, 0, tag, byte(k), byte(i), 1})
						d.GatewayIPAddr = net.IPv4(127, 0, 0, 1).To4()
						relay.WriteToUDP(d.ToBytes(), &a)
						deadline := time.Now().Add(3 * time.Second)
						relay.SetReadDeadline(deadline)
						e := Ev{"i": i + 1, "proto": 4, "res": "timeout", "type": -1, "xidok": false}
						for time.Now().Before(deadline) {
							m, _, err := relay.ReadFromUDP(buf)
							if err != nil {
								break
							}
							if rp, err := dhcpv4.FromBytes(buf[:m]); err == nil && rp.TransactionID == d.TransactionID {
								e["res"], e["type"], e["xidok"] = "reply", int(rp.MessageType()), true
								break
							}
						}
						return e, true
					}
					c6, err := net.ListenUDP("udp6", &net.UDPAddr{IP: net.ParseIP("::1")})
					if err != nil {
						return nil, false
					}
					defer c6.Close()
					m, _ := dhcpv6.NewSolicit(net.HardwareAddr{2, 0, tag, byte(k), byte(i), 1})
					c6.WriteToUDP(m.ToBytes(), &a)
					c6.SetReadDeadline(time.Now().Add(3 * time.Second))
					e := Ev{"i": i + 1, "proto": 6, "res": "timeout", "type": -1, "xidok": false}
					if nn, _, err := c6.ReadFromUDP(buf); err == nil {
						if rp, err := dhcpv6.FromBytes(buf[:nn]); err == nil {
							if rm, ok := rp.(*dhcpv6.Message); ok {
								e["res"], e["type"], e["xidok"] = "reply", int(rm.MessageType), rm.TransactionID == m.TransactionID
							}
						}
					}
					return e, true
				}
				for i, a := range all {
					if e, ok := roundTrip(i, a, 0); ok {
						e["ev"] = "rt"
						t.Emit(e)
					}
				}
				deadL := map[int]bool{}
				// byte strings of every length arrive on the real sockets - the empty datagram included, which only a
				// socket can deliver (a 0-byte read is a datagram on UDP, not end of stream); the listener must still
				// be serving afterwards
				for i, a := range all {
					var src *net.UDPConn
					if protoOf[i] == 4 {
						src = relay
					} else {
						src, _ = net.ListenUDP("udp6", &net.UDPAddr{IP: net.ParseIP("::1")})
					}
					if src == nil {
						continue
					}
					for ki, kind := range []string{"empty", "one-byte", "truncated", "junk", "large", "empty-twice"} {
						var b []byte
						switch kind {
						case "one-byte":
							b = []byte{byte(1 + r.Intn(2))}
						case "truncated":
							if protoOf[i] == 4 {
								d, _ := dhcpv4.NewDiscovery(net.HardwareAddr{2, 0, 0, 0, 0, 1})
								b = d.ToBytes()
							} else {
								m, _ := dhcpv6.NewSolicit(net.HardwareAddr{2, 0, 0, 0, 0, 1})
								b = m.ToBytes()
							}
							b = b[:1+r.Intn(len(b)-1)]
						case "junk":
							b = make([]byte, 1+r.Intn(600))
							r.Read(b)
						case "large":
							b = make([]byte, 60000)
							r.Read(b)
						}
						src.WriteToUDP(b, &a)
						if kind == "empty-twice" {
							src.WriteToUDP(b, &a)
						}
						if e, ok := roundTrip(i, a, byte(1+ki)); ok {
							e["ev"], e["kind"], e["len"] = "dgs", kind, len(b)
							t.Emit(e)
							if e["res"] != "reply" {
								deadL[i] = true // this listener no longer answers: recorded; nothing more to learn from it
								break
							}
						}
					}
					if protoOf[i] != 4 {
						src.Close()
					}
				}
				// a burst: many clients send at the same instant; each gets exactly the answer to ITS request, at ITS address
				// (what the receive loop hands to a handler goroutine belongs to that datagram alone)
				for i, a := range all {
					const nb = 24
					if deadL[i] {
						continue
					}
					if protoOf[i] == 6 {
						socks := make([]*net.UDPConn, 0, nb)
						xids := make([]dhcpv6.TransactionID, 0, nb)
						for j := 0; j < nb; j++ {
							c, err := net.ListenUDP("udp6", &net.UDPAddr{IP: net.ParseIP("::1")})
							if err != nil {
								break
							}
							socks = append(socks, c)
						}
						msgs := make([][]byte, len(socks))
						for j := range socks {
							m, _ := dhcpv6.NewSolicit(net.HardwareAddr{2, 0, 0x77, byte(k), byte(i), byte(j)})
							xids = append(xids, m.TransactionID)
							msgs[j] = m.ToBytes()
						}
						for j, c := range socks {
							c.WriteToUDP(msgs[j], &a)
						}
						own, stray, missing := 0, 0, 0
						got := make([]int, len(socks))
						read := func(j int, wait time.Duration) {
							c := socks[j]
							c.SetReadDeadline(time.Now().Add(wait))
							for {
								nn, _, err := c.ReadFromUDP(buf)
								if err != nil {
									return
								}
								rp, err := dhcpv6.FromBytes(buf[:nn])
								rm, ok := rp.(*dhcpv6.Message)
								if err == nil && ok && rm.TransactionID == xids[j] {
									got[j]++
								} else {
									stray++
								}
								if wait > 10*time.Millisecond {
									return // the first answer; extras are collected in the second pass
								}
							}
						}
						misses := 0
						for j := range socks {
							w := 3 * time.Second
							if misses >= 2 {
								w = 100 * time.Millisecond // not answering: do not wait 3 s for every client
							}
							read(j, w)
							if got[j] == 0 {
								misses++
							}
						}
						time.Sleep(100 * time.Millisecond)
						for j := range socks {
							read(j, 2*time.Millisecond)
						}
						for j, c := range socks {
							switch {
							case got[j] == 1:
								own++
							case got[j] == 0:
								missing++
							default:
								stray += got[j] - 1
							}
							c.Close()
						}
						t.Emit(Ev{"ev": "burst", "i": i + 1, "proto": 6, "n": len(socks), "own": own, "stray": stray, "missing": missing})
					} else if relay != nil {
						want := map[dhcpv4.TransactionID]net.HardwareAddr{}
						var msgs [][]byte
						for j := 0; j < nb; j++ {
							mac := net.HardwareAddr{2, 0, 0x77, byte(k), byte(i), byte(j)}
							d, _ := dhcpv4.NewDiscovery(mac)
							d.GatewayIPAddr = net.IPv4(127, 0, 0, 1).To4()
							if j%2 == 1 { // alternating lengths: a datagram handled with its neighbour's length would be cut or padded
								d.UpdateOption(dhcpv4.OptHostName(fmt.Sprintf("a-rather-long-host-name-to-make-this-datagram-longer-%04d", j)))
							}
							want[d.TransactionID] = mac
							msgs = append(msgs, d.ToBytes())
						}
						for _, b := range msgs {
							relay.WriteToUDP(b, &a)
						}
						own, stray := 0, 0
						seen := map[dhcpv4.TransactionID]bool{}
						relay.SetReadDeadline(time.Now().Add(3 * time.Second))
						for len(seen) < nb {
							nn, _, err := relay.ReadFromUDP(buf)
							if err != nil {
								break
							}
							rp, err := dhcpv4.FromBytes(buf[:nn])
							if err != nil {
								stray++
								continue
							}
							mac, ok := want[rp.TransactionID]
							if ok && !seen[rp.TransactionID] && rp.ClientHWAddr.String() == mac.String() {
								seen[rp.TransactionID] = true
								own++
							} else {
								stray++
							}
						}
						t.Emit(Ev{"ev": "burst", "i": i + 1, "proto": 4, "n": nb, "own": own, "stray": stray, "missing": nb - own})
					}
				}
				done := make(chan error, 1)
				go func() { done <- srv.Wait() }()
				time.Sleep(20 * time.Millisecond)
				srv.Close()
				select {
				case <-done:
					t.Emit(Ev{"ev": "wait", "res": "returned"})
				case <-time.After(10 * time.Second):
					t.Emit(Ev{"ev": "wait", "res": "timeout"})
				}
				t.Emit(Ev{"ev": "ports", "when": "after-close", "busy": busy()})
			}
		}
	}
	_ = syscall.EADDRINUSE
	return nil
}

// ---- start-up order (C13): no datagram is handled before - or without - the configured chain -------------
//
// A synthetic plugin whose setup takes 300 ms (and, for the second configuration, then fails) is followed by
// dns; while server.Start runs, a client sends a SOLICIT to the configured address every 2 ms. Whatever comes
// back must have gone through the whole chain (it carries the DNS option); a configuration whose setup fails
// must not have answered anything. With the code's order (LoadPlugins, then listen) nothing listens during the
// window and the early SOLICITs are simply lost.

var slowOnce sync.Once

func registerSlow() {
	slowOnce.Do(func() {
		plugins.RegisterPlugin(&plugins.Plugin{Name: "syn_slow",
			Setup6: func(args ...string) (handler.Handler6, error) {
				time.Sleep(300 * time.Millisecond)
				if len(args) > 0 && args[0] == "fail" {
					return nil, fmt.Errorf("syn_slow: setup refused")
				}
				return func(req, resp dhcpv6.DHCPv6) (dhcpv6.DHCPv6, bool) { return resp, false }, nil
			}})
	})
}

func runStartRace(t *Trace, seed int64) {
	registerSlow()
	r := rand.New(rand.NewSource(seed))
	// (a) a section without listeners is still a section: an unknown plugin or a failing set-up in it aborts start-up
	for ci, bad := range []config.PluginConfig{{Name: "no_such_plugin"}, {Name: "server_id", Args: []string{"not-an-address"}}} {
		port := 20000 + (r.Intn(20000)+os.Getpid()*131+ci*29+9000)%20000
		conf := &config.Config{
			Server6: &config.ServerConfig{Addresses: []net.UDPAddr{{IP: net.ParseIP("::1"), Port: port}}, Plugins: []config.PluginConfig{{Name: "server_id", Args: []string{"LL", "00:de:ad:be:ef:00"}}}},
			Server4: &config.ServerConfig{Addresses: []net.UDPAddr{}, Plugins: []config.PluginConfig{{Name: "server_id", Args: []string{"10.0.0.1"}}, bad}},
		}
		srv, err := server.Start(conf)
		res := "err"
		if err == nil {
			res = "ok"
			srv.Close()
			done := make(chan error, 1)
			go func() { done <- srv.Wait() }()
			select {
			case <-done:
			case <-time.After(5 * time.Second):
			}
		}
		t.Emit(Ev{"ev": "startcfg", "case": "no-listeners-bad-plugin", "bad": bad.Name, "res": res})
	}
	// (b) a chain that takes longer than two seconds still gets its answer onto the wire (what is sent is the response returned last)
	{
		port := 20000 + (r.Intn(20000)+os.Getpid()*131+7777)%20000
		addr := net.UDPAddr{IP: net.ParseIP("::1"), Port: port}
		conf := &config.Config{Server6: &config.ServerConfig{Addresses: []net.UDPAddr{addr}, Plugins: []config.PluginConfig{
			{Name: "sleep", Args: []string{"2300ms"}}, {Name: "server_id", Args: []string{"LL", "00:de:ad:be:ef:00"}}}}}
		srv, err := server.Start(conf)
		e := Ev{"ev": "slowchain", "delay_ms": 2300, "res": "start-failed"}
		if err == nil {
			e["res"] = "timeout"
			if c6, err := net.ListenUDP("udp6", &net.UDPAddr{IP: net.ParseIP("::1")}); err == nil {
				m, _ := dhcpv6.NewSolicit(net.HardwareAddr{2, 0, 9, 9, 9, 9})
				c6.WriteToUDP(m.ToBytes(), &addr)
				c6.SetReadDeadline(time.Now().Add(7 * time.Second))
				buf := make([]byte, 4096)
				if n, _, err := c6.ReadFromUDP(buf); err == nil {
					if rp, err := dhcpv6.FromBytes(buf[:n]); err == nil {
						if rm, ok := rp.(*dhcpv6.Message); ok && rm.TransactionID == m.TransactionID {
							e["res"] = "reply"
						}
					}
				}
				c6.Close()
			}
			srv.Close()
			done := make(chan error, 1)
			go func() { done <- srv.Wait() }()
			select {
			case <-done:
			case <-time.After(5 * time.Second):
			}
		}
		t.Emit(e)
	}
	for round, cfg := range []string{"ok", "fail", "ok", "fail"} {
		port := 20000 + (r.Intn(20000)+os.Getpid()*131+round*17+4000)%20000
		addr := net.UDPAddr{IP: net.ParseIP("::1"), Port: port}
		conf := &config.Config{Server6: &config.ServerConfig{Addresses: []net.UDPAddr{addr}, Plugins: []config.PluginConfig{
			{Name: "server_id", Args: []string{"LL", "00:de:ad:be:ef:00"}}, {Name: "syn_slow", Args: []string{cfg}}, {Name: "dns", Args: []string{"2001:4860:4860::8888"}}}}}
		c6, err := net.ListenUDP("udp6", &net.UDPAddr{IP: net.ParseIP("::1")})
		if err != nil {
			t.Emit(Ev{"ev": "note", "what": "no client socket on ::1: " + err.Error()})
			return
		}
		stop := make(chan struct{})
		var wg sync.WaitGroup
		var sent int32
		wg.Add(1)
		go func() { // the client: a SOLICIT that asks for DNS every 2 ms, from before Start until well after it returned
			defer wg.Done()
			for i := 0; ; i++ {
				select {
				case <-stop:
					return
				default:
				}
				m, _ := dhcpv6.NewSolicit(net.HardwareAddr{2, 0, 9, byte(round), byte(i >> 8), byte(i)})
				m.AddOption(dhcpv6.OptRequestedOption(dhcpv6.OptionDNSRecursiveNameServer))
				c6.WriteToUDP(m.ToBytes(), &addr)
				atomic.AddInt32(&sent, 1)
				time.Sleep(2 * time.Millisecond)
			}
		}()
		replies, bare := 0, 0
		rdone := make(chan struct{})
		go func() {
			defer close(rdone)
			buf := make([]byte, 4096)
			for {
				n, _, err := c6.ReadFromUDP(buf)
				if err != nil {
					return
				}
				replies++
				p, err := dhcpv6.FromBytes(buf[:n])
				if err != nil {
					bare++
					continue
				}
				if m, err := p.GetInnerMessage(); err != nil || len(m.Options.DNS()) == 0 {
					bare++ // a reply the configured chain did not produce
				}
			}
		}()
		time.Sleep(20 * time.Millisecond)
		srv, serr := server.Start(conf)
		time.Sleep(150 * time.Millisecond)
		close(stop)
		wg.Wait()
		time.Sleep(100 * time.Millisecond)
		c6.SetReadDeadline(time.Now())
		<-rdone
		c6.Close()
		res := "ok"
		if serr != nil {
			res = "err"
		} else {
			srv.Close()
			done := make(chan error, 1)
			go func() { done <- srv.Wait() }()
			select {
			case <-done:
			case <-time.After(10 * time.Second):
			}
		}
		t.Emit(Ev{"ev": "startrace", "cfg": cfg, "res": res, "sent": int(atomic.LoadInt32(&sent)), "replies": replies, "bare": bare})
	}
}

// runPinning: C15 on the real server.Start: a listener configured with a plain unicast address of this host (no %zone) is not
// bound to an interface, so a broadcast reply leaves on the interface the request ARRIVED on - which for a datagram sent from
// this host is the loopback interface, whichever interface carries the listen address.  What would be written is captured by
// VerifSend4Hook on the listener Start created; the arrival interface is learned independently from a probe socket.
func runPinning(t *Trace, seed int64) {
	r := rand.New(rand.NewSource(seed))
	type own struct {
		ip      net.IP
		ifindex int
		name    string
	}
	var owns []own
	ifs, _ := net.Interfaces()
	for _, x := range ifs {
		as, _ := x.Addrs()
		for _, a := range as {
			if n, ok := a.(*net.IPNet); ok && n.IP.To4() != nil && x.Flags&net.FlagUp != 0 {
				owns = append(owns, own{n.IP.To4(), x.Index, x.Name})
			}
		}
	}
	var mu sync.Mutex
	var got []server.VerifSent4
	server.VerifSend4Hook = func(s server.VerifSent4) bool {
		mu.Lock()
		got = append(got, s)
		mu.Unlock()
		return true // captured; nothing is written
	}
	defer func() { server.VerifSend4Hook = nil }()
	for k, o := range owns {
		port := 20000 + (r.Intn(20000)+os.Getpid()*131+k*23+12000)%20000
		// where does a datagram this host sends to o.ip arrive?
		arrived := 0
		if pc, err := net.ListenPacket("udp4", fmt.Sprintf("%s:%d", o.ip, port+1)); err == nil {
			p4 := ipv4.NewPacketConn(pc)
			p4.SetControlMessage(ipv4.FlagInterface, true)
			if c, err := net.DialUDP("udp4", nil, &net.UDPAddr{IP: o.ip, Port: port + 1}); err == nil {
				c.Write([]byte("probe"))
				pc.SetReadDeadline(time.Now().Add(2 * time.Second))
				buf := make([]byte, 64)
				if _, cm, _, err := p4.ReadFrom(buf); err == nil && cm != nil {
					arrived = cm.IfIndex
				}
				c.Close()
			}
			pc.Close()
		}
		if arrived == 0 {
			t.Emit(Ev{"ev": "note", "what": "pinning: arrival interface of " + o.ip.String() + " not learned, skipped"})
			continue
		}
		addr := net.UDPAddr{IP: o.ip, Port: port}
		conf := &config.Config{Server4: &config.ServerConfig{Addresses: []net.UDPAddr{addr}, Plugins: []config.PluginConfig{{Name: "server_id", Args: []string{o.ip.String()}}}}}
		srv, err := server.Start(conf)
		if err != nil {
			t.Emit(Ev{"ev": "note", "what": "pinning: Start on " + addr.String() + " failed: " + err.Error()})
			continue
		}
		for i, bflag := range []bool{true, true, false} {
			mu.Lock()
			got = nil
			mu.Unlock()
			mt := dhcpv4.MessageTypeDiscover
			mods := []dhcpv4.Modifier{dhcpv4.WithMessageType(mt)}
			if bflag {
				mods = append(mods, dhcpv4.WithBroadcast(true))
			}
			m, _ := dhcpv4.New(mods...)
			m.ClientHWAddr = net.HardwareAddr{2, 0, 7, 7, byte(k), byte(i)}
			e := Ev{"ev": "pin4", "listen": o.name, "listenif": o.ifindex, "arrived": arrived, "bflag": bflag, "sent": false, "woob": false, "ifindex": 0, "pbc": false, "l2": false}
			if c, err := net.DialUDP("udp4", nil, &addr); err == nil {
				c.Write(m.ToBytes())
				c.Close()
			}
			for w := 0; w < 100; w++ {
				mu.Lock()
				n := len(got)
				mu.Unlock()
				if n > 0 {
					break
				}
				time.Sleep(20 * time.Millisecond)
			}
			mu.Lock()
			if len(got) > 0 && got[0].Resp != nil {
				s := got[0]
				e["sent"] = true
				e["l2"] = s.L2
				if s.Peer != nil {
					e["pbc"] = s.Peer.IP.Equal(net.IPv4bcast)
				}
				if s.Woob != nil {
					e["woob"], e["ifindex"] = true, s.Woob.IfIndex
				}
			}
			mu.Unlock()
			t.Emit(e)
		}
		// ... and a request that really ARRIVES on another interface than the one that carries the listen address: an IP packet
		// written into a tun device of this run (weak host model: the kernel delivers it to the socket on o.ip)
		if !o.ip.IsLoopback() {
			if tun, tunIdx, src, cleanup := openTun(k); tun != nil {
				mu.Lock()
				got = nil
				mu.Unlock()
				m, _ := dhcpv4.New(dhcpv4.WithMessageType(dhcpv4.MessageTypeDiscover), dhcpv4.WithBroadcast(true))
				m.ClientHWAddr = net.HardwareAddr{2, 0, 7, 8, byte(k), 1}
				tun.Write(udpPacket4(src, o.ip, 68, uint16(port), m.ToBytes()))
				e := Ev{"ev": "pin4", "listen": o.name, "listenif": o.ifindex, "arrived": tunIdx, "bflag": true, "sent": false, "woob": false, "ifindex": 0, "pbc": false, "l2": false, "via": "tun"}
				for w := 0; w < 100; w++ {
					mu.Lock()
					n := len(got)
					mu.Unlock()
					if n > 0 {
						break
					}
					time.Sleep(20 * time.Millisecond)
				}
				mu.Lock()
				if len(got) > 0 && got[0].Resp != nil {
					s := got[0]
					e["sent"], e["l2"] = true, s.L2
					if s.Peer != nil {
						e["pbc"] = s.Peer.IP.Equal(net.IPv4bcast)
					}
					if s.Woob != nil {
						e["woob"], e["ifindex"] = true, s.Woob.IfIndex
					}
				}
				mu.Unlock()
				t.Emit(e)
				cleanup()
			} else {
				t.Emit(Ev{"ev": "note", "what": "pinning: no tun device in this sandbox, arrival on another interface not exercised"})
			}
		}
		srv.Close()
		done := make(chan error, 1)
		go func() { done <- srv.Wait() }()
		select {
		case <-done:
		case <-time.After(5 * time.Second):
		}
	}
}

// openTun creates a tun device for this run (it disappears when the descriptor is closed), gives it 10.77.<k>.1/24 and brings it up;
// returns the device, its interface index and a source address on its subnet.
func openTun(k int) (*os.File, int, net.IP, func()) {
	fd, err := syscall.Open("/dev/net/tun", syscall.O_RDWR, 0)
	if err != nil {
		return nil, 0, nil, nil
	}
	name := fmt.Sprintf("vfp%d", os.Getpid()%100000)
	var ifr [40]byte
	copy(ifr[:15], name)
	ifr[16], ifr[17] = 0x01, 0x10 // IFF_TUN | IFF_NO_PI
	if _, _, e := syscall.Syscall(syscall.SYS_IOCTL, uintptr(fd), 0x400454ca /* TUNSETIFF */, uintptr(unsafe.Pointer(&ifr[0]))); e != 0 {
		syscall.Close(fd)
		return nil, 0, nil, nil
	}
	f := os.NewFile(uintptr(fd), "tun")
	sub := 100 + k%100
	if exec.Command("ip", "addr", "add", fmt.Sprintf("10.77.%d.1/24", sub), "dev", name).Run() != nil || exec.Command("ip", "link", "set", name, "up").Run() != nil {
		f.Close()
		return nil, 0, nil, nil
	}
	exec.Command("sysctl", "-q", "-w", "net.ipv4.conf."+name+".rp_filter=0").Run()
	x, err := net.InterfaceByName(name)
	if err != nil {
		f.Close()
		return nil, 0, nil, nil
	}
	return f, x.Index, net.IPv4(10, 77, byte(sub), 2).To4(), func() { f.Close() }
}

// udpPacket4: an IPv4 packet with a UDP datagram (no UDP checksum: optional over IPv4)
func udpPacket4(src, dst net.IP, sport, dport uint16, payload []byte) []byte {
	ulen := 8 + len(payload)
	p := make([]byte, 20+ulen)
	p[0], p[8], p[9] = 0x45, 64, 17
	p[2], p[3] = byte((20+ulen)>>8), byte(20+ulen)
	copy(p[12:16], src.To4())
	copy(p[16:20], dst.To4())
	var sum uint32
	for i := 0; i < 20; i += 2 {
		sum += uint32(p[i])<<8 | uint32(p[i+1])
	}
	for sum>>16 != 0 {
		sum = sum&0xffff + sum>>16
	}
	p[10], p[11] = byte(^sum>>8), byte(^sum)
	p[20], p[21], p[22], p[23] = byte(sport>>8), byte(sport), byte(dport>>8), byte(dport)
	p[24], p[25] = byte(ulen>>8), byte(ulen)
	copy(p[28:], payload)
	return p
}
