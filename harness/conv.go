package main

// Family conv (spec/Conv.tla, ConvCore.tla, ConvTrace.tla): whole DHCPv4 chains of the real built-in
// plugins, loaded by plugins.LoadPlugins and driven through HandleMsg4, answer conversations of a few
// clients (DISCOVER / REQUEST with none, this or another server named / DECLINE / RELEASE / INFORM).
// What comes back - sent or not, OFFER or ACK, yiaddr as an index of the dynamic range or the listed
// static address, which lease time, which options - is recorded per message; TLC replays ConvCore!HandleP
// with the configuration read from the recording.

import (
	"bytes"
	"encoding/json"
	"flag"
	"fmt"
	"math/rand"
	"net"
	"os"
	"path/filepath"
	"strconv"
	"time"

	"github.com/coredhcp/coredhcp/config"
	"github.com/coredhcp/coredhcp/plugins"
	"github.com/coredhcp/coredhcp/server"
	"github.com/insomniacslk/dhcp/dhcpv4"
	"github.com/insomniacslk/dhcp/dhcpv6"
)

func init() { families["conv"] = runConv }

type convChain struct {
	name   string
	chain  []string
	static string // "outside" | "inside" | "none": where client c1's listed address lies
}

func convChains() []convChain {
	return []convChain{
		{"typical", []string{"lease_time", "server_id", "dns", "router", "netmask", "file", "range"}, "outside"},
		{"rangefirst", []string{"server_id", "range", "file", "dns", "lease_time"}, "outside"},
		{"filefirst", []string{"file", "dns", "range", "lease_time", "router"}, "outside"},
		{"filebeforesid", []string{"file", "server_id", "range", "lease_time"}, "outside"},
		{"nolease", []string{"server_id", "dns", "file"}, "outside"},
		{"nostatic", []string{"lease_time", "server_id", "dns", "router", "netmask", "file", "range"}, "none"},
		{"staticinside", []string{"lease_time", "server_id", "dns", "file", "range"}, "inside"},
		{"leaseafter", []string{"server_id", "range", "lease_time", "netmask"}, "none"},
	}
}

var convMacs = map[string]net.HardwareAddr{"c1": {2, 0, 0, 0, 0xc0, 1}, "c2": {2, 0, 0, 0, 0xc0, 2}, "c3": {2, 0, 0, 0, 0xc0, 3}}

const (
	convN         = 2
	convRangeLo   = "10.0.0.100"
	convRangeHi   = "10.0.0.101"
	convOutside   = "10.0.9.9"
	convSid       = "10.0.0.1"
	convRangeTime = 60
	convDefault   = 1800
)

type convLetter struct {
	c, mt, sid string
	want       string // "" (drawn at random) | none | told50 | wrong50 | toldci | wrongci: the address the client says it wants / uses
}

func convAlphabet(reduced bool) []convLetter {
	var a []convLetter
	for _, c := range []string{"c1", "c2", "c3"} {
		for _, mt := range []string{"discover", "request"} {
			for _, sid := range []string{"none", "own", "other"} {
				if reduced && mt == "discover" && sid != "none" {
					continue
				}
				a = append(a, convLetter{c, mt, sid, ""})
			}
		}
		a = append(a, convLetter{c, "release", "none", ""})
		if !reduced {
			a = append(a, convLetter{c, "decline", "none", ""}, convLetter{c, "inform", "none", ""})
		}
	}
	return a
}

func runConvScenario(t *Trace, dir string, id int, cc convChain, letters []convLetter, r *rand.Rand) error {
	d := filepath.Join(dir, fmt.Sprintf("conv-%d", id))
	os.MkdirAll(d, 0o755)
	defer os.RemoveAll(d)
	staticIP := ""
	statics := []Ev{}
	switch cc.static {
	case "outside":
		staticIP = convOutside
		statics = append(statics, Ev{"c": "c1", "a": convN + 1})
	case "inside":
		staticIP = convRangeLo
		statics = append(statics, Ev{"c": "c1", "a": 1})
	}
	leases := filepath.Join(d, "leases4.txt")
	body := "# static leases\n"
	if staticIP != "" {
		body += convMacs["c1"].String() + " " + staticIP + "\n"
	}
	os.WriteFile(leases, []byte(body), 0o644)
	sc := &config.ServerConfig{}
	for _, p := range cc.chain {
		var args []string
		switch p {
		case "server_id":
			args = []string{convSid}
		case "file":
			args = []string{leases}
		case "range":
			args = []string{filepath.Join(d, "leases.sqlite"), convRangeLo, convRangeHi, strconv.Itoa(convRangeTime) + "s"}
		case "lease_time":
			args = []string{strconv.Itoa(convDefault) + "s"}
		case "dns":
			args = []string{"8.8.8.8"}
		case "router":
			args = []string{"10.0.0.254"}
		case "netmask":
			args = []string{"255.255.255.0"}
		}
		sc.Plugins = append(sc.Plugins, config.PluginConfig{Name: p, Args: args})
	}
	h4, _, err := plugins.LoadPlugins(&config.Config{Server4: sc})
	if err != nil {
		return fmt.Errorf("LoadPlugins(%v): %v", cc.chain, err)
	}
	t.Emit(Ev{"ev": "creset", "name": cc.name, "chain": cc.chain, "N": convN, "static": statics})
	l4 := server.NewVerifListener4(h4, net.Interface{Index: boundIndex()})
	lo := net.ParseIP(convRangeLo).To4()
	toldIP := map[string]net.IP{}
	for _, le := range letters {
		req, _ := dhcpv4.New()
		r.Read(req.TransactionID[:])
		req.ClientHWAddr = convMacs[le.c]
		mt := map[string]dhcpv4.MessageType{"discover": dhcpv4.MessageTypeDiscover, "request": dhcpv4.MessageTypeRequest, "decline": dhcpv4.MessageTypeDecline,
			"release": dhcpv4.MessageTypeRelease, "inform": dhcpv4.MessageTypeInform}[le.mt]
		req.UpdateOption(dhcpv4.OptMessageType(mt))
		switch le.sid {
		case "own":
			req.UpdateOption(dhcpv4.OptServerIdentifier(net.ParseIP(convSid)))
		case "other":
			req.UpdateOption(dhcpv4.OptServerIdentifier(net.IPv4(10, 0, 0, 77)))
		}
		if r.Intn(2) == 0 {
			req.SetBroadcast()
		}
		// what a client may add: the address it wants (option 50) or already uses (ciaddr) - the one it was told, or another
		want := le.want
		if want == "" {
			want = []string{"told50", "wrong50", "toldci", "wrongci", "none", "none"}[r.Intn(6)]
		}
		switch want {
		case "told50":
			if ip, ok := toldIP[le.c]; ok {
				req.UpdateOption(dhcpv4.OptRequestedIPAddress(ip))
			}
		case "wrong50":
			req.UpdateOption(dhcpv4.OptRequestedIPAddress(net.IPv4(10, 0, 0, 250)))
		case "toldci":
			if ip, ok := toldIP[le.c]; ok && le.mt != "discover" {
				req.ClientIPAddr = ip.To4()
			}
		case "wrongci":
			if le.mt != "discover" {
				req.ClientIPAddr = net.IPv4(10, 0, 0, 251).To4()
			}
		}
		fr := feed(l4, nil, 4, req.ToBytes(), 7, &net.UDPAddr{IP: net.IPv4(10, 0, 0, 9), Port: 68})
		e := Ev{"ev": "cmsg", "c": le.c, "mt": le.mt, "sid": le.sid, "want": want, "sent": false, "type": "none", "yi": 0, "lease": "none", "opts": []string{}, "sidok": false, "res": fr.res, "n": fr.n}
		if len(fr.sent4) == 1 && fr.sent4[0].Resp != nil {
			back, err := dhcpv4.FromBytes(fr.sent4[0].Resp.ToBytes())
			if err == nil {
				e["sent"] = true
				switch back.MessageType() {
				case dhcpv4.MessageTypeOffer:
					e["type"] = "offer"
				case dhcpv4.MessageTypeAck:
					e["type"] = "ack"
				case dhcpv4.MessageTypeNak:
					e["type"] = "nak"
				default:
					e["type"] = back.MessageType().String()
				}
				yi := back.YourIPAddr.To4()
				if yi != nil && !yi.IsUnspecified() {
					toldIP[le.c] = append(net.IP{}, yi...)
				}
				switch {
				case yi == nil || yi.IsUnspecified():
					e["yi"] = 0
				case yi[0] == lo[0] && yi[1] == lo[1] && yi[2] == lo[2] && int(yi[3]) >= int(lo[3]) && int(yi[3]) < int(lo[3])+convN:
					e["yi"] = int(yi[3]) - int(lo[3]) + 1
				case staticIP != "" && yi.Equal(net.ParseIP(staticIP)):
					e["yi"] = convN + 1
				default:
					e["yi"] = -1
				}
				if v := back.Options.Get(dhcpv4.OptionIPAddressLeaseTime); v != nil {
					e["lease"] = "other"
					if len(v) == 4 {
						switch int(v[0])<<24 | int(v[1])<<16 | int(v[2])<<8 | int(v[3]) {
						case convRangeTime:
							e["lease"] = "range"
						case convDefault:
							e["lease"] = "default"
						}
					}
				}
				opts := []string{}
				if v := back.Options.Get(dhcpv4.OptionServerIdentifier); v != nil {
					opts = append(opts, "sid")
					e["sidok"] = net.IP(v).Equal(net.ParseIP(convSid)) && back.ServerIPAddr.Equal(net.ParseIP(convSid))
				}
				if back.Options.Has(dhcpv4.OptionDomainNameServer) {
					opts = append(opts, "dns")
				}
				if back.Options.Has(dhcpv4.OptionRouter) {
					opts = append(opts, "router")
				}
				if back.Options.Has(dhcpv4.OptionSubnetMask) {
					opts = append(opts, "netmask")
				}
				e["opts"] = opts
			}
		}
		t.Emit(e)
		if fr.res == "wedged" || fr.res == "panic" {
			break
		}
	}
	return nil
}

func runConv(args []string) error {
	fs := flag.NewFlagSet("conv", flag.ContinueOnError)
	out := fs.String("out", "trace.ndjson", "trace file")
	seed := fs.Int64("seed", 1, "seed")
	depth := fs.Int("depth", 2, "all letter sequences of this length")
	reduced := fs.Bool("reduced", false, "the reduced alphabet (15 letters instead of 27)")
	walks := fs.Int("walks", 40, "seeded longer conversations per chain")
	chainIdx := fs.Int("chain", 0, "index of the chain")
	shard := fs.Int("shard", 0, "this shard")
	shards := fs.Int("shards", 1, "number of shards")
	dir := fs.String("dir", "", "scratch directory")
	in := fs.String("in", "", "JSON file with the behaviours TLC generated (ConvGen): replayed instead of the enumeration")
	if err := fs.Parse(args); err != nil {
		return err
	}
	raiseNofile()
	if *dir == "" {
		d, err := os.MkdirTemp("", "conv")
		if err != nil {
			return err
		}
		defer os.RemoveAll(d)
		*dir = d
	}
	t, err := NewTrace(*out)
	if err != nil {
		return err
	}
	defer t.Close()
	registerBuiltin()
	installGoroutineHooks()
	ccs := convChains()
	cc := ccs[*chainIdx%len(ccs)]
	if *in != "" {
		raw, err := os.ReadFile(*in)
		if err != nil {
			return err
		}
		var behaviours [][]struct{ C, Mt, Sid, Want string }
		if err := json.Unmarshal(raw, &behaviours); err != nil {
			return err
		}
		for x, b := range behaviours {
			if x%*shards != *shard {
				continue
			}
			var letters []convLetter
			for _, m := range b {
				letters = append(letters, convLetter{m.C, m.Mt, m.Sid, m.Want})
			}
			if err := runConvScenario(t, *dir, x, cc, letters, rand.New(rand.NewSource(*seed*7+int64(x)))); err != nil {
				return err
			}
		}
		return nil
	}
	alpha := convAlphabet(*reduced)
	total := 1
	for i := 0; i < *depth; i++ {
		total *= len(alpha)
	}
	k := 0
	for x := 0; x < total+*walks; x++ {
		if x%*shards != *shard {
			continue
		}
		k++
		r := rand.New(rand.NewSource(*seed*1000003 + int64(x)))
		var letters []convLetter
		if x < total {
			y := x
			letters = make([]convLetter, *depth)
			for i := *depth - 1; i >= 0; i-- {
				letters[i] = alpha[y%len(alpha)]
				y /= len(alpha)
			}
		} else {
			full := convAlphabet(false)
			for i := 0; i < 6+r.Intn(6); i++ {
				letters = append(letters, full[r.Intn(len(full))])
			}
		}
		if err := runConvScenario(t, *dir, x, cc, letters, r); err != nil {
			return err
		}
	}
	_ = time.Now
	return nil
}

// ---- DHCPv6 (spec/Conv6.tla, Conv6Core.tla, Conv6Trace.tla) -------------------------------------------

type conv6Chain struct {
	name  string
	chain []string
}

func conv6Chains() []conv6Chain {
	return []conv6Chain{
		{"typical6", []string{"server_id", "file", "prefix", "dns"}},
		{"nosid6", []string{"file", "dns", "prefix"}},
		{"prefixfirst6", []string{"prefix", "server_id", "file", "dns"}},
		{"filelast6", []string{"server_id", "dns", "prefix", "file"}},
	}
}

type conv6Letter struct {
	c, mt, sid string
	na, pd     bool
}

var conv6Types = map[string]dhcpv6.MessageType{"solicit": 1, "request": 3, "confirm": 4, "renew": 5, "rebind": 6, "release": 8, "decline": 9, "inforeq": 11}

func conv6Alphabet() []conv6Letter {
	var a []conv6Letter
	for _, c := range []string{"c1", "c2", "c3"} {
		for _, mt := range []string{"solicit", "request", "confirm", "renew", "rebind", "release", "decline", "inforeq"} {
			for _, sid := range []string{"none", "own", "other"} {
				for _, w := range [][2]bool{{false, true}, {true, true}, {true, false}, {false, false}} {
					a = append(a, conv6Letter{c, mt, sid, w[0], w[1]})
				}
			}
		}
	}
	return a
}

const conv6Static = "2001:db8::7"

func runConv6Scenario(t *Trace, dir string, id int, cc conv6Chain, letters []conv6Letter, r *rand.Rand) error {
	d := filepath.Join(dir, fmt.Sprintf("conv6-%d", id))
	os.MkdirAll(d, 0o755)
	defer os.RemoveAll(d)
	leases := filepath.Join(d, "leases6.txt")
	os.WriteFile(leases, []byte(convMacs["c1"].String()+" "+conv6Static+"\n"), 0o644)
	own := &dhcpv6.DUIDLL{HWType: 1, LinkLayerAddr: net.HardwareAddr{0, 0xde, 0xad, 0xbe, 0xef, 0}}
	sc := &config.ServerConfig{}
	for _, p := range cc.chain {
		var args []string
		switch p {
		case "server_id":
			args = []string{"LL", "00:de:ad:be:ef:00"}
		case "file":
			args = []string{leases}
		case "prefix":
			args = []string{"2001:db8:0:fffe::/63", "64"}
		case "dns":
			args = []string{"2001:4860:4860::8888"}
		}
		sc.Plugins = append(sc.Plugins, config.PluginConfig{Name: p, Args: args})
	}
	_, h6, err := plugins.LoadPlugins(&config.Config{Server6: sc})
	if err != nil {
		return fmt.Errorf("LoadPlugins(%v): %v", cc.chain, err)
	}
	t.Emit(Ev{"ev": "c6reset", "name": cc.name, "chain": cc.chain, "N": 2, "static": []Ev{{"c": "c1", "a": 7}}})
	l6 := server.NewVerifListener6(h6, net.Interface{})
	poolBase := net.ParseIP("2001:db8:0:fffe::")
	for _, le := range letters {
		m := &dhcpv6.Message{MessageType: conv6Types[le.mt]}
		r.Read(m.TransactionID[:])
		m.AddOption(dhcpv6.OptClientID(&dhcpv6.DUIDLL{HWType: 1, LinkLayerAddr: convMacs[le.c]}))
		switch le.sid {
		case "own":
			m.AddOption(dhcpv6.OptServerID(own))
		case "other":
			m.AddOption(dhcpv6.OptServerID(&dhcpv6.DUIDLL{HWType: 1, LinkLayerAddr: net.HardwareAddr{9, 9, 9, 9, 9, 9}}))
		}
		if le.na {
			m.AddOption(&dhcpv6.OptIANA{IaId: [4]byte{0, 0, 0, 1}})
		}
		if le.pd {
			m.AddOption(&dhcpv6.OptIAPD{IaId: [4]byte{0, 0, 0, 2}})
		}
		m.AddOption(dhcpv6.OptRequestedOption(dhcpv6.OptionDNSRecursiveNameServer))
		fr := feed(nil, l6, 6, m.ToBytes(), 7, &net.UDPAddr{IP: net.ParseIP("fe80::99"), Port: 546})
		e := Ev{"ev": "c6msg", "c": le.c, "mt": le.mt, "sid": le.sid, "na": le.na, "pd": le.pd, "sent": false, "type": "none", "rna": 0, "rpd": 0,
			"opts": []string{}, "sidok": false, "res": fr.res, "n": fr.n}
		if len(fr.sent6) == 1 && fr.sent6[0].Resp != nil {
			if back, err := dhcpv6.FromBytes(fr.sent6[0].Resp.ToBytes()); err == nil {
				if bm, ok := back.(*dhcpv6.Message); ok {
					e["sent"] = true
					switch bm.MessageType {
					case dhcpv6.MessageTypeAdvertise:
						e["type"] = "advertise"
					case dhcpv6.MessageTypeReply:
						e["type"] = "reply"
					default:
						e["type"] = bm.MessageType.String()
					}
					if nas := bm.Options.IANA(); len(nas) > 0 {
						e["rna"] = -2
						if len(nas) == 1 {
							if as := nas[0].Options.Addresses(); len(as) == 1 && as[0].IPv6Addr.Equal(net.ParseIP(conv6Static)) {
								e["rna"] = 7
							}
						}
					}
					if pds := bm.Options.IAPD(); len(pds) > 0 {
						e["rpd"] = -2
						if len(pds) == 1 {
							ps := pds[0].Options.Prefixes()
							st := pds[0].Options.Status()
							switch {
							case len(ps) == 0 && st != nil && st.StatusCode == 6: // NoPrefixAvail
								e["rpd"] = -1
							case len(ps) == 1 && ps[0].Prefix != nil:
								ones, _ := ps[0].Prefix.Mask.Size()
								ip := ps[0].Prefix.IP.To16()
								if ones == 64 && ip != nil && bytes.Equal(ip[:7], poolBase[:7]) && ip[7]&0xfe == poolBase[7] {
									e["rpd"] = int(ip[7]&1) + 1
								}
							}
						}
					}
					opts := []string{}
					if sid := bm.Options.ServerID(); sid != nil {
						opts = append(opts, "sid")
						e["sidok"] = bytes.Equal(sid.ToBytes(), own.ToBytes())
					}
					if len(bm.Options.DNS()) > 0 {
						opts = append(opts, "dns")
					}
					e["opts"] = opts
				}
			}
		}
		t.Emit(e)
		if fr.res == "wedged" || fr.res == "panic" {
			break
		}
	}
	return nil
}

func init() { families["conv6"] = runConv6 }

func runConv6(args []string) error {
	fs := flag.NewFlagSet("conv6", flag.ContinueOnError)
	out := fs.String("out", "trace.ndjson", "trace file")
	seed := fs.Int64("seed", 1, "seed")
	walks := fs.Int("walks", 300, "seeded conversations per chain")
	pairs := fs.Bool("pairs", true, "all conversations of two messages of clients c1, c2 (reduced alphabet)")
	chainIdx := fs.Int("chain", 0, "index of the chain")
	shard := fs.Int("shard", 0, "this shard")
	shards := fs.Int("shards", 1, "number of shards")
	dir := fs.String("dir", "", "scratch directory")
	if err := fs.Parse(args); err != nil {
		return err
	}
	if *dir == "" {
		d, err := os.MkdirTemp("", "conv6")
		if err != nil {
			return err
		}
		defer os.RemoveAll(d)
		*dir = d
	}
	t, err := NewTrace(*out)
	if err != nil {
		return err
	}
	defer t.Close()
	registerBuiltin()
	installGoroutineHooks()
	ccs := conv6Chains()
	cc := ccs[*chainIdx%len(ccs)]
	alpha := conv6Alphabet()
	x := 0
	run := func(letters []conv6Letter) error {
		x++
		if x%*shards != *shard {
			return nil
		}
		return runConv6Scenario(t, *dir, x, cc, letters, rand.New(rand.NewSource(*seed*1000003+int64(x))))
	}
	// every single message, on a fresh chain and after a SOLICIT of the same client that got a prefix
	for _, a := range alpha {
		if err := run([]conv6Letter{a}); err != nil {
			return err
		}
		if err := run([]conv6Letter{{a.c, "solicit", "none", true, true}, a, {a.c, "renew", "own", false, true}}); err != nil {
			return err
		}
	}
	if *pairs {
		var red []conv6Letter
		for _, a := range alpha {
			if a.c != "c3" && (a.pd || a.na) && !(a.na && a.pd) {
				red = append(red, a)
			}
		}
		for _, a := range red {
			for _, b := range red {
				if (x+1)%7 != 0 { // a seventh of the pairs, spread evenly
					x++
					continue
				}
				if err := run([]conv6Letter{a, b}); err != nil {
					return err
				}
			}
		}
	}
	r := rand.New(rand.NewSource(*seed))
	for i := 0; i < *walks; i++ {
		var letters []conv6Letter
		for j := 0; j < 5+r.Intn(8); j++ {
			letters = append(letters, alpha[r.Intn(len(alpha))])
		}
		if err := run(letters); err != nil {
			return err
		}
	}
	return nil
}
