package main

// Family conv (spec/Conv.tla, ConvCore.tla, ConvTrace.tla): whole DHCPv4 chains of the real built-in
// plugins, loaded by plugins.LoadPlugins and driven through HandleMsg4, answer conversations of a few
// clients (DISCOVER / REQUEST with none, this or another server named / DECLINE / RELEASE / INFORM).
// What comes back - sent or not, OFFER or ACK, yiaddr as an index of the dynamic range or the listed
// static address, which lease time, which options - is recorded per message; TLC replays ConvCore!HandleP
// with the configuration read from the recording.

import (
	"encoding/json"
	"flag"
	"fmt"
	"math/rand"
	"net"
	"os"
	"path/filepath"
	"strconv"
	"time"

	"github.com/coredhcp/coredhcp/config"
	"github.com/coredhcp/coredhcp/plugins"
	"github.com/coredhcp/coredhcp/server"
	"github.com/insomniacslk/dhcp/dhcpv4"
)

func init() { families["conv"] = runConv }

type convChain struct {
	name   string
	chain  []string
	static string // "outside" | "inside" | "none": where client c1's listed address lies
}

func convChains() []convChain {
	return []convChain{
		{"typical", []string{"lease_time", "server_id", "dns", "router", "netmask", "file", "range"}, "outside"},
		{"rangefirst", []string{"server_id", "range", "file", "dns", "lease_time"}, "outside"},
		{"filefirst", []string{"file", "dns", "range", "lease_time", "router"}, "outside"},
		{"filebeforesid", []string{"file", "server_id", "range", "lease_time"}, "outside"},
		{"nolease", []string{"server_id", "dns", "file"}, "outside"},
		{"nostatic", []string{"lease_time", "server_id", "dns", "router", "netmask", "file", "range"}, "none"},
		{"staticinside", []string{"lease_time", "server_id", "dns", "file", "range"}, "inside"},
		{"leaseafter", []string{"server_id", "range", "lease_time", "netmask"}, "none"},
	}
}

var convMacs = map[string]net.HardwareAddr{"c1": {2, 0, 0, 0, 0xc0, 1}, "c2": {2, 0, 0, 0, 0xc0, 2}, "c3": {2, 0, 0, 0, 0xc0, 3}}

const (
	convN         = 2
	convRangeLo   = "10.0.0.100"
	convRangeHi   = "10.0.0.101"
	convOutside   = "10.0.9.9"
	convSid       = "10.0.0.1"
	convRangeTime = 60
	convDefault   = 1800
)

type convLetter struct {
	c, mt, sid string
}

func convAlphabet(reduced bool) []convLetter {
	var a []convLetter
	for _, c := range []string{"c1", "c2", "c3"} {
		for _, mt := range []string{"discover", "request"} {
			for _, sid := range []string{"none", "own", "other"} {
				if reduced && mt == "discover" && sid != "none" {
					continue
				}
				a = append(a, convLetter{c, mt, sid})
			}
		}
		a = append(a, convLetter{c, "release", "none"})
		if !reduced {
			a = append(a, convLetter{c, "decline", "none"}, convLetter{c, "inform", "none"})
		}
	}
	return a
}

func runConvScenario(t *Trace, dir string, id int, cc convChain, letters []convLetter, r *rand.Rand) error {
	d := filepath.Join(dir, fmt.Sprintf("conv-%d", id))
	os.MkdirAll(d, 0o755)
	defer os.RemoveAll(d)
	staticIP := ""
	statics := []Ev{}
	switch cc.static {
	case "outside":
		staticIP = convOutside
		statics = append(statics, Ev{"c": "c1", "a": convN + 1})
	case "inside":
		staticIP = convRangeLo
		statics = append(statics, Ev{"c": "c1", "a": 1})
	}
	leases := filepath.Join(d, "leases4.txt")
	body := "# static leases\n"
	if staticIP != "" {
		body += convMacs["c1"].String() + " " + staticIP + "\n"
	}
	os.WriteFile(leases, []byte(body), 0o644)
	sc := &config.ServerConfig{}
	for _, p := range cc.chain {
		var args []string
		switch p {
		case "server_id":
			args = []string{convSid}
		case "file":
			args = []string{leases}
		case "range":
			args = []string{filepath.Join(d, "leases.sqlite"), convRangeLo, convRangeHi, strconv.Itoa(convRangeTime) + "s"}
		case "lease_time":
			args = []string{strconv.Itoa(convDefault) + "s"}
		case "dns":
			args = []string{"8.8.8.8"}
		case "router":
			args = []string{"10.0.0.254"}
		case "netmask":
			args = []string{"255.255.255.0"}
		}
		sc.Plugins = append(sc.Plugins, config.PluginConfig{Name: p, Args: args})
	}
	h4, _, err := plugins.LoadPlugins(&config.Config{Server4: sc})
	if err != nil {
		return fmt.Errorf("LoadPlugins(%v): %v", cc.chain, err)
	}
	t.Emit(Ev{"ev": "creset", "name": cc.name, "chain": cc.chain, "N": convN, "static": statics})
	l4 := server.NewVerifListener4(h4, net.Interface{Index: boundIndex()})
	lo := net.ParseIP(convRangeLo).To4()
	for _, le := range letters {
		req, _ := dhcpv4.New()
		r.Read(req.TransactionID[:])
		req.ClientHWAddr = convMacs[le.c]
		mt := map[string]dhcpv4.MessageType{"discover": dhcpv4.MessageTypeDiscover, "request": dhcpv4.MessageTypeRequest, "decline": dhcpv4.MessageTypeDecline,
			"release": dhcpv4.MessageTypeRelease, "inform": dhcpv4.MessageTypeInform}[le.mt]
		req.UpdateOption(dhcpv4.OptMessageType(mt))
		switch le.sid {
		case "own":
			req.UpdateOption(dhcpv4.OptServerIdentifier(net.ParseIP(convSid)))
		case "other":
			req.UpdateOption(dhcpv4.OptServerIdentifier(net.IPv4(10, 0, 0, 77)))
		}
		if r.Intn(2) == 0 {
			req.SetBroadcast()
		}
		fr := feed(l4, nil, 4, req.ToBytes(), 7, &net.UDPAddr{IP: net.IPv4(10, 0, 0, 9), Port: 68})
		e := Ev{"ev": "cmsg", "c": le.c, "mt": le.mt, "sid": le.sid, "sent": false, "type": "none", "yi": 0, "lease": "none", "opts": []string{}, "sidok": false, "res": fr.res, "n": fr.n}
		if len(fr.sent4) == 1 && fr.sent4[0].Resp != nil {
			back, err := dhcpv4.FromBytes(fr.sent4[0].Resp.ToBytes())
			if err == nil {
				e["sent"] = true
				switch back.MessageType() {
				case dhcpv4.MessageTypeOffer:
					e["type"] = "offer"
				case dhcpv4.MessageTypeAck:
					e["type"] = "ack"
				default:
					e["type"] = back.MessageType().String()
				}
				yi := back.YourIPAddr.To4()
				switch {
				case yi == nil || yi.IsUnspecified():
					e["yi"] = 0
				case yi[0] == lo[0] && yi[1] == lo[1] && yi[2] == lo[2] && int(yi[3]) >= int(lo[3]) && int(yi[3]) < int(lo[3])+convN:
					e["yi"] = int(yi[3]) - int(lo[3]) + 1
				case staticIP != "" && yi.Equal(net.ParseIP(staticIP)):
					e["yi"] = convN + 1
				default:
					e["yi"] = -1
				}
				if v := back.Options.Get(dhcpv4.OptionIPAddressLeaseTime); v != nil {
					e["lease"] = "other"
					if len(v) == 4 {
						switch int(v[0])<<24 | int(v[1])<<16 | int(v[2])<<8 | int(v[3]) {
						case convRangeTime:
							e["lease"] = "range"
						case convDefault:
							e["lease"] = "default"
						}
					}
				}
				opts := []string{}
				if v := back.Options.Get(dhcpv4.OptionServerIdentifier); v != nil {
					opts = append(opts, "sid")
					e["sidok"] = net.IP(v).Equal(net.ParseIP(convSid)) && back.ServerIPAddr.Equal(net.ParseIP(convSid))
				}
				if back.Options.Has(dhcpv4.OptionDomainNameServer) {
					opts = append(opts, "dns")
				}
				if back.Options.Has(dhcpv4.OptionRouter) {
					opts = append(opts, "router")
				}
				if back.Options.Has(dhcpv4.OptionSubnetMask) {
					opts = append(opts, "netmask")
				}
				e["opts"] = opts
			}
		}
		t.Emit(e)
		if fr.res == "wedged" || fr.res == "panic" {
			break
		}
	}
	return nil
}

func runConv(args []string) error {
	fs := flag.NewFlagSet("conv", flag.ContinueOnError)
	out := fs.String("out", "trace.ndjson", "trace file")
	seed := fs.Int64("seed", 1, "seed")
	depth := fs.Int("depth", 2, "all letter sequences of this length")
	reduced := fs.Bool("reduced", false, "the reduced alphabet (15 letters instead of 27)")
	walks := fs.Int("walks", 40, "seeded longer conversations per chain")
	chainIdx := fs.Int("chain", 0, "index of the chain")
	shard := fs.Int("shard", 0, "this shard")
	shards := fs.Int("shards", 1, "number of shards")
	dir := fs.String("dir", "", "scratch directory")
	in := fs.String("in", "", "JSON file with the behaviours TLC generated (ConvGen): replayed instead of the enumeration")
	if err := fs.Parse(args); err != nil {
		return err
	}
	raiseNofile()
	if *dir == "" {
		d, err := os.MkdirTemp("", "conv")
		if err != nil {
			return err
		}
		defer os.RemoveAll(d)
		*dir = d
	}
	t, err := NewTrace(*out)
	if err != nil {
		return err
	}
	defer t.Close()
	registerBuiltin()
	installGoroutineHooks()
	ccs := convChains()
	cc := ccs[*chainIdx%len(ccs)]
	if *in != "" {
		raw, err := os.ReadFile(*in)
		if err != nil {
			return err
		}
		var behaviours [][]struct{ C, Mt, Sid string }
		if err := json.Unmarshal(raw, &behaviours); err != nil {
			return err
		}
		for x, b := range behaviours {
			if x%*shards != *shard {
				continue
			}
			var letters []convLetter
			for _, m := range b {
				letters = append(letters, convLetter{m.C, m.Mt, m.Sid})
			}
			if err := runConvScenario(t, *dir, x, cc, letters, rand.New(rand.NewSource(*seed*7+int64(x)))); err != nil {
				return err
			}
		}
		return nil
	}
	alpha := convAlphabet(*reduced)
	total := 1
	for i := 0; i < *depth; i++ {
		total *= len(alpha)
	}
	k := 0
	for x := 0; x < total+*walks; x++ {
		if x%*shards != *shard {
			continue
		}
		k++
		r := rand.New(rand.NewSource(*seed*1000003 + int64(x)))
		var letters []convLetter
		if x < total {
			y := x
			letters = make([]convLetter, *depth)
			for i := *depth - 1; i >= 0; i-- {
				letters[i] = alpha[y%len(alpha)]
				y /= len(alpha)
			}
		} else {
			full := convAlphabet(false)
			for i := 0; i < 6+r.Intn(6); i++ {
				letters = append(letters, full[r.Intn(len(full))])
			}
		}
		if err := runConvScenario(t, *dir, x, cc, letters, r); err != nil {
			return err
		}
	}
	_ = time.Now
	return nil
}
