package main

// Family prefix (properties C08 C09): drives the real DHCPv6 prefix-delegation
// plugin through prefix.Plugin.Setup6 with message sequences over the alphabet
// of spec/PrefixPD.tla. A message is (client, IA_PD list); an IA_PD is (IAID,
// hint list); hint kinds are relative to what the client was told so far:
//   nil          IAPrefix with prefix-length 0 (parses to a nil prefix)
//   zero/zerol   ::/page and ::/longer  (length-only hints)
//   own<i>       exactly the i-th prefix this client was told
//   ownlen<i>    the address of the i-th own prefix with another length
//   other        exactly a prefix another client holds
//   free/freel   the base of a free block with length page / longer
//   inside       an address inside a free block, length 128
//   outside      an address outside the pool
//   biglen       a free block's base with a length byte > 128 (written on the wire as such)
//   shortlen     a free block's base (or an address inside it) with a length shorter than the pool's own
// Every message is serialised and parsed back before it is handed to the
// handler (direct or wrapped in Relay-Forward layers), and the reply is
// serialised and parsed back before it is abstracted.

import (
	"bytes"
	"encoding/hex"
	"flag"
	"fmt"
	"math/big"
	"math/rand"
	"net"
	"sort"
	"strconv"
	"strings"
	"sync"
	"time"

	"github.com/coredhcp/coredhcp/handler"
	"github.com/coredhcp/coredhcp/plugins/prefix"
	"github.com/coredhcp/coredhcp/verifhook"
	"github.com/insomniacslk/dhcp/dhcpv6"
	"github.com/insomniacslk/dhcp/iana"
)

func init() { families["prefix"] = runPrefix }

type pfxGeom struct {
	pool     string
	page     int
	g        geom
	pageText string // how the allocation length is written in the configuration ("" = drawn: "64" or "064")
	extra    string // replay: the further argument of the recorded configuration ("-" = none)
}

func mkPfxGeom(pool string, page int) pfxGeom {
	return pfxGeom{pool: pool, page: page, g: geomV6(pool, page)}
}

type pfxHeld struct {
	b   int
	len int
}

type pfxScn struct {
	t     *Trace
	pg    pfxGeom
	h     handler.Handler6
	r     *rand.Rand
	told  map[int][]pfxHeld // per client, in the order told
	owner map[int]int       // block -> client
	duids map[int]dhcpv6.DUID
	iaid  uint32
	dead  bool
}

func duidFor(c int, r *rand.Rand) dhcpv6.DUID {
	// the client number goes into the identifier in full (two bytes): distinct clients never share a DUID
	hi, lo := byte(c>>8), byte(c)
	mac := net.HardwareAddr{0x02, 0, byte(r.Intn(256)), byte(r.Intn(256)), hi, lo}
	switch (c + r.Intn(5)) % 5 {
	case 0:
		return &dhcpv6.DUIDLL{HWType: iana.HWTypeEthernet, LinkLayerAddr: mac}
	case 1:
		return &dhcpv6.DUIDLLT{HWType: iana.HWTypeEthernet, Time: uint32(r.Intn(1 << 30)), LinkLayerAddr: mac}
	case 2:
		return &dhcpv6.DUIDEN{EnterpriseNumber: 32473, EnterpriseIdentifier: []byte{hi, lo, 0xff, byte(r.Intn(256))}}
	case 3:
		var u [16]byte
		r.Read(u[:])
		u[0], u[1] = hi, lo
		return &dhcpv6.DUIDUUID{UUID: u}
	}
	return &dhcpv6.DUIDOpaque{Type: 4242, Data: []byte{hi, lo, 0, 1}}
}

func newPfxScn(t *Trace, pg pfxGeom, r *rand.Rand) (*pfxScn, error) {
	pageText := pg.pageText
	if pageText == "" {
		pageText = strconv.Itoa(pg.page)
		if r.Intn(4) == 0 {
			pageText = "0" + pageText // a decimal number is a decimal number, leading zero or not
		}
	}
	args := []string{pg.pool, pageText}
	extra := ""
	if pg.extra == "-" {
	} else if pg.extra != "" {
		extra = pg.extra
		args = append(args, extra)
	} else if r.Intn(6) == 0 {
		// a further argument (the unchanged plugin ignores whatever follows the allocation length): if an instance comes to
		// life with it, what it hands out is still what the property says - lifetimes included
		extra = []string{"0s", "-1s", "400ms", "0", "30m", "2h", "junk"}[r.Intn(7)]
		args = append(args, extra)
	}
	h, err := prefix.Plugin.Setup6(args...)
	t.Emit(Ev{"ev": "reset", "N": pg.g.n, "page": pg.page, "pool": pg.pool, "pagetext": pageText, "extra": extra})
	s := &pfxScn{t: t, pg: pg, h: h, r: r, told: map[int][]pfxHeld{}, owner: map[int]int{}, duids: map[int]dhcpv6.DUID{}}
	if (err != nil || h == nil) && extra != "" {
		// refusing a configuration with an argument too many is the plugin's right: nothing to observe
		t.Emit(Ev{"ev": "note", "what": "prefix: configuration with a third argument refused: " + fmt.Sprint(err)})
		s.dead = true
	} else if err != nil || h == nil {
		// a valid configuration was refused: an observation no action of the specification explains
		t.Emit(Ev{"ev": "setupfail", "pool": pg.pool, "pagetext": pageText, "msg": fmt.Sprint(err)})
		s.dead = true
	}
	return s, nil
}

// clients 100+b are SIBLINGS of client b: a different client identifier built on the same hardware address (another
// DUID type, or a DUID-LLT with another time) - different client identifiers, hence different clients
func (s *pfxScn) duid(c int) dhcpv6.DUID {
	if d, ok := s.duids[c]; ok {
		return d
	}
	var d dhcpv6.DUID
	if c >= 200 && c < 400 {
		// clients 200+2k and 201+2k: client identifiers longer than 130 bytes that differ only in their last byte
		body := bytes.Repeat([]byte{byte(c / 2)}, 146)
		body[145] = byte(c % 2)
		d = &dhcpv6.DUIDEN{EnterpriseNumber: 32473, EnterpriseIdentifier: body}
	} else if c >= 100 && c < 200 {
		var mac net.HardwareAddr
		switch b := s.duid(c - 100).(type) {
		case *dhcpv6.DUIDLL:
			mac = b.LinkLayerAddr
			d = &dhcpv6.DUIDLLT{HWType: iana.HWTypeEthernet, Time: uint32(1 + s.r.Intn(1<<30)), LinkLayerAddr: mac}
		case *dhcpv6.DUIDLLT:
			mac = b.LinkLayerAddr
			if s.r.Intn(2) == 0 {
				d = &dhcpv6.DUIDLL{HWType: iana.HWTypeEthernet, LinkLayerAddr: mac}
			} else {
				d = &dhcpv6.DUIDLLT{HWType: iana.HWTypeEthernet, Time: b.Time + 1 + uint32(s.r.Intn(1000)), LinkLayerAddr: mac}
			}
		default:
			d = duidFor(c, s.r)
		}
	} else {
		d = duidFor(c, s.r)
	}
	s.duids[c] = d
	return d
}

func (s *pfxScn) freeBlock() int {
	g := s.pg.g
	for try := 0; try < 50; try++ {
		b := s.r.Intn(g.n)
		if _, taken := s.owner[b]; !taken {
			return b
		}
	}
	for b := 0; b < g.n; b++ {
		if _, taken := s.owner[b]; !taken {
			return b
		}
	}
	return -1
}

// concretise a hint kind for client c. ok=false: this kind has no concrete form in this state.
func (s *pfxScn) hint(c int, kind string) (dhcpv6.Option, bool) {
	g := s.pg.g
	mk := func(addr *big.Int, l int) dhcpv6.Option {
		p := &dhcpv6.OptIAPrefix{PreferredLifetime: time.Duration(s.r.Intn(3)) * 1000 * time.Second, ValidLifetime: time.Duration(s.r.Intn(3)) * 2000 * time.Second}
		ip := bigToIP(addr, 16)
		if l > 128 {
			// the library cannot express a prefix-length byte above 128: write the option body by hand
			return &rawIAPrefix{pref: uint32(s.r.Intn(3)) * 1000, valid: uint32(s.r.Intn(3)) * 2000, plen: byte(l), ip: ip}
		}
		p.Prefix = &net.IPNet{IP: ip, Mask: net.CIDRMask(l, 128)}
		return p
	}
	longer := func() int {
		if s.pg.page >= 128 {
			return 128
		}
		return s.pg.page + 1 + s.r.Intn(128-s.pg.page)
	}
	switch {
	case kind == "junkopt":
		// an IA_PD sub-option that is no IAPrefix (a status code, or an option nobody knows): the IA_PD carries no hint
		if s.r.Intn(2) == 0 {
			return &dhcpv6.OptStatusCode{StatusCode: iana.StatusSuccess, StatusMessage: "ok"}, true
		}
		return &dhcpv6.OptionGeneric{OptionCode: 65001, OptionData: []byte{1, 2, 3}}, true
	case kind == "nil":
		if s.r.Intn(2) == 0 {
			// a non-zero address with prefix-length 0 parses to a nil prefix as well
			return mk(g.blockBase(s.r.Intn(g.n)), 0), true
		}
		return mk(big.NewInt(0), 0), true
	case kind == "zero":
		return mk(big.NewInt(0), s.pg.page), true
	case kind == "zerol":
		if s.pg.page >= 128 {
			return nil, false
		}
		return mk(big.NewInt(0), longer()), true
	case strings.HasPrefix(kind, "ownlen"):
		i, _ := strconv.Atoi(kind[6:])
		if i >= len(s.told[c]) {
			return nil, false
		}
		h := s.told[c][i]
		l := h.len + 1
		if l > 128 {
			l = h.len - 1
		}
		return mk(g.blockBase(h.b), l), true
	case strings.HasPrefix(kind, "own"):
		i, _ := strconv.Atoi(kind[3:])
		if i >= len(s.told[c]) {
			return nil, false
		}
		h := s.told[c][i]
		return mk(g.blockBase(h.b), h.len), true
	case kind == "other":
		var cands []pfxHeld
		for oc, hs := range s.told {
			if oc != c {
				cands = append(cands, hs...)
			}
		}
		if len(cands) == 0 {
			return nil, false
		}
		sort.Slice(cands, func(i, j int) bool { return cands[i].b < cands[j].b })
		h := cands[s.r.Intn(len(cands))]
		return mk(g.blockBase(h.b), h.len), true
	case kind == "free", kind == "freel", kind == "inside", kind == "biglen", kind == "shortlen":
		b := s.freeBlock()
		if b < 0 {
			return nil, false
		}
		switch kind {
		case "free":
			return mk(g.blockBase(b), s.pg.page), true
		case "freel":
			if s.pg.page >= 128 {
				return nil, false
			}
			return mk(g.blockBase(b), longer()), true
		case "inside":
			if s.pg.page >= 128 {
				return nil, false
			}
			off := new(big.Int).Rand(s.r, g.bsize)
			return mk(new(big.Int).Add(g.blockBase(b), off), 128), true
		case "shortlen":
			poolLen, _ := poolMaskLen(s.pg.pool)
			if poolLen < 2 {
				return nil, false
			}
			a := g.blockBase(b)
			if s.r.Intn(2) == 0 && s.pg.page < 128 {
				a = new(big.Int).Add(a, new(big.Int).Rand(s.r, g.bsize))
			}
			return mk(a, 1+s.r.Intn(poolLen-1)), true
		default:
			return mk(g.blockBase(b), 129+s.r.Intn(127)), true
		}
	case kind == "outside":
		a := g.outsideAddr([]string{"below", "above"}[s.r.Intn(2)], 1+s.r.Intn(3))
		if a == nil {
			return nil, false
		}
		return mk(a, s.pg.page), true
	}
	return nil, false
}

func poolMaskLen(pool string) (int, int) {
	_, n, err := net.ParseCIDR(pool)
	if err != nil {
		return 0, 0
	}
	return n.Mask.Size()
}

// rawIAPrefix is an IAPrefix option whose body is written byte by byte (RFC 8415 21.22): lifetimes,
// prefix-length, 16 address bytes.
type rawIAPrefix struct {
	pref, valid uint32
	plen        byte
	ip          net.IP
}

func (o *rawIAPrefix) Code() dhcpv6.OptionCode { return dhcpv6.OptionIAPrefix }
func (o *rawIAPrefix) String() string          { return fmt.Sprintf("rawIAPrefix %s/%d", o.ip, o.plen) }
func (o *rawIAPrefix) FromBytes([]byte) error  { return nil }
func (o *rawIAPrefix) ToBytes() []byte {
	b := make([]byte, 9, 25)
	b[0], b[1], b[2], b[3] = byte(o.pref>>24), byte(o.pref>>16), byte(o.pref>>8), byte(o.pref)
	b[4], b[5], b[6], b[7] = byte(o.valid>>24), byte(o.valid>>16), byte(o.valid>>8), byte(o.valid)
	b[8] = o.plen
	return append(b, o.ip.To16()...)
}

type pfxIA struct {
	hints []string
}

var v6types = []dhcpv6.MessageType{dhcpv6.MessageTypeSolicit, dhcpv6.MessageTypeRequest, dhcpv6.MessageTypeRenew, dhcpv6.MessageTypeRebind}

// abstract coordinates of a concrete prefix relative to the pool
func (s *pfxScn) coords(n *net.IPNet) Ev {
	if n == nil {
		return Ev{"nil": true, "zero": false, "b": -1, "base": false, "len": 0, "bits": 0}
	}
	g := s.pg.g
	ones, bits := n.Mask.Size()
	e := Ev{"nil": false, "zero": len(n.IP) == 0 || n.IP.IsUnspecified(), "b": -1, "base": false, "len": ones, "bits": bits}
	if len(n.IP) == 16 {
		v := new(big.Int).SetBytes(n.IP)
		rel := new(big.Int).Sub(v, g.base)
		if rel.Sign() >= 0 {
			q, m := new(big.Int).DivMod(rel, g.bsize, new(big.Int))
			if q.Cmp(big.NewInt(int64(g.n))) < 0 {
				e["b"] = int(q.Int64())
				e["base"] = m.Sign() == 0
			}
		}
	}
	return e
}

// send builds, serialises, parses and handles one message; records it.
func (s *pfxScn) send(c int, ias []pfxIA, relay int) bool {
	mt := v6types[s.r.Intn(len(v6types))]
	msg, err := dhcpv6.NewMessage()
	if err != nil {
		return false
	}
	msg.MessageType = mt
	msg.AddOption(dhcpv6.OptClientID(s.duid(c)))
	var iaEvs []Ev
	for i, ia := range ias {
		if i == 0 || s.r.Intn(6) != 0 { // now and then the client repeats the IAID of its previous IA_PD
			s.iaid++
		}
		id := [4]byte{byte(s.iaid >> 24), byte(s.iaid >> 16), byte(s.iaid >> 8), byte(s.iaid)}
		opt := &dhcpv6.OptIAPD{IaId: id, T1: time.Duration(s.r.Intn(100)) * time.Second, T2: time.Duration(s.r.Intn(200)) * time.Second}
		var kinds []string
		for _, k := range ia.hints {
			p, ok := s.hint(c, k)
			if !ok {
				continue
			}
			opt.Options.Add(p)
			kinds = append(kinds, k)
		}
		msg.AddOption(opt)
		iaEvs = append(iaEvs, Ev{"iaid": int(s.iaid), "kinds": kinds})
	}
	var outer dhcpv6.DHCPv6 = msg
	for i := 0; i < relay; i++ {
		la := net.ParseIP(fmt.Sprintf("2001:db8:%x::1", 0x100+i))
		pa := net.ParseIP(fmt.Sprintf("fe80::%x", 0x200+i))
		rm, err := dhcpv6.EncapsulateRelay(outer, dhcpv6.MessageTypeRelayForward, la, pa)
		if err != nil {
			return false
		}
		outer = rm
	}
	var kinds [][]string
	for _, ia := range iaEvs {
		kinds = append(kinds, ia["kinds"].([]string))
	}
	return s.deliver(c, relay, outer.ToBytes(), kinds)
}

func iaidInt(id [4]byte) int { return int(id[0])<<24 | int(id[1])<<16 | int(id[2])<<8 | int(id[3]) }

// deliver parses the wire bytes, hands the message to the plugin handler the way the server
// does (base reply built from the inner message), and records request and reply in abstract form.
func (s *pfxScn) deliver(c, relay int, wire []byte, kinds [][]string) bool {
	if s.dead {
		return false
	}
	req, err := dhcpv6.FromBytes(wire)
	if err != nil {
		s.t.Emit(Ev{"ev": "note", "what": "request does not parse: " + err.Error()})
		return false
	}
	inner, err := req.GetInnerMessage()
	if err != nil {
		return false
	}
	// the IA_PDs and hints as the plugin will see them (after the wire)
	var iaEvs []Ev
	for i, opt := range inner.Options.IAPD() {
		hs := []Ev{}
		for _, p := range opt.Options.Prefixes() {
			hs = append(hs, s.coords(p.Prefix))
		}
		ks := []string{}
		if i < len(kinds) && kinds[i] != nil {
			ks = kinds[i]
		}
		iaEvs = append(iaEvs, Ev{"iaid": iaidInt(opt.IaId), "kinds": ks, "hints": hs})
	}
	if iaEvs == nil {
		iaEvs = []Ev{}
	}
	mt := inner.MessageType
	var resp dhcpv6.DHCPv6
	if mt == dhcpv6.MessageTypeSolicit {
		resp, err = dhcpv6.NewAdvertiseFromSolicit(inner)
	} else {
		resp, err = dhcpv6.NewReplyFromMessage(inner)
	}
	if err != nil {
		return false
	}
	s.t.Pending(Ev{"c": c, "relay": relay, "wire": hex.EncodeToString(wire)})
	defer s.t.Done()
	t0 := time.Now().Unix()
	var (
		out  dhcpv6.DHCPv6
		stop bool
		pan  interface{}
	)
	done := make(chan struct{})
	wedged := false
	go func() {
		defer close(done)
		defer func() { pan = recover() }()
		out, stop = s.h(req, resp)
	}()
	select {
	case <-done:
	case <-time.After(10 * time.Second):
		wedged = true // the handler blocks (e.g. on a mutex an earlier panic left locked)
	}
	t1 := time.Now().Unix()
	e := Ev{"ev": "msg", "c": c, "relay": relay, "type": mt.String(), "t0": t0, "t1": t1, "ias": iaEvs, "stop": stop,
		"wire": hex.EncodeToString(wire), "ans": []Ev{}, "extra": 0, "msg": ""}
	switch {
	case wedged:
		e["res"] = "wedged"
		s.dead = true
	case pan != nil:
		e["res"] = "panic"
		e["msg"] = fmt.Sprint(pan)
		s.dead = true // the instance may hold its mutex now; the scenario ends here
	case out == nil:
		e["res"] = "drop"
	default:
		e["res"] = "reply"
		// what the client sees: serialise and parse back
		back, err := dhcpv6.FromBytes(out.ToBytes())
		if err != nil {
			e["res"] = "unparseable"
			e["msg"] = err.Error()
			break
		}
		bm, err := back.GetInnerMessage()
		if err != nil {
			e["res"] = "unparseable"
			break
		}
		ans := []Ev{}
		matched := 0
		opts := bm.Options.IAPD()
		// a client may repeat an IAID: the k-th IA_PD with IAID x is answered by the k-th IA_PD with IAID x of the reply
		reqN, repN, occ := map[int]int{}, map[int]int{}, map[int]int{}
		for _, ia := range iaEvs {
			reqN[ia["iaid"].(int)]++
		}
		for _, o := range opts {
			repN[iaidInt(o.IaId)]++
		}
		for _, ia := range iaEvs {
			id := ia["iaid"].(int)
			a := Ev{"iaid": id, "count": 0, "status": "none"}
			pf := []Ev{}
			j := occ[id]
			occ[id]++
			seen := -1
			for _, o := range opts {
				if iaidInt(o.IaId) != id {
					continue
				}
				seen++
				if reqN[id] > 1 {
					if seen != j && !(j == reqN[id]-1 && seen > j) {
						continue // another occurrence's answer (a surplus one counts against the last occurrence)
					}
					if seen > j {
						a["count"] = a["count"].(int) + 1
						matched++
						continue
					}
				}
				a["count"] = a["count"].(int) + 1
				matched++
				for _, p := range o.Options.Prefixes() {
					co := s.coords(p.Prefix)
					co["pref"] = int(p.PreferredLifetime / time.Second)
					co["valid"] = int(p.ValidLifetime / time.Second)
					co["inpool"] = co["b"].(int) >= 0
					pf = append(pf, co)
				}
				if st := o.Options.Status(); st != nil {
					if st.StatusCode == iana.StatusNoPrefixAvail {
						a["status"] = "noprefix"
					} else if st.StatusCode == iana.StatusSuccess {
						a["status"] = "none"
					} else {
						a["status"] = "other"
					}
				}
			}
			a["pfx"] = pf
			ans = append(ans, a)
		}
		e["ans"] = ans
		e["extra"] = len(opts) - matched
		// bookkeeping for the state-relative hint kinds
		for _, a := range ans {
			for _, p := range a["pfx"].([]Ev) {
				b := p["b"].(int)
				if b < 0 {
					continue
				}
				if _, ok := s.owner[b]; !ok {
					s.owner[b] = c
				}
				dup := false
				for _, h := range s.told[c] {
					if h.b == b && h.len == p["len"].(int) {
						dup = true
					}
				}
				if !dup {
					s.told[c] = append(s.told[c], pfxHeld{b, p["len"].(int)})
				}
			}
		}
	}
	s.t.Emit(e)
	return e["res"] == "reply"
}

// the curated IA_PD shapes (hint lists) and message shapes of the alphabet
var pfxIAShapes = [][]string{
	{}, {"nil"}, {"nil", "nil"}, {"zero"}, {"zerol"}, {"own0"}, {"own1"}, {"own0", "nil"}, {"nil", "own0"}, {"own0", "own1"},
	{"other"}, {"free"}, {"freel"}, {"inside"}, {"outside"}, {"ownlen0"}, {"biglen"}, {"free", "free"}, {"zero", "zero"}, {"own0", "free"},
	{"shortlen"}, {"junkopt"}, {"junkopt", "junkopt"},
}

func pfxMessages(level int) [][]pfxIA {
	var ms [][]pfxIA
	ms = append(ms, []pfxIA{}) // no IA_PD at all
	for _, sh := range pfxIAShapes {
		ms = append(ms, []pfxIA{{sh}})
	}
	pairs := [][2]int{{0, 0}, {1, 1}, {0, 5}, {5, 0}, {5, 6}, {11, 11}, {0, 11}, {3, 0}, {2, 1}, {10, 0}}
	if level > 1 {
		for i := range pfxIAShapes {
			pairs = append(pairs, [2]int{i, (i + 3) % len(pfxIAShapes)})
		}
	}
	for _, p := range pairs {
		ms = append(ms, []pfxIA{{pfxIAShapes[p[0]]}, {pfxIAShapes[p[1]]}})
	}
	return ms
}

func pfxGeoms() []pfxGeom {
	return []pfxGeom{mkPfxGeom("2001:db8:0:fffc::/62", 64), mkPfxGeom("2001:db8:ff00::/46", 48), mkPfxGeom("2001:db8:1:2:ff00::/70", 72),
		mkPfxGeom("2001:db8:0:10::/60", 64), mkPfxGeom("fd00:1:2:ffc0::/58", 60), mkPfxGeom("2001:db8::ff00/126", 128), mkPfxGeom("2001:db8:5::/63", 64)}
}

func runPrefixBFS(t *Trace, seed int64, depth, level, shard, shards int) error {
	msgs := pfxMessages(level)
	// letters: (client, message shape); client 1 only gets a reduced set to bound the product
	type letter struct {
		c int
		m []pfxIA
	}
	var alpha []letter
	for _, m := range msgs {
		alpha = append(alpha, letter{0, m})
	}
	for i, m := range msgs {
		if level > 1 || i%3 == 1 || i < 4 {
			alpha = append(alpha, letter{1, m})
		}
	}
	total := 1
	for i := 0; i < depth; i++ {
		total *= len(alpha)
	}
	gs := pfxGeoms()
	for k := shard; k < total; k += shards {
		r := rand.New(rand.NewSource(seed*1000003 + int64(k)))
		pg := gs[0]
		if r.Intn(3) == 0 {
			pg = gs[r.Intn(len(gs))]
		}
		s, err := newPfxScn(t, pg, r)
		if err != nil {
			return err
		}
		x := k
		idx := make([]int, depth)
		for i := depth - 1; i >= 0; i-- {
			idx[i] = x % len(alpha)
			x /= len(alpha)
		}
		for _, i := range idx {
			relay := 0
			if r.Intn(4) == 0 {
				relay = 1 + r.Intn(2)
			}
			s.send(alpha[i].c, alpha[i].m, relay)
		}
	}
	return nil
}

// long random histories, several clients, exhaustion
func runPrefixSim(t *Trace, seed int64, count, shard, shards int) error {
	gs := pfxGeoms()
	kinds := []string{"nil", "zero", "zerol", "own0", "own1", "own2", "ownlen0", "other", "free", "freel", "inside", "outside", "biglen", "shortlen", "junkopt"}
	for k := shard; k < count; k += shards {
		r := rand.New(rand.NewSource(seed*7919 + int64(k)))
		pg := gs[k%len(gs)]
		s, err := newPfxScn(t, pg, r)
		if err != nil {
			return err
		}
		nc := 2 + r.Intn(4)
		steps := 10 + r.Intn(8)
		if k%5 == 0 {
			steps = 2*pg.g.n + 10 // run into exhaustion
		}
		for i := 0; i < steps; i++ {
			c := r.Intn(nc)
			if r.Intn(5) == 0 {
				c += 100 // a sibling: same hardware address, another client identifier
			} else if r.Intn(8) == 0 {
				c = 200 + c%4 // over-long client identifiers that share their first 145 bytes
			}
			nia := r.Intn(4)
			if r.Intn(3) == 0 {
				nia = 1
			}
			var ias []pfxIA
			for j := 0; j < nia; j++ {
				var hs []string
				switch r.Intn(5) {
				case 0:
				case 1:
					hs = []string{"own" + strconv.Itoa(r.Intn(3))}
				default:
					nh := 1 + r.Intn(3)
					for q := 0; q < nh; q++ {
						hs = append(hs, kinds[r.Intn(len(kinds))])
					}
				}
				ias = append(ias, pfxIA{hs})
			}
			relay := 0
			if r.Intn(3) == 0 {
				relay = 1 + r.Intn(3)
			}
			s.send(c, ias, relay)
		}
	}
	return nil
}

// long-running instances: state that only goes wrong after many operations (counters that wrap at 2^8 / 2^16,
// structures that change shape after growth).  One plugin instance per scenario:
//
//	gaps   client A holds a prefix and asks again without a hint after a neighbour has renewed exactly g times,
//	       for every g of a sweep (1..16 and 250..262; level 2: 1..300; level 3: 65534..65538)
//	many   several hundred distinct clients on one pool, each asking twice
func runPrefixLong(t *Trace, seed int64, level, shard, shards int) error {
	var sweeps [][]int
	rng := func(a, b int) []int {
		var x []int
		for i := a; i <= b; i++ {
			x = append(x, i)
		}
		return x
	}
	switch level {
	case 1:
		sweeps = [][]int{append(rng(1, 16), rng(250, 262)...)}
	case 2:
		sweeps = [][]int{rng(1, 100), rng(101, 200), rng(201, 300), rng(500, 520)}
	default:
		sweeps = [][]int{{65534}, {65535}, {65536}, {65537}}
	}
	k := 0
	for _, sw := range sweeps {
		for _, askKind := range []string{"none", "nil", "zero"} {
			if level >= 3 && askKind != "none" {
				continue
			}
			k++
			if k%shards != shard {
				continue
			}
			r := rand.New(rand.NewSource(seed*31 + int64(k)))
			s, err := newPfxScn(t, mkPfxGeom("2001:db8:0:10::/60", 64), r)
			if err != nil {
				return err
			}
			ask := []pfxIA{{}}
			if askKind != "none" {
				ask = []pfxIA{{[]string{askKind}}}
			}
			s.send(0, []pfxIA{{}}, 0)
			s.send(1, []pfxIA{{}}, 0)
			for _, g := range sw {
				for i := 0; i < g && !s.dead; i++ {
					s.send(1, []pfxIA{{[]string{"own0"}}}, 0)
				}
				s.send(0, ask, 0)
			}
		}
	}
	// one IA_PD with MORE THAN 64 hints: first for free blocks, then - twice - for exactly the prefixes the client was given
	if level <= 2 {
		k++
		if k%shards == shard {
			r := rand.New(rand.NewSource(seed*31 + int64(k)))
			s, err := newPfxScn(t, mkPfxGeom("2001:db8:0:fe00::/55", 64), r)
			if err != nil {
				return err
			}
			var free, own []string
			for i := 0; i < 70; i++ {
				free = append(free, "free")
				own = append(own, "own"+strconv.Itoa(i))
			}
			s.send(0, []pfxIA{{free}}, 0)
			s.send(0, []pfxIA{{own}}, 0)
			s.send(0, []pfxIA{{own}}, 1)
			s.send(1, []pfxIA{{}}, 0)
		}
	}
	if level <= 2 {
		k++
		if k%shards == shard {
			r := rand.New(rand.NewSource(seed*31 + int64(k)))
			s, err := newPfxScn(t, mkPfxGeom("2001:db8:0:fe00::/55", 64), r) // 512 blocks
			if err != nil {
				return err
			}
			n := 300
			for c := 0; c < n; c++ {
				s.send(c, []pfxIA{{}}, 0)
			}
			for c := 0; c < n; c++ {
				s.send(c, []pfxIA{{}}, c%3)
			}
			for c := n - 1; c >= 0; c -= 7 {
				s.send(c, []pfxIA{{[]string{"own0"}}}, 0)
			}
		}
	}
	// ONE message with many IA_PD options (33, 40, 200): every one of them is answered - with a prefix while the pool has blocks,
	// with NoPrefixAvail after that; then the same again (the answers are the client's prefixes)
	if level <= 2 {
		k++
		if k%shards == shard {
			for _, cnt := range []int{33, 40, 200} {
				r := rand.New(rand.NewSource(seed*31 + int64(k*1000+cnt)))
				s, err := newPfxScn(t, mkPfxGeom("2001:db8:0:fe00::/57", 64), r) // 128 blocks
				if err != nil {
					return err
				}
				many := make([]pfxIA, cnt)
				s.send(0, many, 0)
				s.send(1, []pfxIA{{}}, 0)
				s.send(0, many, 1)
			}
		}
	}
	return nil
}

// concurrent: 16 goroutines, several clients each sending hint-less / renewing messages; the
// observation point inside the critical section orders the IA_PDs; each message is recorded when
// its handler returns (cmsg). Used by C16 (serial equivalence is judged by PrefixTrace's
// concurrent guards: disjointness across clients at every point).
func runPrefixConc(t *Trace, seed int64, rounds int) error {
	gs := []pfxGeom{mkPfxGeom("2001:db8:0:fffc::/62", 64), mkPfxGeom("2001:db8:0:10::/60", 64)}
	for round := 0; round < rounds; round++ {
		pg := gs[round%len(gs)]
		r := rand.New(rand.NewSource(seed*131 + int64(round)))
		s, err := newPfxScn(t, pg, r)
		if err != nil {
			return err
		}
		for c := 0; c < 8; c++ {
			s.duid(c)
		}
		var tmu sync.Mutex
		verifhook.Install(func(site string, kv ...interface{}) {
			if site == "prefix.locked" || site == "prefix.unlocking" {
				t.Emit(Ev{"ev": "ia", "site": site, "held": verifhook.Held(kv[0].(verifhook.TryLocker)), "g": goid()})
			}
		})
		var wg sync.WaitGroup
		for w := 0; w < 16; w++ {
			wg.Add(1)
			go func(w int) {
				defer wg.Done()
				rr := rand.New(rand.NewSource(seed*17 + int64(round*16+w)))
				// each goroutine owns its scenario view (no shared bookkeeping): hint-less only
				c := w % 8
				for i := 0; i < 6; i++ {
					ss := &pfxScn{t: t, pg: pg, h: s.h, r: rr, told: map[int][]pfxHeld{}, owner: map[int]int{}, duids: s.duids, iaid: uint32(w*1000 + i*10)}
					nia := 1 + rr.Intn(2)
					var ias []pfxIA
					for j := 0; j < nia; j++ {
						ias = append(ias, pfxIA{[]string{}})
					}
					tmu.Lock()
					tmu.Unlock()
					ss.send(c, ias, 0)
				}
			}(w)
		}
		wg.Wait()
		verifhook.Install(nil)
	}
	return nil
}

// replay: re-send the recorded wire bytes of a scenario to a fresh plugin instance.
func runPrefixReplay(t *Trace, path string) error {
	lines, err := ReadTrace(path)
	if err != nil {
		return err
	}
	var s *pfxScn
	for _, e := range lines {
		switch e["ev"] {
		case "reset":
			pg := mkPfxGeom(toStr(e["pool"]), toInt(e["page"]))
			if pt, ok := e["pagetext"].(string); ok {
				pg.pageText = pt
			}
			pg.extra = "-"
			if x, ok := e["extra"].(string); ok && x != "" {
				pg.extra = x
			}
			s, err = newPfxScn(t, pg, rand.New(rand.NewSource(1)))
			if err != nil {
				return err
			}
		case "crash":
			// the process died while handling an input that never made it into the recording: hand it over again
			if pend, ok := e["pending"].(map[string]interface{}); ok && s != nil {
				s.resend(Ev(pend))
			}
		case "msg":
			if s == nil {
				return fmt.Errorf("scenario does not start with reset")
			}
			s.resend(e)
		}
	}
	return nil
}

// resend replays one recorded message from its wire bytes.
func (s *pfxScn) resend(old Ev) {
	wire, err := hex.DecodeString(toStr(old["wire"]))
	if err != nil {
		return
	}
	s.deliver(toInt(old["c"]), toInt(old["relay"]), wire, nil)
}

func runPrefix(args []string) error {
	fs := flag.NewFlagSet("prefix", flag.ContinueOnError)
	out := fs.String("out", "trace.ndjson", "trace file")
	seed := fs.Int64("seed", 1, "seed")
	mode := fs.String("mode", "bfs", "bfs | sim | conc")
	depth := fs.Int("depth", 2, "bfs: message sequences of this length")
	level := fs.Int("level", 1, "bfs: alphabet size (1 reduced, 2 full)")
	count := fs.Int("count", 100, "sim: scenarios")
	rounds := fs.Int("rounds", 4, "conc: rounds")
	shard := fs.Int("shard", 0, "this shard")
	shards := fs.Int("shards", 1, "number of shards")
	replay := fs.String("replay", "", "re-send the recorded wire bytes of a scenario")
	if err := fs.Parse(args); err != nil {
		return err
	}
	t, err := NewTrace(*out)
	if err != nil {
		return err
	}
	defer t.Close()
	if *replay != "" {
		return runPrefixReplay(t, *replay)
	}
	switch *mode {
	case "bfs":
		return runPrefixBFS(t, *seed, *depth, *level, *shard, *shards)
	case "sim":
		return runPrefixSim(t, *seed, *count, *shard, *shards)
	case "conc":
		return runPrefixConc(t, *seed, *rounds)
	case "long":
		return runPrefixLong(t, *seed, *level, *shard, *shards)
	}
	return fmt.Errorf("unknown mode %s", *mode)
}
