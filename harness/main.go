// Command harness executes model-generated scenarios against the real
// coredhcp code (built from /repo's working tree with -tags verif) and records
// one ndjson trace line per linearization point. The traces are validated by
// TLC against the specifications in /verif/spec.
package main

import (
	"fmt"
	"os"

	"github.com/coredhcp/coredhcp/logger"
)

type family struct {
	name string
	run  func(args []string) error
}

var families = map[string]func(args []string) error{}

func main() {
	if len(os.Args) < 2 {
		fmt.Fprintln(os.Stderr, "usage: harness <family> [flags]")
		os.Exit(2)
	}
	if os.Getenv("VERIF_LOG") == "" {
		logger.WithNoStdOutErr(logger.GetLogger("harness"))
	}
	f, ok := families[os.Args[1]]
	if !ok {
		fmt.Fprintf(os.Stderr, "unknown family %q\n", os.Args[1])
		os.Exit(2)
	}
	if err := f(os.Args[2:]); err != nil {
		fmt.Fprintf(os.Stderr, "harness %s: %v\n", os.Args[1], err)
		os.Exit(2)
	}
}
