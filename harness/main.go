// Command harness executes model-generated scenarios against the real
// coredhcp code (built from /repo's working tree with -tags verif) and records
// one ndjson trace line per linearization point. The traces are validated by
// TLC against the specifications in /verif/spec.
package main

import (
	"fmt"
	"os"

	"github.com/coredhcp/coredhcp/logger"
	"github.com/sirupsen/logrus"
)

type family struct {
	name string
	run  func(args []string) error
}

var families = map[string]func(args []string) error{}

func main() {
	if len(os.Args) < 2 {
		fmt.Fprintln(os.Stderr, "usage: harness <family> [flags]")
		os.Exit(2)
	}
	if os.Getenv("VERIF_LOG") == "" {
		logger.WithNoStdOutErr(logger.GetLogger("harness"))
	}
	// -loglevel=debug|info|warning|error anywhere on the command line: the server's log level (a start-up flag of coredhcp,
	// default info). No property depends on it, so every scenario may be run under any level.
	args := []string{}
	for _, a := range os.Args[2:] {
		if lv, ok := map[string]logrus.Level{"-loglevel=debug": logrus.DebugLevel, "-loglevel=info": logrus.InfoLevel,
			"-loglevel=warning": logrus.WarnLevel, "-loglevel=error": logrus.ErrorLevel}[a]; ok {
			logger.GetLogger("harness").Logger.SetLevel(lv)
			continue
		}
		args = append(args, a)
	}
	f, ok := families[os.Args[1]]
	if !ok {
		fmt.Fprintf(os.Stderr, "unknown family %q\n", os.Args[1])
		os.Exit(2)
	}
	if err := f(args); err != nil {
		fmt.Fprintf(os.Stderr, "harness %s: %v\n", os.Args[1], err)
		os.Exit(2)
	}
}
