package main

// Family config (property C18): renders abstract configuration documents
// (spec/Config.tla) to YAML text in several spellings, passes the file to the
// real config.Load, and records the abstracted result together with the host's
// interface list. Seeded byte/line mutations of the rendered texts are loaded
// as well (for those only "error, not panic" is required).

import (
	"flag"
	"fmt"
	"math/rand"
	"net"
	"os"
	"os/exec"
	"path/filepath"
	"strings"

	"github.com/coredhcp/coredhcp/config"
)

func init() { families["config"] = runConfig }

type cspec struct {
	ip      string // class
	written string
	bracket bool
	zone    string
	port    int // -1 none, -2 garbage, else number
	colon   bool
	lead    bool // the port is written with a leading zero (still a decimal number)
}

type citem struct {
	k    string
	name string
	args []string
}

type csec struct {
	shape   string // "" : a mapping (the usual case) | "scalar" | "number" | "bool" | "list" | "emptylist": the section's value is not a mapping
	present bool
	listenK string
	specs   []cspec
	iface   string
	plugK   string
	items   []citem
}

func ipText(class string, r *rand.Rand) string {
	switch class {
	case "v4":
		return []string{"10.1.2.3", "127.0.0.1", "192.168.0.1", "0.0.0.0"}[r.Intn(4)]
	case "v6":
		return []string{"2001:db8::1", "::1", "fe80::1", "2001:0db8:0000:0000:0000:0000:0000:0042", "::"}[r.Intn(5)]
	case "v4mapped":
		return "::ffff:10.0.0.1"
	case "mc4":
		return []string{"224.0.0.1", "224.0.0.252"}[r.Intn(2)]
	case "mc6":
		// link- and interface-scoped groups, also with flag bits set (the scope is the low nibble of the second byte)
		return []string{"ff02::1:2", "FF02::1:2", "ff01::1", "ff12::1:2", "ff32:40:fe80::1:2", "ff11::1:2", "ff72::8000:1"}[r.Intn(7)]
	case "garbage":
		return []string{"notanip", "300.1.1.1", "10.0.0", "2001:db8::g", "1.2.3.4.5", "fe80::1%lo%lo", "10.0.0.1%lo%eth0", "::%%lo", "fe80::1%25lo%lo",
			"[fe80::1]%lo", "[ff02::1:2]%lo", "[::]%", "[fe80::1]%"}[r.Intn(13)]
	}
	return ""
}

func (s cspec) text() string {
	h := s.written
	if s.zone != "" {
		h += "%" + s.zone
	}
	if s.bracket {
		h = "[" + h + "]"
	}
	switch {
	case s.port == -2:
		return h + ":" + []string{"abc", "67x", "1.5", " 67", "0x43", "6_7", "0o103", "0b1000011", "1e3"}[(len(s.written)+len(s.zone))%9]
	case s.port >= 0 && s.lead:
		return fmt.Sprintf("%s:0%d", h, s.port)
	case s.port >= 0:
		return fmt.Sprintf("%s:%d", h, s.port)
	case s.colon:
		return h + ":"
	}
	return h
}

func (s cspec) ev() Ev {
	canon := ""
	if ip := net.ParseIP(s.written); ip != nil {
		canon = ip.String()
	}
	return Ev{"ip": s.ip, "text": canon, "bracket": s.bracket, "zone": s.zone, "port": s.port, "written": s.text()}
}

func q(s string, r *rand.Rand) string {
	switch r.Intn(3) {
	case 0:
		return "\"" + s + "\""
	case 1:
		return "'" + s + "'"
	}
	// plain scalars only when YAML reads them back as the same string
	if s == "" || strings.ContainsAny(s, "[]{}%#:,&*!|>'\"@`") || strings.HasPrefix(s, " ") || strings.HasSuffix(s, " ") || strings.HasPrefix(s, "-") {
		return "\"" + s + "\""
	}
	for _, c := range s {
		if c < '0' || c > '9' {
			return s
		}
	}
	return "\"" + s + "\""
}

func (sec csec) render(name string, r *rand.Rand) string {
	if !sec.present {
		return ""
	}
	var b strings.Builder
	if sec.shape != "" {
		// present, but not a mapping: there is no plugins list in it (abstractly: plugins absent)
		return name + ":" + map[string]string{"scalar": " plugins", "number": " 547", "bool": " true", "list": "\n  - plugins\n  - listen", "emptylist": " []"}[sec.shape] + "\n"
	}
	b.WriteString(name + ":\n")
	wrListen := func() {
		switch sec.listenK {
		case "scalar":
			b.WriteString("  listen: " + q(sec.specs[0].text(), r) + "\n")
		case "list":
			if len(sec.specs) == 0 {
				b.WriteString("  listen: []\n")
			} else if r.Intn(2) == 0 {
				var xs []string
				for _, s := range sec.specs {
					xs = append(xs, "\""+s.text()+"\"")
				}
				b.WriteString("  listen: [" + strings.Join(xs, ", ") + "]\n")
			} else {
				b.WriteString("  listen:\n")
				for _, s := range sec.specs {
					b.WriteString("    - " + q(s.text(), r) + "\n")
				}
			}
		}
	}
	wrPlugins := func() {
		switch sec.plugK {
		case "null":
			b.WriteString("  plugins:\n")
		case "emptylist":
			b.WriteString("  plugins: []\n")
		case "scalar":
			b.WriteString("  plugins: dns\n")
		case "map":
			b.WriteString("  plugins:\n    dns: 8.8.8.8\n")
		case "list":
			if len(sec.items) == 0 {
				b.WriteString("  plugins: []\n")
				return
			}
			b.WriteString("  plugins:\n")
			for _, it := range sec.items {
				switch it.k {
				case "one":
					if len(it.args) == 0 {
						b.WriteString("    - " + it.name + ":" + []string{"", " \"\"", " ''"}[r.Intn(3)] + "\n")
					} else {
						sep := []string{" ", "  ", " \t "}[r.Intn(3)]
						v := strings.Join(it.args, sep)
						if sep != " " || r.Intn(2) == 0 || strings.ContainsAny(v, "[]{}#&*!|>'\"@`%") || strings.Contains(v, ": ") {
							v = "\"" + v + "\""
						}
						b.WriteString("    - " + it.name + ": " + v + "\n")
					}
				case "two":
					b.WriteString("    - dns: 8.8.8.8\n      sleep: 1s\n")
				case "scalar":
					b.WriteString("    - " + []string{"sleep 300ms", "dns", "\"file leases.txt\"", "~", "42"}[r.Intn(5)] + "\n")
				}
			}
		}
	}
	wrIface := func() {
		if sec.iface != "" {
			b.WriteString("  interface: " + q(sec.iface, r) + "\n")
		}
	}
	order := r.Perm(3)
	for _, o := range order {
		switch o {
		case 0:
			wrListen()
		case 1:
			wrPlugins()
		case 2:
			wrIface()
		}
	}
	return b.String()
}

func (sec csec) ev() Ev {
	specs := []Ev{}
	for _, s := range sec.specs {
		specs = append(specs, s.ev())
	}
	items := []Ev{}
	for _, it := range sec.items {
		a := it.args
		if a == nil {
			a = []string{}
		}
		items = append(items, Ev{"k": it.k, "name": it.name, "args": a})
	}
	lk, pk := sec.listenK, sec.plugK
	if !sec.present {
		lk, pk = "absent", "absent"
	}
	if lk == "scalar" && len(sec.specs) == 1 && sec.specs[0].text() == "" {
		// a scalar is a whitespace-separated list of specifications; the empty string lists none
		lk, specs = "list", []Ev{}
	}
	return Ev{"present": sec.present, "listen": Ev{"k": lk, "specs": specs}, "iface": sec.iface, "plugins": Ev{"k": pk, "items": items}}
}

func absSection(sc *config.ServerConfig) Ev {
	if sc == nil {
		return Ev{"present": false, "addrs": []Ev{}, "plugins": []Ev{}}
	}
	addrs := []Ev{}
	for _, a := range sc.Addresses {
		ip := ""
		if a.IP != nil {
			ip = a.IP.String()
		}
		addrs = append(addrs, Ev{"ip": ip, "port": a.Port, "zone": a.Zone})
	}
	pls := []Ev{}
	for _, p := range sc.Plugins {
		args := p.Args
		if args == nil {
			args = []string{}
		}
		pls = append(pls, Ev{"name": p.Name, "args": args})
	}
	return Ev{"present": true, "addrs": addrs, "plugins": pls}
}

var cfgWords = []string{"8.8.8.8", "2001:db8::1", "leases.txt", "autorefresh", "3600s", "LL", "00:de:ad:be:ef:00", "1500", "example.org",
	"10.0.0.0/24,10.0.0.1", "http://boot.example/x.efi", "255.255.255.0", "a,b", "x=y", "/var/lib/leases.sqlite",
	// plain scalars that YAML does not read as strings (floats small and huge, a bool): the argument is what was written
	"0.00005", "100000000000000000000000", "1.5", "true", "0.000012"}
var cfgNames = []string{"dns", "sleep", "file", "server_id", "foo_bar", "range"}

func randItems(r *rand.Rand, n int, onlyGood bool) []citem {
	var its []citem
	for i := 0; i < n; i++ {
		x := r.Intn(10)
		switch {
		case x < 7 || onlyGood:
			na := r.Intn(4)
			var args []string
			for j := 0; j < na; j++ {
				args = append(args, cfgWords[r.Intn(len(cfgWords))])
			}
			its = append(its, citem{"one", cfgNames[r.Intn(len(cfgNames))], args})
		case x < 8:
			its = append(its, citem{k: "two"})
		default:
			its = append(its, citem{k: "scalar"})
		}
	}
	return its
}

func goodSection(r *rand.Rand) csec {
	return csec{present: true, listenK: "absent", plugK: "list", items: randItems(r, 1+r.Intn(3), true)}
}

func loadDoc(t *Trace, dir string, k int, s4, s6 csec, ifs []Ev, r *rand.Rand, mutations int) {
	text := s6.render("server6", r) + s4.render("server4", r)
	if r.Intn(2) == 0 {
		text = s4.render("server4", r) + s6.render("server6", r)
	}
	if text == "" {
		text = "# nothing configured\n"
	}
	// the name of the file says nothing about its content: it is a YAML document whatever it is called
	path := filepath.Join(dir, fmt.Sprintf("conf-%d%s", k, []string{".yml", ".yml", ".yaml", ".conf", ".cfg", "", ".yml.new", ".json", ".toml"}[k%9]))
	os.WriteFile(path, []byte(text), 0o644)
	var (
		c   *config.Config
		err error
		pan interface{}
	)
	func() {
		defer func() { pan = recover() }()
		c, err = config.Load(path)
	}()
	res := Ev{"err": err != nil || pan != nil, "panic": pan != nil, "msg": "", "s4": absSection(nil), "s6": absSection(nil)}
	if err != nil {
		res["msg"] = err.Error()
	}
	if c != nil && err == nil {
		res["s4"], res["s6"] = absSection(c.Server4), absSection(c.Server6)
	}
	t.Emit(Ev{"ev": "load", "doc": Ev{"s4": s4.ev(), "s6": s6.ev()}, "ifs": ifs, "res": res, "text": text})
	// mutated texts: only "no panic" is required
	for m := 0; m < mutations; m++ {
		b := []byte(text)
		for n := 1 + r.Intn(3); n > 0 && len(b) > 0; n-- {
			i := r.Intn(len(b))
			switch r.Intn(6) {
			case 0:
				b[i] ^= byte(1 << uint(r.Intn(8)))
			case 1:
				b = append(b[:i], b[i+1:]...)
			case 2:
				const junk = ":-[]{}\"'%#\n\t *&!|>"
				b = append(b[:i], append([]byte{junk[r.Intn(len(junk))]}, b[i:]...)...)
			case 3:
				b = b[:i]
			case 4:
				lines := strings.Split(string(b), "\n")
				j := r.Intn(len(lines))
				lines = append(lines[:j], append([]string{lines[r.Intn(len(lines))]}, lines[j:]...)...)
				b = []byte(strings.Join(lines, "\n"))
			default:
				b = append(b[:i], append([]byte("\n  - "), b[i:]...)...)
			}
		}
		os.WriteFile(path, b, 0o644)
		var perr error
		var pp interface{}
		func() {
			defer func() { pp = recover() }()
			_, perr = config.Load(path)
		}()
		fr := "ok"
		if pp != nil {
			fr = "panic"
		} else if perr != nil {
			fr = "err"
		}
		t.Emit(Ev{"ev": "fuzz", "res": fr, "text": string(b)})
	}
	os.Remove(path)
}

func runConfig(args []string) error {
	fs := flag.NewFlagSet("config", flag.ContinueOnError)
	out := fs.String("out", "trace.ndjson", "trace file")
	seed := fs.Int64("seed", 1, "seed")
	mutations := fs.Int("mutations", 2, "mutated texts per document")
	random := fs.Int("random", 600, "additional random documents")
	dir := fs.String("dir", "", "scratch directory")
	if err := fs.Parse(args); err != nil {
		return err
	}
	if *dir == "" {
		d, err := os.MkdirTemp("", "config")
		if err != nil {
			return err
		}
		defer os.RemoveAll(d)
		*dir = d
	}
	os.MkdirAll(*dir, 0o755)
	t, err := NewTrace(*out)
	if err != nil {
		return err
	}
	defer t.Close()
	// one more interface for this run when the sandbox allows it: a tun device is multicast-capable but cannot broadcast
	// (link-local multicast listeners are expanded to the SUITABLE interfaces only: DHCPv4 needs broadcast as well)
	tun := fmt.Sprintf("vft%d", os.Getpid()%100000)
	if exec.Command("ip", "tuntap", "add", "dev", tun, "mode", "tun").Run() == nil {
		exec.Command("ip", "link", "set", tun, "up").Run()
		defer exec.Command("ip", "tuntap", "del", "dev", tun, "mode", "tun").Run()
	}
	ifs := []Ev{}
	zoneName := "eth0"
	nifs, _ := net.Interfaces()
	for _, i := range nifs {
		ifs = append(ifs, Ev{"name": i.Name, "mcast": i.Flags&net.FlagMulticast != 0, "bcast": i.Flags&net.FlagBroadcast != 0})
		if i.Name != tun {
			zoneName = i.Name
		}
	}
	r := rand.New(rand.NewSource(*seed))
	k := 0
	absent := csec{present: false, listenK: "absent", plugK: "absent"}
	classes := []string{"none", "v4", "v6", "v4mapped", "mc4", "mc6", "garbage"}
	// (a) every single listen specification, scalar and one-element list, for both protocols
	for _, ver := range []int{4, 6} {
		for _, lk := range []string{"scalar", "list"} {
			for _, cl := range classes {
				for _, br := range []bool{false, true} {
					if cl == "none" && br {
						continue
					}
					for _, zone := range []string{"", zoneName, "nosuchif0"} {
						for _, port := range []int{-1, -2, 1067, 0, 65535, -3, -4, -5, 65603, 66083, 65536, 4294967363} {
							sp := cspec{ip: cl, written: ipText(cl, r), bracket: br, zone: zone, port: port}
							if port == -3 {
								sp.port, sp.colon = -1, true
							}
							if port == -4 || port == -5 { // "067" / "0547": a decimal number with a leading zero
								sp.port, sp.lead = map[int]int{-4: 67, -5: 547}[port], true
							}
							sec := csec{present: true, listenK: lk, specs: []cspec{sp}, plugK: "list", items: randItems(r, 1+r.Intn(2), true)}
							k++
							other := absent
							if r.Intn(3) == 0 {
								other = goodSection(r)
							}
							if ver == 4 {
								loadDoc(t, *dir, k, sec, other, ifs, r, *mutations)
							} else {
								loadDoc(t, *dir, k, other, sec, ifs, r, *mutations)
							}
						}
					}
				}
			}
		}
	}
	// (b0) a section that is present but not a mapping, next to a valid section of the other protocol
	for _, ver := range []int{4, 6} {
		for _, shape := range []string{"scalar", "number", "bool", "list", "emptylist"} {
			for rep := 0; rep < 2; rep++ {
				sec := csec{present: true, shape: shape, listenK: "absent", plugK: "absent"}
				other := goodSection(r)
				if rep == 1 {
					other = absent
				}
				k++
				if ver == 4 {
					loadDoc(t, *dir, k, sec, other, ifs, r, *mutations)
				} else {
					loadDoc(t, *dir, k, other, sec, ifs, r, *mutations)
				}
			}
		}
	}
	// (b) plugin section shapes
	for _, ver := range []int{4, 6} {
		for _, pk := range []string{"absent", "null", "emptylist", "scalar", "map", "list"} {
			for n := 0; n <= 3; n++ {
				for rep := 0; rep < 6; rep++ {
					if pk != "list" && (n > 0 || rep > 1) {
						continue
					}
					sec := csec{present: true, listenK: "absent", plugK: pk}
					if pk == "list" {
						sec.items = randItems(r, n, false)
					}
					if r.Intn(2) == 0 {
						sec.listenK = "scalar"
						sec.specs = []cspec{{ip: "none", port: 1067 + r.Intn(3)}}
					}
					k++
					if ver == 4 {
						loadDoc(t, *dir, k, sec, absent, ifs, r, *mutations)
					} else {
						loadDoc(t, *dir, k, absent, sec, ifs, r, *mutations)
					}
				}
			}
		}
	}
	// (c) random documents: lists of specs, interface keyword, both protocols
	for i := 0; i < *random; i++ {
		mk := func(ver int) csec {
			if r.Intn(5) == 0 {
				return absent
			}
			sec := csec{present: true, plugK: "list", items: randItems(r, 1+r.Intn(3), r.Intn(4) != 0), listenK: "absent"}
			switch r.Intn(4) {
			case 0:
			case 1:
				sec.listenK = "scalar"
			default:
				sec.listenK = "list"
			}
			n := 1
			if sec.listenK == "list" {
				n = r.Intn(4)
			}
			if sec.listenK != "absent" {
				for j := 0; j < n; j++ {
					cl := classes[r.Intn(len(classes))]
					if r.Intn(2) == 0 { // mostly addresses of the right family
						cl = map[int][]string{4: {"none", "v4", "mc4", "v4mapped"}, 6: {"none", "v6", "mc6"}}[ver][r.Intn(3)]
					}
					sp := cspec{ip: cl, written: ipText(cl, r), bracket: r.Intn(3) != 0 && cl != "none", zone: []string{"", "", zoneName}[r.Intn(3)],
						port: []int{-1, -1, 1067, 547, 67, -2}[r.Intn(6)], lead: r.Intn(5) == 0}
					sec.specs = append(sec.specs, sp)
				}
			}
			if r.Intn(6) == 0 {
				sec.iface = zoneName
			}
			return sec
		}
		k++
		loadDoc(t, *dir, k, mk(4), mk(6), ifs, r, *mutations)
	}
	return nil
}
