#!/bin/bash
# tools/seedrun.sh <seed-id> <property>... : applies an already stored seeded change to /repo, runs the quick checks, undoes it
id=$1; shift
git -C /repo apply /verif/seeded/$id/patch.diff || { echo "$id APPLY-FAIL"; exit 2; }
res=""
for p in "$@"; do timeout 2400 ./check $p --tier quick > /tmp/seedrun-$id-$p.log 2>&1; res="$res $p=$?"; done
git -C /repo checkout -- . && git -C /repo clean -fdq
echo "$id$res"
