#!/usr/bin/env python3
"""Regenerates /verif/MANIFEST.json from the table below (keeps it valid against the schema)."""
import json, os, subprocess, sys
V = os.path.dirname(os.path.dirname(os.path.abspath(__file__)))

BASELINE_OFF = ("cd /repo && GOFLAGS=-mod=mod GOPROXY=off GOSUMDB=off GOTOOLCHAIN=local "
                "go test -mod=mod -json -vet=off -count=1 -timeout 25m ./...")

# id -> (engine, technique, level text, level note, design_ref)
CLAIMED = {
 "C20": ("IPCalc", "TLA+ spec of the arithmetic (limb reference + transcribed algorithm) checked exhaustively by TLC for small word sizes; records of the real Offset/AddPrefixes validated line by line by TLC against the 128-bit limb reference",
         "TLC proves reference = algorithm = mathematical statement for every case of a 6/8-bit world; every such case is embedded into 128 bit and executed on the real functions, plus seeded boundary/random 128-bit cases; TLC recomputes the expected value of every record. Exhaustive for the small world, sampled at 128 bit.",
         "trusted: limb conversion in harness/ipcalc.go, TLC; preconditions re-checked by TLC (PreOK)", "DESIGN.md section 3 C20"),
}
_ALLOC_NOTE = "trusted: block-index/alignment/containment abstraction in harness/alloc.go (math/big), TLC; pools <= 1000 blocks; concurrency is sampled (16 goroutines) plus deterministic exclusion probes"
for _i, _t in {
  "C04": "Disjointness is an invariant of Alloc.tla and of the fine-grained AllocConc.tla (every interleaving of lock/test/set/unlock, TLC exhaustive); every (out-state x letter-sequence) of the 1..4-block models is replayed on both real allocators and validated by TLC, plus word-boundary random walks, the exclusion probe derived from the lock-free model's counterexample and a 16-goroutine stress whose in-lock observation points give the linearization order. Big pools (8192 .. 2^34 blocks, block numbers relabelled for TLC) driven densely (mode dense). Thorough: TLAPS proof of Alloc's inductive invariant for every pool size (design only, advisory).",
  "C05": "Capacity/in-pool/size are action properties of Alloc.tla (TLC exhaustive, N<=4); every out-state x letter-sequence replayed on both allocators over a table of pool geometries (incl. single block, ranges ending at 255.255.255.255, IPv6 pools on both sides of the 64-bit boundary) and validated by TLC; exhaustion reached in every pool. Big pools (8192 .. 2^34 blocks, block numbers relabelled for TLC) driven densely (mode dense). Thorough: TLAPS proof of Alloc's inductive invariant for every pool size (design only, advisory).",
  "C06": "FreeExact is an action property of Alloc.tla (TLC exhaustive); all sequences include Free of every block, sub-prefix and prefixes below/above the pool, replayed on both allocators and validated by TLC together with the consequences for later Allocate calls. Big pools (8192 .. 2^34 blocks, block numbers relabelled for TLC) driven densely (mode dense).",
  "C07": "HintHonoured is an action property of Alloc.tla (TLC exhaustive); every block of the small pools and the word-boundary blocks of large pools are hinted in every out-state, in 4/16-byte and inside-the-block forms, validated by TLC. Big pools (8192 .. 2^34 blocks, block numbers relabelled for TLC) driven densely (mode dense).",
}.items():
    CLAIMED[_i] = ("Alloc", "TLA+ model of the allocators (atomic + fine-grained concurrent) checked by TLC; all bounded operation sequences executed on the real allocators and validated by TLC trace checking under the property's lens", _t, _ALLOC_NOTE, "DESIGN.md section 3 C04-C07")
_RANGE_NOTE = "trusted: harness/range.go (request construction via the codec, yiaddr->index, option 51 decoding, row attribution), TLC; whole-second lease times; database copied at quiescent points; no clock injection (2.1 s real sleeps stand for the model's Tick)"
CLAIMED["C02"] = ("RangeLease", "TLA+ model of the range plugin (map + table + allocator, restart, clock) checked by TLC; all bounded request histories and long seeded histories executed on the real plugin through Plugin.Setup4 and validated by TLC trace checking; concurrency by in-lock linearization points, 16-goroutine stress and the exclusion probe of the lock-free schedule",
   "InRange/Unique/Sticky/LeaseTimeOK/DropsOnlyUnknownWhenFull are invariants/action properties of RangeLease.tla (TLC exhaustive: 3 clients, 2 addresses, restarts, clock); every history of the tier's depth on a 2-address range and seeded long histories on word-boundary ranges are run on the real plugin and validated line by line.", _RANGE_NOTE, "DESIGN.md section 3 C02-C03")
CLAIMED["C03"] = ("RangeLease", "same model; every prefix of every executed history is a crash point: the sqlite file is copied, a fresh Setup4 runs on the copy, all clients are re-queried, remaining capacity is counted and the rows are read; TLC validates each probe against the monitor",
   "DbRestoresReplied/DbMatchesMemWhenQuiet/DbNoDuplicates/RestartIdempotent/ExpiryOK hold in every state of RangeLease.tla (every state, also between row write and reply, is a crash point); on the real code every quiescent point of every executed history is probed.", _RANGE_NOTE, "DESIGN.md section 3 C02-C03")
_PFX_NOTE = "trusted: harness/prefix.go (codec round trips, prefix -> block index/base/length), TLC; messages carry a client id and distinct IAIDs; no lease expiry within a run"
CLAIMED["C08"] = ("PrefixPD", "TLA+ model of the prefix plugin (three matching passes per IA_PD over recorded leases + policy-free allocator) checked by TLC; all bounded message sequences over state-relative hint kinds executed on the real plugin through Plugin.Setup6 (codec both ways, direct and relayed) and validated by TLC trace checking",
   "DisjointAcrossClients/AllocatorCoversTold/OneAnswerPerIA hold in every state/transition of PrefixPD.tla (TLC exhaustive: 2 clients, 3 blocks, <=2 IA_PDs, <=2 hints, 2-3 messages); ~10^5 message sequences are run on the real plugin and every reply is validated against the monitor.", _PFX_NOTE, "DESIGN.md section 3 C08-C09")
CLAIMED["C09"] = ("PrefixPD", "same model; RenewAndRepeat / NoGrowthOnRepeat / Remembered as action properties and invariants (TLC exhaustive) and as lens guards over the monitor (what each client was told, promised expiry) on the real plugin's replies",
   "Every executed sequence contains exact renewals, hint-less repeats, several hints and length-0 hints relative to what the client holds; the replays of the four repaired defects run in every tier.", _PFX_NOTE, "DESIGN.md section 3 C08-C09")
CLAIMED["C10"] = ("StaticFile", "TLA+ model of lease files (line grammar, whole-file parse, last-wins map), per-protocol tables, one-step edits and watcher reloads checked by TLC incl. liveness; all files of <= 3 lines and seeded edit sequences executed on the real plugin (Setup4/Setup6, fsnotify autorefresh observed through reload observation points) and validated by TLC trace checking",
   "AllOrNothing/Quiescent/Isolation/Eventually hold in StaticFile.tla (TLC exhaustive: 2 MACs, 2 addresses, files <= 2 lines, 2 edits, both protocols); on the real plugin 3770 (protocol, file) pairs are loaded and read back through the handlers, plus dual-stack and autorefresh edit sequences with good/malformed contents.",
   "trusted: harness/file.go (rendering abstract lines to text, single-syscall edits, handler queries), fsnotify one event per write syscall, TLC; in-place updates only", "DESIGN.md section 3 C10")
_DISP_NOTE = "trusted: harness/dispatch.go (datagram construction, the harness's own parse of what it sent, comparison of the captured reply, frame decoding), the server send/frame hooks, TLC; an unbound listener always learns the arrival interface"
CLAIMED["C11"] = ("Dispatch", "HandleMsg4's base-reply rules as a pure TLA+ function, shown by TLC to satisfy the declarative statement on the whole abstract input product; the same product fed as concrete datagrams (bytes) to the real HandleMsg4 through the socket-less listener, captured replies validated by TLC",
   "C11Says holds for Reply4 on 2 x 256 x 257 x ... abstract inputs (TLC, every input one state); the real handler is driven with the same product (quick tier thins the non-request corner, thorough is the whole product) with random remaining fields, receive buffers poisoned after they return to the pool.", _DISP_NOTE, "DESIGN.md section 3 C11-C15")
CLAIMED["C12"] = ("Dispatch", "HandleMsg6's base-reply / relay mirroring / destination rules as a TLA+ function checked against the declarative statement by TLC on the whole product; the product fed as bytes to the real HandleMsg6, captured (reply, peer, control message) validated by TLC",
   "C12Says holds for Reply6 on 327680 abstract inputs; real datagrams with relay depth 0..4 and random per-layer link/peer/Interface-ID are answered and the serialised reply is walked layer by layer.", _DISP_NOTE, "DESIGN.md section 3 C11-C15")
CLAIMED["C13"] = ("Dispatch", "RunChain / LoadPlugins as TLA+ functions checked against the declarative statement by TLC for all chains <= 5 and all plugin-kind lists <= 3; synthetic plugins registered through RegisterPlugin, loaded by the real LoadPlugins and driven through HandleMsg4/6 log what they were handed; TLC validates invocation order, hand-over and what was sent",
   "All 3906 chains x both protocols and ~10^3 configurations run through the real loader and dispatch loops.", _DISP_NOTE, "DESIGN.md section 3 C11-C15")
CLAIMED["C15"] = ("Dispatch", "the RFC 2131 section 4.1 destination cascade as a TLA+ function, one declarative conjunct per sentence, equivalence checked by TLC on the whole addressing product; the product fed to the real HandleMsg4, (peer, control message, link-level flag) captured by the send hook and the Ethernet frame by the frame hook, validated by TLC",
   "Exhaustive over giaddr/ciaddr class x flag x type x reply type x yiaddr x bound/unbound x arrival interface; link-level replies run through sendEthernet up to the frame on a real interface with a hardware address.", _DISP_NOTE, "DESIGN.md section 3 C11-C15")
_PLUG_NOTE = "trusted: harness/plugins.go (request construction via the codec, its own encoders of configured values, byte comparison with the serialised reply), TLC; one configuration per process"
CLAIMED["C14"] = ("Plugins", "the server_id decision tables (RFC 8415 section 16 matrix; siaddr x option 54) as TLA+ operators, checked by TLC against the declarative statement on the whole request product; the product executed on the real handlers from Plugin.Setup4/Setup6 and validated by TLC",
   "All DHCPv6 types 1..11 x {no, same, other kind, equal-prefix longer, differing} server id x relay depth 0..2 and all siaddr x option-54 combinations, for several accepted server_id arguments.", _PLUG_NOTE, "DESIGN.md section 3 C14/C17/C19")
CLAIMED["C17"] = ("Plugins", "per-plugin entitlement tables as TLA+ operators checked by TLC; every accepted configuration x request product executed on the real handlers (fresh process per configuration), the serialised reply decoded and compared with the configured arguments, validated by TLC",
   "Expect4/Expect6 tables cover netmask, router, searchdomains, staticroute, dns, mtu, nbp, lease_time, ipv6only, autoconfigure, sleep for both protocols; all 33 parameter request lists incl. an absent one.", _PLUG_NOTE, "DESIGN.md section 3 C14/C17/C19")
CLAIMED["C19"] = ("Plugins", "setup/handle as a two-state machine (rejected | accepted => every request handled without panic and with a round-tripping reply); all argument vectors of the tier's arity for all 15 plugins executed in one process each and validated by TLC; a child process dying is an observation without action",
   "~10^4 (quick) to ~4x10^4 (thorough) argument vectors x a battery of requests; fatal runtime errors of the code under test (not recoverable by recover()) are caught because every configuration runs in its own process.", _PLUG_NOTE + "; one recorded finding (prefix pools of 2^33..2^63 blocks die of OOM at start-up)", "DESIGN.md section 3 C14/C17/C19")
CLAIMED["C18"] = ("Config", "config.Load as a TLA+ function from an abstract YAML document and the interface list to error | listener and plugin lists, shown by TLC to satisfy the declarative sentences on a product of documents; documents rendered to YAML text (several spellings), loaded by the real config.Load and the abstracted result compared by TLC; seeded text mutations for the no-panic clause",
   "341952 abstract documents in Leg A; ~1600 (quick) to ~10^5 (thorough) rendered documents with every single listen specification and plugins-section shape, plus 2-6 mutated texts each.",
   "trusted: harness/config.go (YAML rendering, abstraction of the result, interface flags), TLC; ports within 0..65535; the arbitrary-text axis is sampled, not exhaustive", "DESIGN.md section 3 C18")
_SRV_NOTE = "trusted: harness/server.go (datagram generators/mutators, per-goroutine capture via the send hooks, watchdog with goroutine-stack inspection), the Go race detector, TLC; datagram bytes and free-running schedules are sampled"
CLAIMED["C01"] = ("Server", "TLA+ model of the server's goroutines, locks (incl. nesting and the file RWMutex), buffer pool and lease plugins; TLC checks termination (WF), at most one reply, no lock left held, also with a panic inside the critical section; chains of real plugins loaded by LoadPlugins are fed model-shaped histories of well-formed and byte-mutated datagrams through HandleMsg4/6 (one process per chain) and every outcome is validated by TLC",
   "Deadlock/termination/lock-release are decided for every interleaving of the bounded model; on the real code ~130 (quick) to ~600 (thorough) chains x 40-120 datagrams each, with recover(), a stack-inspecting watchdog and liveness probes. 'Every byte string' is sampled by seeded mutation, not enumerated.", _SRV_NOTE, "DESIGN.md section 3 C01/C16")
CLAIMED["C16"] = ("Server", "same model: BufferSafe, LockDiscipline, the lease invariants and SerialEquivalent4/6 hold in every interleaving (TLC); the weakened models (lock per IA_PD, panic without unlock) fail and their counterexample schedules are imposed on the real code through the observation points; 16-goroutine runs of full chains on the -race build with concurrent lease-file rewrites are linearized by in-lock observation points and validated by RangeTrace/PrefixTrace/AllocTrace/ServerTrace under lens C16",
   "Serial equivalence and lock discipline are exhaustive in the model (3 datagrams, nearly exhausted pools, one reload); on the real code interleavings are sampled (plus deterministic exclusion probes and the imposed schedule); data-race freedom only as far as the race detector observes these executions.", _SRV_NOTE, "DESIGN.md section 3 C01/C16")
NOT_YET = {}
# what later rounds of strengthening added to a property's check (appended to the level text)
EXTRA = {
 "C16": " Refused datagrams among the concurrent requests (what the server does with their buffers).",
 "C11": " Long options 82 / 61 with option 57; link-level replies on a real interface: the FRAME's payload carries the request's fields. Options no rule reads (Rapid Commit 80, 77, 81, 93, 118, 60) on a third of the datagrams.",
 "C01": " Also on the REAL receive loops: server.Start on loopback UDP sockets, empty / 1-byte / truncated / junk / 60000-byte datagrams each followed by a request that must be answered (Lifecycle.tla: Datagram, ServesWhileOpen; LifecycleTrace under lens C01); clients that remember what they were told come back (conversations); the full chains also run as long-lived processes with liveness probes the chain cannot but answer. Storage-fault histories of the range plugin under a 20 s per-request watchdog (RangeTrace under lens C01: no request waits for ever).",
 "C13": " Start-up order on the real server.Start: a slow (and a slow, failing) plugin setup under a stream of SOLICITs over a real socket - no answer from anything but the configured chain (Lifecycle.tla: Load before Open, NeverServesBare, FailedLoadNeverListened; LifecycleTrace under lens C13); every process first handles 300 requests whose chain ends early. A sixth handler behaviour (nil without stop); the chains again with the server's log level at debug.",
 "C02": " Plus histories with one window of a foreign write transaction on the lease database (transient storage fault), and whole chains (Conv.tla / ConvTrace.tla under lens C02: dynamic clients behind server_id, file, lease_time and option plugins, incl. conversations TLC generated from ConvGen). The configured lease time changes between restarts; requests carry option 51 / 57 or meet a response that already has a lease time. Thorough: TLAPS proof of RangeLease's inductive invariant for every number of clients / addresses / restarts (design only, advisory).",
 "C03": " Plus histories with one window of a foreign write transaction on the lease database: what is handed out after the window must be restored (RangeTrace: fault, nobind, noexp). The promise is what the reply carried. Thorough: TLAPS proof (RangeLeaseProof.tla; design only, advisory).",
 "C10": " Requests carry client identifier options naming other hardware addresses; whole chains (Conv.tla / ConvTrace.tla under lens C10: a listed client gets its address and the chain ends there). The configured name may be a symbolic link: in-place updates through it, then an update published by re-pointing the link.",
 "C14": " The tables run several times over in one process; whole chains (ConvTrace under lens C14). Two Server Identifier options in one message; server_id listed twice. Well-formed option 82 with link selection and RFC 5107 server identifier override (this / another / a random server), options 80, 118, 93.",
 "C17": " Set-ups in both protocol sections of one process (table-dual), shuffled request lists; whole chains (ConvTrace under lens C17: options of exactly the plugins that ran, default lease time only when none is set). Search lists longer than one option instance.",
 "C08": " Long-running instances (a holder asks again after a neighbour renewed g times, g swept across 256 and, thorough, 65536; 300 clients on one pool), sibling client identifiers on one hardware address, hints with length bytes > 128 and shorter than the pool's. One IAID twice in a message, 33 / 40 / 200 IA_PDs in a message, a third configuration argument.",
 "C09": " Long-running instances (a holder asks again after a neighbour renewed g times, g swept across 256 and, thorough, 65536). One IAID twice in a message.",
 "C12": " Every process first handles 300 requests whose chain ends early, then requests that must be answered; Interface-IDs of 0..6 bytes. A second Client Identifier; RFC 4994 echo-request options in relay layers.",
 "C15": " The interface a link-level frame is handed to and its source address are compared; an extra arrival interface with index ifB+256 is created for the run when the sandbox allows it. Listeners made by the real server.Start on this host's own addresses: replies pinned to the ARRIVAL interface (one request injected through a tun device of the run).",
 "C18": " Ports with leading zeros, Go-literal spellings and values beyond 65535. Multicast groups with flag bits; YAML floats / bools as plugin arguments.",
 "C19": " Valid range configurations run into exhaustion; lease databases with unreadable rows / the older schema / not a database. The widest ranges (the whole IPv4 space).",
}

def main():
    props = [json.loads(l) for l in open(os.path.join(V, "properties.jsonl"))]
    hooks = subprocess.run(["git", "-C", "/repo", "log", "--format=%H %s"], stdout=subprocess.PIPE, text=True).stdout.splitlines()
    hook_commits = [l.split()[0] for l in hooks if l.split(" ", 1)[1].startswith("verif:")]
    checks, na, engines = [], [], {}
    for p in props:
        i = p["id"]
        if i in CLAIMED:
            eng, tech, text, note, ref = CLAIMED[i]
            text = text + EXTRA.get(i, "")
            checks.append({
                "property_id": i,
                "quick_cmd": "./check %s --tier quick" % i,
                "thorough_cmd": "./check %s --tier thorough" % i,
                "evidence_file": "evidence/%s.json" % i,
                "replay_cmd_template": "./check %s --replay {path}" % i,
                "engine": eng,
                "level_claimed": {"category": "model_checking", "text": text, "design_ref": ref},
                "level_note": note,
                "technique": tech,
            })
            engines.setdefault(eng, []).append(i)
        else:
            na.append({"property_id": i, "reason": NOT_YET.get(i, "check not built yet (work in progress; see DESIGN.md section 3 for the planned TLA+ model and binding)")})
    m = {
        "version": 1,
        "setup_cmd": "./check --setup",
        "hooks": {"guard": "verif", "enable": "go build -tags verif (the harness in /verif/harness is built with it against /repo's working tree)",
                  "baseline_off_cmd": BASELINE_OFF, "source_commits": list(reversed(hook_commits)), "add_only": True},
        "engines": [{"name": e, "path": "spec/%s.tla" % e, "serves_properties": ps,
                     "kind_free_text": "TLA+ design module + trace module, checked with TLC; bound to the code by trace validation of harness recordings"}
                    for e, ps in engines.items()],
        "checks": checks,
        "not_applicable": na,
        "notes": "All checks: ./check <id> --tier quick|thorough; VERIF_SEED selects the seed. See DESIGN.md.",
    }
    json.dump(m, open(os.path.join(V, "MANIFEST.json"), "w"), indent=1)
    try:
        import jsonschema
        jsonschema.validate(m, json.load(open("/root/.vp/MANIFEST.schema.json")))
        print("MANIFEST.json valid;", len(checks), "claimed,", len(na), "not claimed")
    except ImportError:
        print("jsonschema not available; wrote MANIFEST.json")

if __name__ == "__main__":
    main()
