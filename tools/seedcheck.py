#!/usr/bin/env python3
"""tools/seedcheck.py <seed-id> <src-dir> <property> [<other properties to run> ...]
Confirms a seeded change (patch.diff + demonstration) in a scratch worktree of /repo, stores it under
/verif/seeded/<seed-id>/, then applies it to /repo, runs the given checks (quick tier) and undoes it.
Writes seeded/<seed-id>/meta.json."""
import glob, json, os, re, shutil, subprocess, sys, time

ENV = dict(os.environ, GOFLAGS="-mod=mod", GOPROXY="off", GOSUMDB="off", GOTOOLCHAIN="local")
PKGDIR = {"bitmap_test": "plugins/allocators/bitmap", "bitmap": "plugins/allocators/bitmap", "prefix_test": "plugins/prefix", "prefix": "plugins/prefix",
          "rangeplugin_test": "plugins/range", "rangeplugin": "plugins/range", "file_test": "plugins/file", "file": "plugins/file",
          "allocators_test": "plugins/allocators", "allocators": "plugins/allocators", "server_test": "server", "server": "server",
          "config_test": "config", "config": "config", "plugins_test": "plugins", "plugins": "plugins", "serverid_test": "plugins/serverid", "serverid": "plugins/serverid", "dns_test": "plugins/dns", "dns": "plugins/dns", "mtu_test": "plugins/mtu", "nbp_test": "plugins/nbp", "nbp": "plugins/nbp", "leasetime_test": "plugins/leasetime", "leasetime": "plugins/leasetime", "ipv6only_test": "plugins/ipv6only", "ipv6only": "plugins/ipv6only", "autoconfigure_test": "plugins/autoconfigure", "autoconfigure": "plugins/autoconfigure", "router_test": "plugins/router", "netmask_test": "plugins/netmask", "netmask": "plugins/netmask", "searchdomains_test": "plugins/searchdomains", "searchdomains": "plugins/searchdomains", "staticroute_test": "plugins/staticroute", "staticroute": "plugins/staticroute", "sleep_test": "plugins/sleep", "mtu": "plugins/mtu", "router": "plugins/router", "sleep": "plugins/sleep", "seedout": "seed_out"}


def sh(cmd, cwd, timeout=900):
    p = subprocess.run(cmd, cwd=cwd, env=ENV, shell=True, stdout=subprocess.PIPE, stderr=subprocess.STDOUT, text=True, timeout=timeout)
    return p.returncode, p.stdout


def main():
    sid, src, prop = sys.argv[1:4]
    others = sys.argv[4:]
    dst = os.path.join("/verif/seeded", sid)
    os.makedirs(dst, exist_ok=True)
    for f in os.listdir(src):
        if os.path.isfile(os.path.join(src, f)):
            shutil.copy(os.path.join(src, f), dst)
    meta = {"seed": sid, "breaks_property": prop, "source": "independent sub-agent given only the property text and a scratch worktree"}
    demos = [f for f in os.listdir(dst) if f.endswith("_test.go")]
    patch = os.path.join(dst, "patch.diff")
    # 1. confirm in a scratch worktree
    wt = "/tmp/seedwt-%s" % sid
    sh("git -C /repo worktree remove --force %s 2>/dev/null; git -C /repo worktree add -q --detach %s HEAD" % (wt, wt), "/repo")
    try:
        placed = []
        for d in demos:
            pkg = re.search(r"^package\s+(\w+)", open(os.path.join(dst, d)).read(), re.M).group(1)
            pdir = PKGDIR.get(pkg)
            if not pdir:
                meta["confirm_error"] = "unknown demo package " + pkg
                continue
            shutil.copy(os.path.join(dst, d), os.path.join(wt, pdir, "zz_seed_" + d))
            placed.append(pdir)
            meta.setdefault("demo_package_dirs", []).append(pdir)
        pk = " ".join("./" + p for p in sorted(set(placed)))
        rc0, out0 = sh("go test -tags verif -vet=off -count=1 %s" % pk, wt) if placed else (1, "no demo")
        meta["demo_passes_without_change"] = rc0 == 0
        rca, outa = sh("git apply %s" % patch, wt)
        rcb, outb = sh("go build ./... && go build -tags verif ./...", wt)
        meta["compiles_with_change"] = rca == 0 and rcb == 0
        # existing suite without the demo files
        for p in placed:
            for f in glob.glob(os.path.join(wt, p, "zz_seed_*")):
                os.rename(f, f + ".off")
        rcs, outs = sh("go test -vet=off -count=1 ./...", wt)
        meta["existing_suite_passes_with_change"] = rcs == 0
        for p in placed:
            for f in glob.glob(os.path.join(wt, p, "zz_seed_*.off")):
                os.rename(f, f[:-4])
        rc1, out1 = sh("go test -tags verif -vet=off -count=1 %s" % pk, wt) if placed else (0, "no demo")
        meta["demo_fails_with_change"] = rc1 != 0
        meta["demo_output_with_change"] = out1[-1500:]
        meta["confirmed"] = bool(meta["demo_passes_without_change"] and meta["compiles_with_change"] and meta["existing_suite_passes_with_change"] and meta["demo_fails_with_change"])
    finally:
        sh("git -C /repo worktree remove --force %s" % wt, "/repo")
        sh("go clean -cache >/dev/null 2>&1 || true", "/repo") if False else None
    # 2. run our checks against it
    rc, st = sh("git status --porcelain", "/repo")
    if st.strip():
        print("/repo is dirty, not applying", st)
        sys.exit(2)
    results = {}
    rca, outa = sh("git apply %s" % patch, "/repo")
    try:
        if rca != 0:
            meta["apply_error"] = outa[-500:]
        else:
            for p in [prop] + others:
                t0 = time.time()
                rc, out = sh("./check %s --tier quick" % p, "/verif", timeout=3000)
                viol = [l for l in out.splitlines() if l.startswith("VIOLATION")]
                results[p] = {"exit": rc, "violations": len(viol), "first": viol[:1], "wall_s": round(time.time() - t0, 1),
                              "infra": [l for l in out.splitlines() if l.startswith("INFRA")][:1]}
                shutil.rmtree("/verif/replays", ignore_errors=True)
                os.makedirs("/verif/replays", exist_ok=True)
                open("/verif/replays/README", "w").write("Run-time output: scenario + meta of every violation a check reports (VIOLATION ... replay=<dir>). Re-run with ./check <id> --replay <dir>.\n")
    finally:
        sh("git checkout -- . && git clean -fdq", "/repo")
    meta["checks_run"] = results
    meta["detected_by"] = [p for p, r in results.items() if r["exit"] == 1]
    meta["what_ran"] = "tools/seedcheck.py: scratch worktree confirmation (demo without change, build, existing suite, demo with change), then git apply to /repo, ./check <id> --tier quick, git checkout"
    json.dump(meta, open(os.path.join(dst, "meta.json"), "w"), indent=1)
    print(sid, "confirmed=%s" % meta.get("confirmed"), "detected_by=%s" % meta["detected_by"], {p: (r["exit"], r["wall_s"]) for p, r in results.items()})


if __name__ == "__main__":
    main()
