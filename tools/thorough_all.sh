#!/bin/bash
export VERIF_REPO=$VP_RUN_REPO
for c in C20 C04 C05 C06 C07 C02 C03 C08 C09 C10 C11 C12 C13 C15 C14 C17 C19 C18 C01 C16; do
  s=$(date +%s)
  timeout 3000 ./check $c --tier thorough > out-$c.log 2>&1
  rc=$?
  echo "$c rc=$rc $(( $(date +%s) - s ))s $(grep -cE '^VIOLATION' out-$c.log) viol; $(grep -E 'INFRA' out-$c.log | head -1 | cut -c1-200)"
done
