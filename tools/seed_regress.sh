#!/bin/bash
# Re-applies every seeded change to a snapshot of /repo ($VP_RUN_REPO or a scratch worktree given as $1) and runs the
# quick check of the property it was written against (or the one recorded as detecting it). Expects exit 1 every time.
R=${VP_RUN_REPO:-$1}
[ -d "$R" ] || { echo "need a repo snapshot"; exit 2; }
export VERIF_REPO=$R
ok=0; bad=0; i=0
for d in seeded/*/; do
  i=$((i+1))
  # SEED_SHARD / SEED_SHARDS: this run takes every SEED_SHARDS-th seed (several runs, each on its own snapshot, in parallel)
  [ -n "$SEED_SHARDS" ] && [ $((i % SEED_SHARDS)) -ne ${SEED_SHARD:-0} ] && continue
  id=$(basename $d)
  prop=$(python3 -c "import json;m=json.load(open('$d/meta.json'));print((m.get('detected_by') or [m['breaks_property']])[0])")
  (cd $R && git checkout -q -- . && git clean -fdq && git apply /verif/$d/patch.diff) || { echo "$id APPLY-FAIL"; bad=$((bad+1)); continue; }
  timeout 1500 ./check $prop > out-$id.log 2>&1; rc=$?
  (cd $R && git checkout -q -- . && git clean -fdq)
  if [ $rc -eq 1 ]; then ok=$((ok+1)); echo "$id $prop detected"; else bad=$((bad+1)); echo "$id $prop NOT-DETECTED rc=$rc $(grep -E 'INFRA' out-$id.log | head -1 | cut -c1-160)"; fi
done
echo "detected=$ok missed=$bad"
