---- MODULE Conv6MC_TTrace_1791020219 ----
EXTENDS Sequences, TLCExt, Toolbox, Conv6MC, Naturals, TLC

_expression ==
    LET Conv6MC_TEExpression == INSTANCE Conv6MC_TEExpression
    IN Conv6MC_TEExpression!expression
----

_trace ==
    LET Conv6MC_TETrace == INSTANCE Conv6MC_TETrace
    IN Conv6MC_TETrace!trace
----

_inv ==
    ~(
        TLCGet("level") = Len(_TETrace)
        /\
        msgs = (2)
        /\
        last = ([c |-> "c1", m |-> [mt |-> "request", sid |-> "none", na |-> FALSE, pd |-> TRUE], resp |-> [na |-> 0, pd |-> 0, sent |-> FALSE, type |-> "none", opts |-> {}], before |-> 0])
        /\
        told = ([c1 |-> {}, c2 |-> {}, c3 |-> {}])
        /\
        held = ([c1 |-> 1, c2 |-> 0, c3 |-> 0])
    )
----

_init ==
    /\ told = _TETrace[1].told
    /\ msgs = _TETrace[1].msgs
    /\ last = _TETrace[1].last
    /\ held = _TETrace[1].held
----

_next ==
    /\ \E i,j \in DOMAIN _TETrace:
        /\ \/ /\ j = i + 1
              /\ i = TLCGet("level")
        /\ told  = _TETrace[i].told
        /\ told' = _TETrace[j].told
        /\ msgs  = _TETrace[i].msgs
        /\ msgs' = _TETrace[j].msgs
        /\ last  = _TETrace[i].last
        /\ last' = _TETrace[j].last
        /\ held  = _TETrace[i].held
        /\ held' = _TETrace[j].held

\* Uncomment the ASSUME below to write the states of the error trace
\* to the given file in Json format. Note that you can pass any tuple
\* to `JsonSerialize`. For example, a sub-sequence of _TETrace.
    \* ASSUME
    \*     LET J == INSTANCE Json
    \*         IN J!JsonSerialize("Conv6MC_TTrace_1791020219.json", _TETrace)

=============================================================================

 Note that you can extract this module `Conv6MC_TEExpression`
  to a dedicated file to reuse `expression` (the module in the 
  dedicated `Conv6MC_TEExpression.tla` file takes precedence 
  over the module `Conv6MC_TEExpression` below).

---- MODULE Conv6MC_TEExpression ----
EXTENDS Sequences, TLCExt, Toolbox, Conv6MC, Naturals, TLC

expression == 
    [
        \* To hide variables of the `Conv6MC` spec from the error trace,
        \* remove the variables below.  The trace will be written in the order
        \* of the fields of this record.
        told |-> told
        ,msgs |-> msgs
        ,last |-> last
        ,held |-> held
        
        \* Put additional constant-, state-, and action-level expressions here:
        \* ,_stateNumber |-> _TEPosition
        \* ,_toldUnchanged |-> told = told'
        
        \* Format the `told` variable as Json value.
        \* ,_toldJson |->
        \*     LET J == INSTANCE Json
        \*     IN J!ToJson(told)
        
        \* Lastly, you may build expressions over arbitrary sets of states by
        \* leveraging the _TETrace operator.  For example, this is how to
        \* count the number of times a spec variable changed up to the current
        \* state in the trace.
        \* ,_toldModCount |->
        \*     LET F[s \in DOMAIN _TETrace] ==
        \*         IF s = 1 THEN 0
        \*         ELSE IF _TETrace[s].told # _TETrace[s-1].told
        \*             THEN 1 + F[s-1] ELSE F[s-1]
        \*     IN F[_TEPosition - 1]
    ]

=============================================================================



Parsing and semantic processing can take forever if the trace below is long.
 In this case, it is advised to uncomment the module below to deserialize the
 trace from a generated binary file.

\*
\*---- MODULE Conv6MC_TETrace ----
\*EXTENDS IOUtils, Conv6MC, TLC
\*
\*trace == IODeserialize("Conv6MC_TTrace_1791020219.bin", TRUE)
\*
\*=============================================================================
\*

---- MODULE Conv6MC_TETrace ----
EXTENDS Conv6MC, TLC

trace == 
    <<
    ([msgs |-> 0,last |-> [c |-> "none", m |-> [mt |-> "none", sid |-> "none", na |-> FALSE, pd |-> FALSE], resp |-> [na |-> 0, pd |-> 0, sent |-> FALSE, type |-> "none", opts |-> {}], before |-> 0],told |-> [c1 |-> {}, c2 |-> {}, c3 |-> {}],held |-> [c1 |-> 0, c2 |-> 0, c3 |-> 0]]),
    ([msgs |-> 1,last |-> [c |-> "c3", m |-> [mt |-> "solicit", sid |-> "none", na |-> FALSE, pd |-> FALSE], resp |-> [na |-> 0, pd |-> 0, sent |-> TRUE, type |-> "advertise", opts |-> {"sid", "dns"}], before |-> 0],told |-> [c1 |-> {}, c2 |-> {}, c3 |-> {}],held |-> [c1 |-> 0, c2 |-> 0, c3 |-> 0]]),
    ([msgs |-> 2,last |-> [c |-> "c1", m |-> [mt |-> "request", sid |-> "none", na |-> FALSE, pd |-> TRUE], resp |-> [na |-> 0, pd |-> 0, sent |-> FALSE, type |-> "none", opts |-> {}], before |-> 0],told |-> [c1 |-> {}, c2 |-> {}, c3 |-> {}],held |-> [c1 |-> 1, c2 |-> 0, c3 |-> 0]])
    >>
----


=============================================================================

---- CONFIG Conv6MC_TTrace_1791020219 ----
CONSTANTS
    Clients <- Cl
    N = 2
    MaxMsgs = 3
    Chain <- ChainPrefixFirst6
    Static <- Static6

INVARIANT
    _inv

CHECK_DEADLOCK
    \* CHECK_DEADLOCK off because of PROPERTY or INVARIANT above.
    FALSE

INIT
    _init

NEXT
    _next

CONSTANT
    _TETrace <- _trace

ALIAS
    _expression
=============================================================================
\* Generated on Sat Oct 03 09:37:02 UTC 2026