SPECIFICATION Spec
CONSTANTS
  D4 <- NoD
  D6 <- V6b_D6
  N4 = 1
  N6 = 2
  PerMessage = TRUE
  PanicInCS = FALSE
  DeferUnlock = FALSE
  Reloads = 0
INVARIANTS AtMostOneReply LocksFreeAtRest BufferSafe LockDiscipline RangeUnique RangeInRange PrefixDisjoint SerialEquivalent4 SerialEquivalent6
PROPERTIES Terminates
CHECK_DEADLOCK FALSE
