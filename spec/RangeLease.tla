----------------------------- MODULE RangeLease -----------------------------
(***************************************************************************)
(* The DHCPv4 range plugin (plugins/range/plugin.go, storage.go):          *)
(*   mem   the in-memory map  hardware address -> record  (Recordsv4)      *)
(*   db    the sqlite table leases4 (one row per client)                   *)
(*   the IPv4 bitmap allocator (abstracted to "addresses in ran(mem)")     *)
(* Properties C02 (in range / one client per address / sticky / lease time *)
(* / exhaustion drops only unknown clients) and C03 (the database always   *)
(* restores exactly the bindings handed out; stored expiry not earlier     *)
(* than the promise).                                                      *)
(*                                                                         *)
(* A new binding is one critical section in the code, but it is modelled   *)
(* as two steps (Save: row written; Reply: map updated and reply leaves),  *)
(* so that every state - also the one between them - is a crash point.     *)
(* Address choice for a new client is policy free (any free address).      *)
(***************************************************************************)
EXTENDS Integers, FiniteSets, Sequences, TLC

CONSTANTS Macs,         \* client identities
          N,            \* addresses in the range
          Lease,        \* configured lease time (whole seconds)
          MaxTime,      \* clock bound
          MaxRestarts,
          MaxOps

Addrs == 0 .. (N - 1)
NoMac == "nomac"

VARIABLES mem,       \* [subset of Macs -> Addrs]
          db,        \* [subset of Macs -> [addr, expiry]]
          pend,      \* NoMac, or the client whose row was saved and whose reply has not left yet
          now, restarts, ops,
          first,     \* history: first address ever replied to a client
          promised,  \* history: end of the lease most recently promised to a client
          last       \* observation: the last reply / drop
vars == <<mem, db, pend, now, restarts, ops, first, promised, last>>

Bound(f)   == {f[m] : m \in DOMAIN f}
Ext(f, m, v) == [x \in DOMAIN f \cup {m} |-> IF x = m THEN v ELSE f[x]]
MaxI(a, b) == IF a >= b THEN a ELSE b

Init == /\ mem = << >> /\ db = << >> /\ pend = NoMac
        /\ now = 0 /\ restarts = 0 /\ ops = 0
        /\ first = << >> /\ promised = << >>
        /\ last = [k |-> "none"]

Quiet == pend = NoMac

\* a request (DISCOVER or REQUEST, the plugin does not distinguish) of a bound client
Renew(m) ==
  /\ Quiet /\ ops < MaxOps /\ m \in DOMAIN mem
  /\ db' = [db EXCEPT ![m].expiry = MaxI(@, now + Lease)]
  /\ promised' = Ext(promised, m, now + Lease)
  /\ last' = [k |-> "reply", mac |-> m, addr |-> mem[m], lease |-> Lease]
  /\ ops' = ops + 1
  /\ UNCHANGED <<mem, pend, now, restarts, first>>

\* an unknown client while an address is free: the row is written first ...
Save(m) ==
  /\ Quiet /\ ops < MaxOps /\ m \notin DOMAIN mem /\ Bound(mem) # Addrs
  /\ \E a \in Addrs \ Bound(mem) :
       db' = Ext(db, m, [addr |-> a, expiry |-> now + Lease])
  /\ pend' = m
  /\ ops' = ops + 1
  /\ UNCHANGED <<mem, now, restarts, first, promised, last>>
\* ... then the map is updated and the reply leaves
Reply(m) ==
  /\ pend = m
  /\ mem' = Ext(mem, m, db[m].addr)
  /\ first' = IF m \in DOMAIN first THEN first ELSE Ext(first, m, db[m].addr)
  /\ promised' = Ext(promised, m, db[m].expiry)
  /\ last' = [k |-> "reply", mac |-> m, addr |-> db[m].addr, lease |-> Lease]
  /\ pend' = NoMac
  /\ UNCHANGED <<db, now, restarts, ops>>

\* an unknown client while every address is bound: no reply, nothing changes
Drop(m) ==
  /\ Quiet /\ ops < MaxOps /\ m \notin DOMAIN mem /\ Bound(mem) = Addrs
  /\ last' = [k |-> "drop", mac |-> m]
  /\ ops' = ops + 1
  /\ UNCHANGED <<mem, db, pend, now, restarts, first, promised>>

\* crash + restart at ANY state (also between Save and Reply): the plugin is set up again
\* on the database it wrote; memory is rebuilt from the table, the allocator re-marked
Restart ==
  /\ restarts < MaxRestarts
  /\ mem' = [m \in DOMAIN db |-> db[m].addr]
  /\ pend' = NoMac
  /\ restarts' = restarts + 1
  /\ last' = [k |-> "restart"]
  /\ UNCHANGED <<db, now, ops, first, promised>>

Tick == /\ now < MaxTime /\ now' = now + 1
        /\ UNCHANGED <<mem, db, pend, restarts, ops, first, promised, last>>

Next == \/ \E m \in Macs : Renew(m) \/ Save(m) \/ Reply(m) \/ Drop(m)
        \/ Restart \/ Tick
Spec == Init /\ [][Next]_vars

----------------------------------------------------------------------------
Injective(f) == \A x, y \in DOMAIN f : f[x] = f[y] => x = y

\* C02
InRange   == Bound(mem) \subseteq Addrs /\ (last.k = "reply" => last.addr \in Addrs)
Unique    == Injective(mem)
Sticky    == \A m \in DOMAIN mem \cap DOMAIN first : mem[m] = first[m]
LeaseTimeOK == last.k = "reply" => last.lease = Lease
DropsOnlyUnknownWhenFull ==
  [][\A m \in Macs : (last'.k = "drop" /\ last' # last /\ last'.mac = m)
        => (m \notin DOMAIN mem /\ Bound(mem) = Addrs)]_vars
KnownAlwaysServed ==
  [][\A m \in Macs : (m \in DOMAIN mem /\ Quiet /\ ops < MaxOps) => ENABLED Renew(m)]_vars

\* C03: every state is a crash point
DbRestoresReplied ==   \* none lost or changed: everything replied is in the table
  \A m \in DOMAIN first : m \in DOMAIN db /\ db[m].addr = first[m]
DbMatchesMemWhenQuiet == Quiet => [m \in DOMAIN db |-> db[m].addr] = mem
DbNoDuplicates == Injective([m \in DOMAIN db |-> db[m].addr])
RestartIdempotent == [][(Restart /\ Quiet) => mem' = mem]_vars
ExpiryOK == \A m \in DOMAIN promised : db[m].expiry >= promised[m]
=============================================================================
