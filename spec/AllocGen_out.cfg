SPECIFICATION GSpec
CONSTANTS
  N = 4
  Below = 2
  Above = 2
  Depth = 12
  OnlyOutstanding = TRUE
INVARIANTS Export Disjoint HoldersAreOut
CHECK_DEADLOCK FALSE
