SPECIFICATION Spec
CONSTANTS
  LB = 2
  NL = 4
INVARIANTS RefIsMath AlgIsMath Inverse
CHECK_DEADLOCK FALSE
