SPECIFICATION Spec
CONSTANTS
  Clients <- Cl
  N = 2
  MaxMsgs = 5
  Chain <- ChainTypical
  Static <- StaticInside
INVARIANTS NoSharedAddress
PROPERTIES OfferThenAckSameAddress
CHECK_DEADLOCK FALSE
