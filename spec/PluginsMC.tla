------------------------------ MODULE PluginsMC ------------------------------
(* Leg A for C14 C17 (and C13's last sentence): the decision tables on the  *)
(* whole abstract request product.                                          *)
EXTENDS Plugins

VARIABLES proto, pl, cfg, req, pre
vars == <<proto, pl, cfg, req, pre>>

SidRel == {"none", "same", "otherkind", "longer", "differs"}
FourWay == {"absent", "zero", "own", "other"}
Req4 == [prl : [has : BOOLEAN, set : SUBSET Codes4], ac : BOOLEAN, siaddr : FourWay, opt54 : FourWay]
Pre4 == [type : {"offer", "ack"}, yi : BOOLEAN, lease : BOOLEAN]
Req6 == [type : 1..11, oro : SUBSET Codes6, sid : SidRel]
Cfgs == [tftp : BOOLEAN, params : BOOLEAN]

Init == \/ /\ proto = 4 /\ pl \in Plugins4 /\ cfg \in Cfgs /\ req \in Req4 /\ pre \in Pre4
        \/ /\ proto = 6 /\ pl \in Plugins6 /\ cfg \in Cfgs /\ req \in Req6 /\ pre = [type |-> "offer", yi |-> FALSE, lease |-> FALSE]
Next == UNCHANGED vars
Spec == Init /\ [][Next]_vars

Out == IF proto = 4 THEN Expect4(pl, cfg, req, pre) ELSE Expect6(pl, cfg, req)

NilStop == NilOnlyWithStop(Out)
C14Holds == pl = "server_id" => IF proto = 4 THEN C14Says4(req, Out) ELSE C14Says6(req, Out)
\* C17, the entitlement sentences
C17Holds ==
  /\ (proto = 4 /\ pl \in {"netmask", "router", "searchdomains", "staticroute"}) => (~Out.nil /\ Out.sets # {})   \* unconditionally
  /\ (proto = 4 /\ pl = "dns") => ((6 \in Out.sets) <=> (~req.prl.has \/ 6 \in req.prl.set))                     \* asked for, or no list
  /\ (proto = 4 /\ pl = "mtu") => ((26 \in Out.sets) <=> (~req.prl.has \/ 26 \in req.prl.set))
  /\ (proto = 4 /\ pl = "lease_time") => ((51 \in Out.sets) <=> ~pre.lease)                                      \* only when none is set yet
  /\ (proto = 4 /\ pl = "ipv6only") => /\ (108 \in Out.sets) <=> (req.prl.has /\ 108 \in req.prl.set)            \* only to clients that list it
                                       /\ (Out.stop = "yes") <=> (108 \in Out.sets)
  /\ (proto = 4 /\ pl = "autoconfigure") =>
        /\ Out.nil <=> (pre.type = "offer" /\ ~pre.yi /\ ~req.ac)
        /\ (116 \in Out.sets) <=> (pre.type = "offer" /\ ~pre.yi /\ req.ac)
  /\ (proto = 6 /\ pl = "dns") => ((23 \in Out.sets) <=> 23 \in req.oro)
  /\ (proto = 6 /\ pl = "nbp") => ((60 \in Out.sets) => cfg.params)                                              \* only when configured
=============================================================================
