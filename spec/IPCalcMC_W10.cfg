SPECIFICATION Spec
CONSTANTS
  LB = 5
  NL = 2
INVARIANTS RefIsMath AlgIsMath Inverse
CHECK_DEADLOCK FALSE
