------------------------------- MODULE IPCalc -------------------------------
(***************************************************************************)
(* Prefix arithmetic of coredhcp (plugins/allocators/ipcalc.go), property  *)
(* C20.  Three layers:                                                     *)
(*  (1) Math*  : the property statement on naturals (small word sizes),    *)
(*  (2) Ref*   : the same definitions on big-endian limb vectors, i.e. an  *)
(*               independent big-number reference that TLC can evaluate at *)
(*               128 bit (LB = 16, NL = 8),                                *)
(*  (3) Alg*   : a transcription of the Go algorithm on two half words.    *)
(* IPCalcMC checks (1) = (2) = (3) exhaustively for small W; IPCalcTrace   *)
(* evaluates (2) at 128 bit against records of the real functions.         *)
(***************************************************************************)
EXTENDS Integers, Sequences, FiniteSets, TLC

CONSTANTS LB,   \* bits per limb
          NL    \* number of limbs (even)

W    == LB * NL
H    == W \div 2
NH   == NL \div 2
Base == 2 ^ LB

ZeroV(n) == [i \in 1..n |-> 0]
Limb(a, i) == IF i >= 1 /\ i <= Len(a) THEN a[i] ELSE 0

(* addition / subtraction of equally long limb vectors: <<vector, carry>> *)
AddV(a, b) ==
  LET n == Len(a)
      c[i \in 1..n+1] == IF i = n+1 THEN 0 ELSE (a[i] + b[i] + c[i+1]) \div Base
  IN  << [i \in 1..n |-> (a[i] + b[i] + c[i+1]) % Base], c[1] >>

SubV(a, b) ==
  LET n == Len(a)
      br[i \in 1..n+1] == IF i = n+1 THEN 0
                          ELSE IF a[i] - b[i] - br[i+1] < 0 THEN 1 ELSE 0
  IN  << [i \in 1..n |-> (a[i] - b[i] - br[i+1] + Base) % Base], br[1] >>

(* logical shifts by k bits, 0 <= k <= W *)
ShrV(a, k) ==
  LET q == k \div LB
      r == k % LB
  IN  [i \in 1..Len(a) |-> (Limb(a, i-q) \div 2^r) + (Limb(a, i-q-1) % 2^r) * 2^(LB-r)]

ShlV(a, k) ==
  LET q == k \div LB
      r == k % LB
  IN  [i \in 1..Len(a) |-> ((Limb(a, i+q) * 2^r) % Base) + (Limb(a, i+q+1) \div 2^(LB-r))]

RECURSIVE GeV(_, _, _)
GeV(a, b, i) == IF i > Len(a) THEN TRUE
                ELSE IF a[i] # b[i] THEN a[i] > b[i] ELSE GeV(a, b, i+1)
Ge(a, b) == GeV(a, b, 1)

AlignedV(a, p) == ShlV(ShrV(a, W-p), W-p) = a

(***************************************************************************)
(* Layer 2: the reference on limb vectors.                                 *)
(* x, b: NL-limb addresses; n: NH-limb count; result [ov, v]               *)
(***************************************************************************)
RefOffset(x, b, p) ==
  LET s  == W - p
      hi0 == IF Ge(x, b) THEN x ELSE b
      lo0 == IF Ge(x, b) THEN b ELSE x
      d  == SubV(ShrV(hi0, s), ShrV(lo0, s))[1]
  IN  IF SubSeq(d, 1, NH) # ZeroV(NH)
      THEN [ov |-> TRUE,  v |-> ZeroV(NH)]
      ELSE [ov |-> FALSE, v |-> SubSeq(d, NH+1, NL)]

RefAdd(b, n, p) ==
  LET n2  == ZeroV(NH) \o n
      s   == W - p
      off == ShlV(n2, s)
      sum == AddV(b, off)
  IN  IF ShrV(off, s) # n2 \/ sum[2] = 1
      THEN [ov |-> TRUE,  v |-> ZeroV(NL)]
      ELSE [ov |-> FALSE, v |-> sum[1]]

(***************************************************************************)
(* Layer 1: the statement on naturals (only for small W).                  *)
(***************************************************************************)
RECURSIVE ToNat(_)
ToNat(a) == IF a = << >> THEN 0
            ELSE ToNat(SubSeq(a, 1, Len(a)-1)) * Base + a[Len(a)]
FromNat(x, n) == [i \in 1..n |-> (x \div (Base ^ (n-i))) % Base]

MathOffset(x, b, p) ==
  LET s   == 2 ^ (W - p)
      idx == (x \div s) - (b \div s)
  IN  IF idx >= 2 ^ H THEN [ov |-> TRUE, v |-> 0] ELSE [ov |-> FALSE, v |-> idx]

MathAdd(b, n, p) ==
  LET r == b + n * 2 ^ (W - p)
  IN  IF r >= 2 ^ W THEN [ov |-> TRUE, v |-> 0] ELSE [ov |-> FALSE, v |-> r]

(***************************************************************************)
(* Layer 3: the Go algorithm on two H-bit half words (uintH arithmetic     *)
(* wraps modulo 2^H; a shift by >= H bits yields 0 as in Go).              *)
(***************************************************************************)
M == 2 ^ H
ShlH(v, k) == IF k >= H THEN 0 ELSE (v * 2^k) % M
ShrH(v, k) == IF k >= H THEN 0 ELSE v \div 2^k

AlgOffset(a0, b0, p) ==
  IF a0 = b0 THEN [ov |-> FALSE, v |-> 0] ELSE
  LET a  == IF a0 > b0 THEN a0 ELSE b0
      b  == IF a0 > b0 THEN b0 ELSE a0
      ah == a \div M    al == a % M
      bh == b \div M    bl == b % M
  IN  IF p <= H
      THEN [ov |-> FALSE, v |-> ShrH((ah - bh + M) % M, H - p)]
      ELSE LET dl     == (al - bl + M) % M
               borrow == IF al < bl THEN 1 ELSE 0
               dh     == (ah - bh - borrow + 2*M) % M
           IN  IF dh >= 2 ^ (W - p)
               THEN [ov |-> TRUE, v |-> 0]
               ELSE [ov |-> FALSE, v |-> (ShlH(dh, p - H) + ShrH(dl, W - p)) % M]

(* AddPrefixes as in ipcalc.go.  Guarded == TRUE models the overflow test  *)
(* before the shift (`n >> unit != 0` for unit < 64); with FALSE it is the *)
(* code as first found, which wraps silently for n >= 2^unit.              *)
AlgAddG(ip, n, p, Guarded) ==
  IF p = 0 /\ n # 0 THEN [ov |-> TRUE, v |-> 0]
  ELSE IF n = 0 THEN [ov |-> FALSE, v |-> ip]
  ELSE
  LET iph == ip \div M    ipl == ip % M
      lost == Guarded /\ p < H /\ ShrH(n, p) # 0
      offh == IF p <= H THEN ShlH(n, H - p) ELSE (n * 2^(W-p)) \div M
      offl == IF p <= H THEN 0 ELSE (n * 2^(W-p)) % M
      suml == ipl + offl
      c1   == suml \div M
      sumh == iph + offh + c1
      c2   == sumh \div M
  IN  IF lost \/ c2 # 0 THEN [ov |-> TRUE, v |-> 0]
      ELSE [ov |-> FALSE, v |-> (sumh % M) * M + (suml % M)]

AlgAdd(ip, n, p) == AlgAddG(ip, n, p, TRUE)

=============================================================================
