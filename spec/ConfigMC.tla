------------------------------ MODULE ConfigMC ------------------------------
(* Leg A for C18: Load satisfies the sentences of the property on a product  *)
(* of abstract documents.                                                    *)
EXTENDS Config

VARIABLES doc, ifs
vars == <<doc, ifs>>

Specs == [ip : {"none", "v4", "v6", "v4mapped", "mc4", "mc6", "garbage"}, text : {"t"}, bracket : BOOLEAN,
          zone : {"", "eth0"}, port : {-2, -1, 1067}]
Items == {[k |-> "one", name |-> "dns", args |-> << "a", "b" >>], [k |-> "one", name |-> "sleep", args |-> << >>],
          [k |-> "two"], [k |-> "scalar"]}
ItemSeqs == UNION {[1..n -> Items] : n \in 0..2}
PluginSecs == [k : {"absent", "null", "emptylist", "scalar", "map"}] \cup [k : {"list"}, items : ItemSeqs]
Listens == {[k |-> "absent"]} \cup [k : {"scalar"}, specs : [1..1 -> Specs]]
           \cup [k : {"list"}, specs : UNION {[1..n -> {s \in Specs : s.bracket /\ s.zone = ""}] : n \in 0..2}]
Sections == {[present |-> FALSE]} \cup [present : {TRUE}, listen : Listens, iface : {"", "eth0"}, plugins : PluginSecs]
IfLists == {<< >>, << [name |-> "lo", mcast |-> FALSE, bcast |-> FALSE], [name |-> "eth0", mcast |-> TRUE, bcast |-> TRUE] >>,
            << [name |-> "eth0", mcast |-> TRUE, bcast |-> TRUE], [name |-> "wg0", mcast |-> TRUE, bcast |-> FALSE] >>}

\* one section varies freely, the other is absent or a fixed valid one
Fixed == [present |-> TRUE, listen |-> [k |-> "absent"], iface |-> "", plugins |-> [k |-> "list", items |-> << [k |-> "one", name |-> "dns", args |-> << "a", "b" >>] >>]]
Init == /\ ifs \in IfLists
        /\ \E s \in Sections : \E o \in {[present |-> FALSE], Fixed} : doc \in {[s4 |-> s, s6 |-> o], [s4 |-> o, s6 |-> s]}
Next == UNCHANGED vars
Spec == Init /\ [][Next]_vars

C18Holds == C18Says(doc, ifs, Load(doc, ifs))
\* listeners: every listed spec that is accepted yields its address(es), in order, with default port / wildcard filled in
ListenersExact ==
  \A ver \in {4, 6} :
    LET sec == IF ver = 4 THEN doc.s4 ELSE doc.s6
        r   == Load(doc, ifs)
    IN (~r.err /\ sec.present /\ sec.listen.k # "absent" /\ sec.iface = "") =>
         LET res == IF ver = 4 THEN r.s4 ELSE r.s6 IN
           /\ \A i \in 1..Len(res.addrs) : res.addrs[i].port \in {1067, 67, 547}
           /\ (\A i \in 1..Len(sec.listen.specs) : sec.listen.specs[i].ip \notin {"mc4", "mc6"}) => Len(res.addrs) = Len(sec.listen.specs)
=============================================================================
