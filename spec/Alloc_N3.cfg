SPECIFICATION Spec
CONSTANTS
  N = 3
  Below = 2
  Above = 2
INVARIANTS TypeOK Disjoint HoldersAreOut
PROPERTIES CapacityExact FailureChangesNothing FreeExact HintHonoured
