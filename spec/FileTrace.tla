------------------------------ MODULE FileTrace ------------------------------
(***************************************************************************)
(* Leg C for C10: validates recordings of the real file plugin (handlers   *)
(* obtained through Plugin.Setup4 / Setup6, lease files on disk, fsnotify  *)
(* autorefresh observed through the file.reload.* observation points)      *)
(* against StaticFile.  Monitor: per protocol the abstract file content,   *)
(* the table the instance must be serving, live/auto.                      *)
(*                                                                         *)
(*  reset                                                                  *)
(*  setup {p, auto, file [line kinds], res}                                *)
(*  step  {p, op, file [line kinds of the whole new content]}  one syscall *)
(*  reload {p, res}        the watcher reloaded (ok) / refused (err)       *)
(*  noreload {p}           no reload within 10 s of a step (liveness)      *)
(*  q4 {m, res, addr, fam, stop, same}   one DHCPv4 request of client m    *)
(*  q6 {m, iana, res, addr, fam, n, iaidok, stop, same}                    *)
(* line kinds: {k} for blank/comment/malformed kinds, {k:"ok", m, a}.      *)
(***************************************************************************)
EXTENDS Integers, FiniteSets, Sequences, TLC, Json

CONSTANTS Lens

Trace == ndJsonDeserialize("trace.ndjson")

VARIABLES l, file, table, live, auto
tvars == <<l, file, table, live, auto>>

Protos == {4, 6}
Bad == {"wsonly", "fields1", "fields3", "badmac", "badip", "wrongfamily"}
IsEvent(e) == l <= Len(Trace) /\ Trace[l].ev = e /\ l' = l + 1
On == "C10" \in Lens \/ "C16" \in Lens

RECURSIVE MapOf(_)
MapOf(f) == IF f = << >> THEN << >>
            ELSE LET prev == MapOf(SubSeq(f, 1, Len(f) - 1))
                     x    == f[Len(f)]
                 IN  IF x.k = "ok"
                     THEN [m \in DOMAIN prev \cup {x.m} |-> IF m = x.m THEN x.a ELSE prev[m]]
                     ELSE prev
Good(f) == \A i \in 1..Len(f) : f[i].k \notin Bad

TraceReset ==
  /\ IsEvent("reset")
  /\ file' = [p \in Protos |-> << >>] /\ table' = [p \in Protos |-> << >>]
  /\ live' = [p \in Protos |-> FALSE] /\ auto' = [p \in Protos |-> FALSE]

TraceSetup ==
  /\ IsEvent("setup")
  /\ LET e == Trace[l] IN
     /\ On => (e.res = "ok") <=> Good(e.file)           \* a file with any malformed line is rejected as a whole
     /\ file' = [file EXCEPT ![e.p] = e.file]
     /\ IF e.res = "ok"
        THEN /\ table' = [table EXCEPT ![e.p] = MapOf(e.file)]
             /\ live' = [live EXCEPT ![e.p] = TRUE]
             /\ auto' = [auto EXCEPT ![e.p] = e.auto]
        ELSE UNCHANGED <<table, live, auto>>

TraceStep ==
  /\ IsEvent("step")
  /\ file' = [file EXCEPT ![Trace[l].p] = Trace[l].file]
  /\ UNCHANGED <<table, live, auto>>

TraceReload ==
  /\ IsEvent("reload")
  /\ LET e == Trace[l] IN
     /\ On => /\ live[e.p] /\ auto[e.p]
              /\ (e.res = "ok") <=> Good(file[e.p])      \* malformed update refused ...
     /\ table' = IF e.res = "ok" /\ Good(file[e.p])
                 THEN [table EXCEPT ![e.p] = MapOf(file[e.p])]   \* ... well-formed one replaces the whole mapping
                 ELSE table
  /\ UNCHANGED <<file, live, auto>>

\* "eventually": a missing reload has no action unless the lens is off
TraceNoReload == IsEvent("noreload") /\ ~On /\ UNCHANGED <<file, table, live, auto>>

TraceQ4 ==
  /\ IsEvent("q4")
  /\ LET e == Trace[l] IN
     On => /\ live[4]
           /\ IF e.m \in DOMAIN table[4]
              THEN e.res = "hit" /\ e.fam = 4 /\ e.addr = table[4][e.m] /\ e.stop      \* listed: yiaddr, chain ends
              ELSE e.res = "miss" /\ ~e.stop /\ e.same                                \* not listed: nothing from this plugin
  /\ UNCHANGED <<file, table, live, auto>>

TraceQ6 ==
  /\ IsEvent("q6")
  /\ LET e == Trace[l] IN
     On => /\ live[6]
           /\ IF e.iana /\ e.m \in DOMAIN table[6]
              THEN e.res = "hit" /\ e.n = 1 /\ e.fam = 6 /\ e.addr = table[6][e.m] /\ e.iaidok   \* in an IA_NA, when one was requested
              ELSE e.res = "miss" /\ e.same
  /\ UNCHANGED <<file, table, live, auto>>

TraceInit == /\ l = 1
             /\ file = [p \in Protos |-> << >>] /\ table = [p \in Protos |-> << >>]
             /\ live = [p \in Protos |-> FALSE] /\ auto = [p \in Protos |-> FALSE]
\* two generations in quick succession (a big table, and a small one while the big one is still being parsed): when
\* everything has settled the served mapping is the file's - "a well-formed update eventually replaces the whole mapping"
TraceGen2 == /\ IsEvent("gen2")
             /\ (Lens \cap {"C10", "C16"} # {}) => Trace[l].ok
             /\ UNCHANGED <<file, table, live, auto>>
TraceNote == IsEvent("note") /\ UNCHANGED <<file, table, live, auto>>
TraceNext == TraceReset \/ TraceSetup \/ TraceStep \/ TraceReload \/ TraceNoReload \/ TraceQ4 \/ TraceQ6 \/ TraceGen2 \/ TraceNote
TraceSpec == TraceInit /\ [][TraceNext]_tvars

TraceAccepted ==
  LET d == TLCGet("stats").diameter
  IN  IF d - 1 = Len(Trace) THEN TRUE
      ELSE Print(<<"REJECT_AT", d, Len(Trace)>>, FALSE)
=============================================================================
