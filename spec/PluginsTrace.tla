----------------------------- MODULE PluginsTrace -----------------------------
(***************************************************************************)
(* Leg C for C14 C17 C19: validates what the real built-in plugins         *)
(* (handlers obtained through Plugin.Setup4 / Setup6, one fresh process    *)
(* per configuration) did, against the decision tables of Plugins.         *)
(*  setup {pl, proto, args, res}              res: "ok" | "err" | "panic"  *)
(*  h {pl, proto, cfg{tftp, params}, req, pre,                             *)
(*     obs{nil, stop, panic, roundtrip, decodes, siaddrok,                 *)
(*         opts [{code, present, count, valueok, changed}]}}               *)
(* obs.opts lists every watched option code of the serialised reply:       *)
(* valueok = its value decodes to exactly the configured arguments,        *)
(* changed = its bytes differ from the reply before the plugin ran;        *)
(* decodes = every watched option of the parsed reply is a value of its    *)
(* type (the DHCPv4 codec keeps option bodies as bytes).                   *)
(***************************************************************************)
EXTENDS Plugins, Json

CONSTANTS Lens,
          Dev      \* names of the recorded deviations (known-findings.json, status "known") that may be matched

Trace == ndJsonDeserialize("trace.ndjson")

VARIABLE l
tvars == <<l>>
IsEvent(e) == l <= Len(Trace) /\ Trace[l].ev = e /\ l' = l + 1
Idx(s) == 1 .. Len(s)

TraceSetup ==
  /\ IsEvent("setup")
  /\ ("C19" \in Lens) => Trace[l].res \in {"ok", "err"}          \* setup returns a handler or an error, nothing else

Req4Of(r) == [prl |-> [has |-> r.prlhas, set |-> {r.prl[i] : i \in Idx(r.prl)}], ac |-> r.ac, siaddr |-> r.siaddr, opt54 |-> r.opt54]
Req6Of(r) == [type |-> r.type, oro |-> {r.oro[i] : i \in Idx(r.oro)}, sid |-> r.sid]

\* the observation o follows the table entry exp
Follows(o, exp) ==
  /\ o.nil = exp.nil
  /\ exp.stop = "yes" => o.stop
  /\ exp.stop = "no"  => ~o.stop
  /\ ~o.nil => \A i \in Idx(o.opts) :
        IF o.opts[i].code \in exp.sets
        THEN o.opts[i].present /\ o.opts[i].count = 1 /\ o.opts[i].valueok     \* exactly the configured value, once
        ELSE ~o.opts[i].changed                                                \* nothing else is touched

TraceH ==
  /\ IsEvent("h")
  /\ LET e == Trace[l]  o == e.obs
         exp == IF e.proto = 4 THEN Expect4(e.pl, e.cfg, Req4Of(e.req), e.pre)
                               ELSE Expect6(e.pl, e.cfg, Req6Of(e.req))
     IN
     /\ ("C17" \in Lens /\ e.pl # "server_id") => (~o.panic /\ Follows(o, exp))
     /\ ("C14" \in Lens /\ e.pl = "server_id") =>
          /\ ~o.panic
          \* message types a server never answers (ADVERTISE, REPLY, RECONFIGURE): only "must be discarded" is stated
          /\ IF e.proto = 6 /\ e.req.type \in {2, 7, 10} THEN (exp.nil => o.nil) ELSE Follows(o, exp)
          /\ (~o.nil /\ e.proto = 4) => o.siaddrok                       \* ... and in siaddr
     /\ ("C19" \in Lens) =>
          /\ ~o.panic                                                     \* returns without panicking
          /\ ~o.nil => (o.roundtrip /\ o.decodes)                         \* serialises and parses back to the same options
     /\ ("C13" \in Lens) => (o.nil => o.stop)                             \* nil only together with stop

(* A child process that died is an observation for which no action exists -   *)
(* except the recorded finding: a prefix pool of 2^33 .. 2^63 blocks passes   *)
(* the plugin's own checks and then exhausts memory while the bitmap is       *)
(* allocated at start-up (C19: neither an error nor a handler).               *)
Deviation_PrefixHugePoolOOM ==
  /\ IsEvent("crash")
  /\ "PrefixHugePoolOOM" \in Dev
  /\ Trace[l].pl = "prefix" /\ Trace[l].phase = "setup" /\ Trace[l].oom
  /\ PrintT(<<"KNOWNDEV", "PrefixHugePoolOOM">>)

(* server_id followed by one other built-in plugin: whatever leaves the chain still carries this server's *)
(* identifier (C14 is about every reply)                                                                  *)
TraceSidChain ==
  /\ IsEvent("sidchain")
  /\ LET e == Trace[l] IN
     ("C14" \in Lens) => /\ ~e.panic
                         /\ ~e.nil => e.sidok /\ (e.proto = 4 => e.siaddrok)

(* the same through the loader: plugins.LoadPlugins on a configuration listing one plugin under one protocol *)
(* (supported or not), then datagrams through HandleMsg4/6                                                 *)
TraceLoad1 ==
  /\ IsEvent("load1")
  /\ ("C19" \in Lens) => (Trace[l].res \in {"ok", "err"} /\ ~Trace[l].nilhandler)
TraceLH ==
  /\ IsEvent("lh")
  /\ ("C19" \in Lens) => (Trace[l].res \in {"reply", "drop", "slow"} /\ Trace[l].n <= 1)   \* "slow": a configured delay, not a crash

TraceInit == l = 1
TraceNext == TraceSetup \/ TraceH \/ TraceSidChain \/ TraceLoad1 \/ TraceLH \/ Deviation_PrefixHugePoolOOM
TraceSpec == TraceInit /\ [][TraceNext]_tvars

TraceAccepted ==
  LET d == TLCGet("stats").diameter
  IN  IF d - 1 = Len(Trace) THEN TRUE
      ELSE Print(<<"REJECT_AT", d, Len(Trace)>>, FALSE)
=============================================================================
