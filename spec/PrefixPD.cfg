SPECIFICATION Spec
CONSTANTS
  Clients = {c1, c2}
  N = 3
  MaxMsgs = 2
  MaxIAs = 2
  MaxHints = 2
VIEW View
INVARIANTS DisjointAcrossClients AllocatorCoversTold Remembered
PROPERTIES OneAnswerPerIA ToldNeverShrinks RenewAndRepeat NoGrowthOnRepeat
CHECK_DEADLOCK FALSE
