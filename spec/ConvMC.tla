------------------------------- MODULE ConvMC -------------------------------
(* Model-checking instances of Conv: chains and static tables as definitions *)
(* (cfg files cannot hold functions).                                        *)
EXTENDS Conv

Cl == {"c1", "c2", "c3"}
\* the shipped example order: options first, then file, then range
ChainTypical == <<"lease_time", "server_id", "dns", "router", "netmask", "file", "range">>
\* range configured in front of file
ChainRangeFirst == <<"server_id", "range", "file", "dns", "lease_time">>
\* file in front of everything, no server_id
ChainFileFirst == <<"file", "dns", "range", "lease_time", "router">>
\* file in front of server_id: a listed client is answered even when it names another server
ChainFileBeforeSid == <<"file", "server_id", "range", "lease_time">>
ChainNoLease == <<"server_id", "dns", "file">>
StaticOutside == [c \in {"c1"} |-> 3]      \* N = 2: address 3 lies outside the dynamic range
StaticInside  == [c \in {"c1"} |-> 1]      \* the weakened configuration: a static address inside the range
StaticNone    == [c \in {} |-> 0]
=============================================================================
