----------------------------- MODULE ConvTrace -----------------------------
(***************************************************************************)
(* Conformance of whole DHCPv4 chains of the real built-in plugins (loaded *)
(* by plugins.LoadPlugins, datagrams through HandleMsg4) with ConvCore.     *)
(*  creset {chain [..], N, static [{c, a}]}   a fresh chain (fresh lease     *)
(*          database, static table as given)                                *)
(*  cmsg {c, mt, sid, sent, type, yi, lease, opts [..], sidok}              *)
(*          yi: 0 = unassigned, 1..N = index in the dynamic range,          *)
(*              N+1 = the listed static address (when outside the range),   *)
(*              -1 = anything else                                          *)
(*          lease: "none" | "range" | "default" | "other" (option 51)       *)
(* Lens "CONV": the whole composition (drift detector).  The lenses of the  *)
(* listed properties pick the sentences that are theirs:                    *)
(*  C10  a listed client is answered with the listed address as yiaddr,     *)
(*       ENDING THE CHAIN (nothing configured after file is added)          *)
(*  C02  a dynamic client gets an address of the range, always the same,    *)
(*       nobody else's, with the range's lease time; none when exhausted    *)
(*  C14  a request naming another server is discarded; replies carry this   *)
(*       server's identifier                                                *)
(*  C11  OFFER for DISCOVER, ACK (or NAK) for REQUEST, nothing for DECLINE / *)
(*       RELEASE / INFORM - whatever address the client says it wants       *)
(*  C17  netmask / router / dns from exactly the plugins that ran; the      *)
(*       default lease time only when none is set yet                       *)
(***************************************************************************)
EXTENDS ConvCore, TLC, Json

CONSTANTS Lens

Trace == ndJsonDeserialize("trace.ndjson")

VARIABLES l, chain, n, static, bound
tvars == <<l, chain, n, static, bound>>

IsEvent(e) == l <= Len(Trace) /\ Trace[l].ev = e /\ l' = l + 1
Idx(s) == 1 .. Len(s)
SetOf(s) == {s[i] : i \in Idx(s)}
Clients == {"c1", "c2", "c3"}

TraceReset ==
  /\ IsEvent("creset")
  /\ LET e == Trace[l] IN
     /\ chain' = e.chain /\ n' = e.N
     /\ static' = [c \in {e.static[i].c : i \in Idx(e.static)} |->
                     e.static[CHOOSE i \in Idx(e.static) : e.static[i].c = c].a]
     /\ bound' = [c \in Clients |-> 0]

Pos(p) == IF \E i \in Idx(chain) : chain[i] = p THEN CHOOSE i \in Idx(chain) : chain[i] = p ELSE 0
Ran(p, h) == p \in h.resp.opts

TraceMsg ==
  /\ IsEvent("cmsg")
  /\ LET e == Trace[l]  c == e.c IN
     IF e.mt \in {"discover", "request"}
     THEN \E choice \in 1..(IF n = 0 THEN 1 ELSE n) :
            LET h == HandleP(chain, static, n, bound, c, e.sid, choice)
                r == h.resp
                eo == SetOf(e.opts)
                listed == c \in DOMAIN static /\ Pos("file") # 0
            IN
            /\ bound' = h.bound
            \* the address the allocator picked is the one observed (policy free)
            /\ (r.sent /\ e.sent) => e.yi = r.yi
            /\ ("CONV" \in Lens) =>
                 /\ e.sent = r.sent
                 /\ e.sent => /\ e.type = (IF e.mt = "discover" THEN "offer" ELSE "ack")
                              /\ e.lease = r.lease /\ eo = r.opts
                              /\ ("sid" \in eo) => e.sidok
            /\ ("C11" \in Lens /\ e.sent) =>                                   \* an OFFER for a DISCOVER, an ACK (or NAK) for a REQUEST
                 e.type \in (IF e.mt = "discover" THEN {"offer"} ELSE {"ack", "nak"})
            /\ ("C10" \in Lens /\ listed /\ r.sent) =>                       \* (r.sent: not discarded before file ran)
                 /\ e.sent /\ e.yi = static[c]
                 /\ \A p \in {"dns", "router", "netmask"} : (Pos(p) > Pos("file")) => p \notin eo    \* ending the chain
            /\ ("C02" \in Lens /\ Pos("range") # 0 /\ ~listed) =>
                 /\ e.sent = r.sent                                             \* served while bound or free, dropped when full
                 /\ e.sent => (e.yi \in 1..n /\ e.lease = "range")
            /\ ("C14" \in Lens /\ Pos("server_id") # 0) =>
                 /\ (e.sid = "other" /\ ~r.sent) => ~e.sent
                 /\ (e.sent /\ "sid" \in r.opts) => ("sid" \in eo /\ e.sidok)
            /\ ("C17" \in Lens /\ e.sent /\ r.sent) =>
                 /\ \A p \in {"dns", "router", "netmask"} : (p \in eo) <=> (p \in r.opts)
                 /\ (Pos("lease_time") # 0) => e.lease = r.lease
     ELSE /\ bound' = bound
          /\ (Lens \cap {"CONV", "C11"} # {}) => ~e.sent                      \* DECLINE / RELEASE / INFORM are never answered
  /\ UNCHANGED <<chain, n, static>>

TraceNote == IsEvent("note") /\ UNCHANGED <<chain, n, static, bound>>

TraceInit == l = 1 /\ chain = << >> /\ n = 0 /\ static = << >> /\ bound = [c \in Clients |-> 0]
TraceNext == TraceReset \/ TraceMsg \/ TraceNote
TraceSpec == TraceInit /\ [][TraceNext]_tvars

TraceAccepted ==
  LET d == TLCGet("stats").diameter
  IN  IF d - 1 = Len(Trace) THEN TRUE
      ELSE Print(<<"REJECT_AT", d, Len(Trace)>>, FALSE)
=============================================================================
