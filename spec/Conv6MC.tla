------------------------------ MODULE Conv6MC ------------------------------
EXTENDS Conv6
Cl == {"c1", "c2", "c3"}
ChainTypical6 == <<"server_id", "file", "prefix", "dns">>
ChainNoSid6 == <<"file", "dns", "prefix">>
ChainPrefixFirst6 == <<"prefix", "server_id", "file", "dns">>
Static6 == [c \in {"c1"} |-> 7]
=============================================================================
