----------------------------- MODULE ConfigTrace -----------------------------
(***************************************************************************)
(* Leg C for C18: validates what the real config.Load returned for         *)
(* generated configuration files against Config!Load.                      *)
(*  load {doc, ifs, res{err, panic, s4{present, addrs, plugins}, s6{..}}}  *)
(*  fuzz {res}   a byte/line-mutated configuration text: "ok"|"err"|"panic"*)
(***************************************************************************)
EXTENDS Config, Json

CONSTANTS Lens

Trace == ndJsonDeserialize("trace.ndjson")

VARIABLE l
tvars == <<l>>
IsEvent(e) == l <= Len(Trace) /\ Trace[l].ev = e /\ l' = l + 1

\* sec: the section of the document.  Without any `listen` / `interface` the property says nothing about which
\* default listeners are created (Config!DefaultListen documents what the code does): only the plugins are compared.
SameSection(sec, exp, got) ==
  /\ got.present = exp.present
  /\ exp.present => /\ (sec.listen.k # "absent" \/ sec.iface # "") => got.addrs = exp.addrs   \* the listed addresses, in order, defaults filled in
                    /\ got.plugins = exp.plugins      \* exactly the listed plugins, in order, with their arguments

\* a port number that no UDP port can be (> 65535): the statement leaves open whether that is "unparseable"; what it
\* does not leave open is that an accepted one is the number that was written (never another port)
BigPort(sec) == sec.present /\ sec.listen.k # "absent" /\ \E i \in 1..Len(sec.listen.specs) : sec.listen.specs[i].port > 65535

TraceLoad ==
  /\ IsEvent("load")
  /\ LET e == Trace[l]  exp == Load(e.doc, e.ifs) IN
     ("C18" \in Lens) =>
        /\ ~e.res.panic                               \* no configuration makes loading panic
        /\ \/ e.res.err = exp.err                     \* rejected with an error exactly when the statement says so
           \/ (e.res.err /\ (BigPort(e.doc.s4) \/ BigPort(e.doc.s6)))
        /\ (~exp.err /\ ~e.res.err) => SameSection(e.doc.s4, exp.s4, e.res.s4) /\ SameSection(e.doc.s6, exp.s6, e.res.s6)

TraceFuzz ==
  /\ IsEvent("fuzz")
  /\ ("C18" \in Lens) => Trace[l].res \in {"ok", "err"}

TraceInit == l = 1
TraceNext == TraceLoad \/ TraceFuzz
TraceSpec == TraceInit /\ [][TraceNext]_tvars

TraceAccepted ==
  LET d == TLCGet("stats").diameter
  IN  IF d - 1 = Len(Trace) THEN TRUE
      ELSE Print(<<"REJECT_AT", d, Len(Trace)>>, FALSE)
=============================================================================
