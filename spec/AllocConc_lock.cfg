SPECIFICATION Spec
CONSTANTS
  N = 2
  Threads = {1, 2}
  OpsPerThread = 3
  UseLock = TRUE
INVARIANTS Disjoint NoLostUpdate LockFreeAtRest
PROPERTIES Terminates
CHECK_DEADLOCK FALSE
