----------------------------- MODULE ServerTrace -----------------------------
(***************************************************************************)
(* Leg C for C01 / C16: validates recordings of the whole server (chains   *)
(* of real plugins loaded by LoadPlugins, datagrams fed as bytes through    *)
(* HandleMsg4/6 with buffers from the server's pool) against Server.        *)
(*  chain {c4, c6, load}     a chain of validly configured plugins loaded   *)
(*  dg {proto, kind, mut, res, n [, match]}   one datagram: res is          *)
(*        "reply" | "drop" | "panic" | "wedged" (the handler goroutine is   *)
(*        parked on a mutex 10 s later) | "slow"; n replies were sent       *)
(*  probe {proto, res, n, must}   after the history: is the server still     *)
(*        alive (must: this chain answers this request whatever happened)   *)
(*  batch {free, imposed, msgs[{kinds, flags}]}   concurrent DHCPv6         *)
(*        messages of clients that hold nothing, on a pool with `free`      *)
(*        blocks; flags[k]: IA_PD k got a prefix                            *)
(*  swap {held}              the static table was swapped                   *)
(*  refreshed {proto, ok}    after a burst: a last well-formed update of    *)
(*        that protocol's lease file was being served within 20 s          *)
(* A process that died ("crash") has no action.                             *)
(***************************************************************************)
EXTENDS Integers, FiniteSets, Sequences, TLC, Json

CONSTANTS Lens

Trace == ndJsonDeserialize("trace.ndjson")

VARIABLE l
tvars == <<l>>
IsEvent(e) == l <= Len(Trace) /\ Trace[l].ev = e /\ l' = l + 1

TraceChain ==
  /\ IsEvent("chain")
  /\ ("C01" \in Lens) => Trace[l].load = "ok"        \* these chains are validly configured: they load

\* C01: handling terminates by sending at most one reply or silently dropping
Handled(e) == e.res \in {"reply", "drop"} /\ e.n <= 1 /\ (e.res = "drop" => e.n = 0)

TraceDg ==
  /\ IsEvent("dg")
  /\ LET e == Trace[l] IN
     /\ ("C01" \in Lens) => Handled(e)                \* never panics, never blocks forever
     /\ ("C16" \in Lens) => /\ Handled(e) /\ e.match   \* ... and under concurrency the reply answers ITS request
                             /\ e.static                \* a client the static file lists before, during and after every refresh gets its listed address

TraceProbe ==
  /\ IsEvent("probe")
  /\ ("C01" \in Lens) => /\ Handled(Trace[l])        \* no lock was left held: later datagrams are handled ...
                          /\ Trace[l].must => Trace[l].res = "reply"   \* ... and answered, where this chain cannot but answer

TraceSwap ==
  /\ IsEvent("swap")
  /\ ("DISC" \in Lens) => Trace[l].held               \* lock discipline of the present design (drift detector only)

\* C16 (through C10): the static mapping keeps holding while the lease file is being refreshed under load
TraceRefreshed ==
  /\ IsEvent("refreshed")
  /\ ("C16" \in Lens) => Trace[l].ok

(* serial runs of a batch of DHCPv6 messages: message after message gets     *)
(* its blocks while they last ("any": what the client holds, else a new      *)
(* block; "new": always a new block)                                          *)
RECURSIVE SerialIAs(_, _, _, _)
SerialIAs(kinds, k, free, holds) ==
  IF k > Len(kinds) THEN [flags |-> << >>, free |-> free]
  ELSE IF kinds[k] = "any" /\ holds
       THEN LET r == SerialIAs(kinds, k + 1, free, holds) IN [flags |-> << TRUE >> \o r.flags, free |-> r.free]
       ELSE IF free > 0
            THEN LET r == SerialIAs(kinds, k + 1, free - 1, TRUE) IN [flags |-> << TRUE >> \o r.flags, free |-> r.free]
            ELSE LET r == SerialIAs(kinds, k + 1, 0, holds) IN [flags |-> << FALSE >> \o r.flags, free |-> r.free]
RECURSIVE SerialRun(_, _, _, _)
SerialRun(msgs, order, i, free) ==
  IF i > Len(order) THEN << >>
  ELSE LET r == SerialIAs(msgs[order[i]].kinds, 1, free, FALSE) IN
       << [m |-> order[i], flags |-> r.flags] >> \o SerialRun(msgs, order, i + 1, r.free)
Perms(n) == {f \in [1..n -> 1..n] : \A i, j \in 1..n : i # j => f[i] # f[j]}

TraceBatch ==
  /\ IsEvent("batch")
  /\ LET e == Trace[l] IN
     ("C16" \in Lens) =>
        \E order \in Perms(Len(e.msgs)) :                \* the replies are those of SOME one-at-a-time order
           LET s == SerialRun(e.msgs, order, 1, e.free) IN
             \A i \in 1..Len(s) : e.msgs[s[i].m].flags = s[i].flags

TraceNote == IsEvent("note")

TraceInit == l = 1
TraceNext == TraceChain \/ TraceDg \/ TraceProbe \/ TraceSwap \/ TraceRefreshed \/ TraceBatch \/ TraceNote
TraceSpec == TraceInit /\ [][TraceNext]_tvars

TraceAccepted ==
  LET d == TLCGet("stats").diameter
  IN  IF d - 1 = Len(Trace) THEN TRUE
      ELSE Print(<<"REJECT_AT", d, Len(Trace)>>, FALSE)
=============================================================================
