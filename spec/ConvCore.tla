------------------------------ MODULE ConvCore ------------------------------
(***************************************************************************)
(* What one DHCPv4 DISCOVER / REQUEST goes through in a chain of built-in   *)
(* plugins, as a function of the configuration (chain, static table, size   *)
(* of the dynamic range) and of the range plugin's memory.  Shared by Conv   *)
(* (the design model, constants) and ConvTrace (configuration read from the  *)
(* recording).                                                              *)
(***************************************************************************)
EXTENDS Integers, FiniteSets, Sequences

NoResp == [sent |-> FALSE, yi |-> 0, lease |-> "none", opts |-> {}]
FreeP(n, b) == (1..n) \ {b[c] : c \in DOMAIN b}

(* one handler of the chain.  st = [resp, bound, stop]; resp.sent = FALSE   *)
(* after a handler returned nil.  choice: where the allocator's search for  *)
(* a free address starts (policy free, as in Alloc / RangeLease).           *)
StepP(static, n, p, c, sid, choice, st) ==
  LET r == st.resp IN
  CASE p = "server_id" ->
         IF sid = "other" THEN [st EXCEPT !.resp = NoResp, !.stop = TRUE]              \* another server is named: discard
         ELSE [st EXCEPT !.resp.opts = @ \cup {"sid"}]
    [] p = "file" ->
         IF c \in DOMAIN static
         THEN [st EXCEPT !.resp.yi = static[c], !.stop = TRUE]                           \* listed: its address, chain ends
         ELSE st
    [] p = "range" ->
         IF st.bound[c] # 0
         THEN [st EXCEPT !.resp.yi = st.bound[c], !.resp.lease = "range"]
         ELSE IF FreeP(n, st.bound) = {}
              THEN [st EXCEPT !.resp = NoResp, !.stop = TRUE]                           \* exhausted: no reply
              ELSE LET a == CHOOSE x \in FreeP(n, st.bound) :
                               \A y \in FreeP(n, st.bound) : ((x - choice) % n) <= ((y - choice) % n)
                   IN [st EXCEPT !.bound[c] = a, !.resp.yi = a, !.resp.lease = "range"]
    [] p = "lease_time" ->
         IF r.lease = "none" THEN [st EXCEPT !.resp.lease = "default"] ELSE st         \* only when none is set yet
    [] OTHER -> [st EXCEPT !.resp.opts = @ \cup {p}]                                    \* dns, router, netmask

RECURSIVE RunP(_, _, _, _, _, _, _, _)
RunP(chain, static, n, i, c, sid, choice, st) ==
  IF i > Len(chain) \/ st.stop THEN st
  ELSE RunP(chain, static, n, i + 1, c, sid, choice, StepP(static, n, chain[i], c, sid, choice, st))

HandleP(chain, static, n, b, c, sid, choice) ==
  RunP(chain, static, n, 1, c, sid, choice,
       [resp |-> [sent |-> TRUE, yi |-> 0, lease |-> "none", opts |-> {}], bound |-> b, stop |-> FALSE])
=============================================================================
