SPECIFICATION Spec
CONSTANTS
  Clients <- Cl
  N = 2
  MaxMsgs = 3
  Chain <- ChainPrefixFirst6
  Static <- Static6
INVARIANTS DiscardedMessagesBindNothing
CHECK_DEADLOCK FALSE
