SPECIFICATION Spec
CONSTANTS
  NL = 1
  FailAt = 1
  MaxRx = 2
  LoadOK = TRUE
  BindFirst = FALSE
  EmptyQuits = FALSE
INVARIANTS NeverServesBare FailedLoadNeverListened ServesWhileOpen CleanupOnError AllServing CollectsAll NoListenersNoReturn
PROPERTIES WaitReturns
CHECK_DEADLOCK FALSE
