SPECIFICATION Spec
CONSTANTS
  NL = 1
  FailAt = 1
INVARIANTS CleanupOnError AllServing CollectsAll NoListenersNoReturn
PROPERTIES WaitReturns
CHECK_DEADLOCK FALSE
