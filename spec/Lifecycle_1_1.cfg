SPECIFICATION Spec
CONSTANTS
  NL = 1
  FailAt = 1
  MaxRx = 2
  EmptyQuits = FALSE
INVARIANTS ServesWhileOpen CleanupOnError AllServing CollectsAll NoListenersNoReturn
PROPERTIES WaitReturns
CHECK_DEADLOCK FALSE
