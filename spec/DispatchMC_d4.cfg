SPECIFICATION Spec
CONSTANTS
  Which = "d4"
  MaxChain = 5
  MaxList = 3
INVARIANTS C11Holds C15Holds C12Holds C13Holds C13LoadHolds
CHECK_DEADLOCK FALSE
