----------------------------- MODULE Conv6Core -----------------------------
(***************************************************************************)
(* What one DHCPv6 client message goes through in a chain of built-in       *)
(* plugins (server_id, file, prefix, dns), as a function of the             *)
(* configuration and of the prefix plugin's memory.  Shared by Conv6 (the    *)
(* design model) and Conv6Trace (configuration read from the recording).     *)
(*                                                                         *)
(* message   [mt, sid, na, pd]: type, Server Identifier ("none" | "own" |    *)
(*           "other"), an IA_NA is requested, a hint-less IA_PD is requested *)
(* reply     [sent, type, na (0 = none, else the listed address), pd         *)
(*           (0 = none, -1 = NoPrefixAvail, else the block), opts]           *)
(***************************************************************************)
EXTENDS Integers, FiniteSets, Sequences

Types == {"solicit", "request", "confirm", "renew", "rebind", "release", "decline", "inforeq"}
MustHaveNoSid == {"solicit", "confirm", "rebind"}          \* RFC 8415 section 16
MustHaveSid   == {"request", "renew", "decline", "release"}

NoResp6 == [sent |-> FALSE, type |-> "none", na |-> 0, pd |-> 0, opts |-> {}]
Free6(n, h) == (1..n) \ {h[c] : c \in DOMAIN h}

Step6(static, n, p, c, m, choice, st) ==
  CASE p = "server_id" ->
         IF \/ (m.mt \in MustHaveNoSid /\ m.sid # "none")
            \/ (m.mt \in MustHaveSid /\ m.sid = "none")
            \/ m.sid = "other"
         THEN [st EXCEPT !.resp = NoResp6, !.stop = TRUE]                       \* discarded
         ELSE [st EXCEPT !.resp.opts = @ \cup {"sid"}]
    [] p = "file" ->
         IF m.na /\ c \in DOMAIN static THEN [st EXCEPT !.resp.na = static[c]] ELSE st      \* never ends the chain
    [] p = "prefix" ->
         \* whatever the message type - RELEASE included: the plugin knows no message types
         IF ~m.pd THEN st
         ELSE IF st.held[c] # 0 THEN [st EXCEPT !.resp.pd = st.held[c]]
         ELSE IF Free6(n, st.held) = {} THEN [st EXCEPT !.resp.pd = -1]
         ELSE LET b == CHOOSE x \in Free6(n, st.held) :
                         \A y \in Free6(n, st.held) : ((x - choice) % n) <= ((y - choice) % n)
              IN [st EXCEPT !.held[c] = b, !.resp.pd = b]
    [] OTHER -> [st EXCEPT !.resp.opts = @ \cup {p}]                              \* dns (the client asks for it)

RECURSIVE Run6(_, _, _, _, _, _, _, _)
Run6(chain, static, n, i, c, m, choice, st) ==
  IF i > Len(chain) \/ st.stop THEN st
  ELSE Run6(chain, static, n, i + 1, c, m, choice, Step6(static, n, chain[i], c, m, choice, st))

\* HandleMsg6 builds a reply for SOLICIT, REQUEST, CONFIRM, RENEW, REBIND, RELEASE and INFORMATION-REQUEST only: a
\* DECLINE never reaches a handler
Answered6 == Types \ {"decline"}
Handle6(chain, static, n, held, c, m, choice) ==
  IF m.mt \notin Answered6 THEN [resp |-> NoResp6, held |-> held, stop |-> TRUE] ELSE
  Run6(chain, static, n, 1, c, m, choice,
       [resp |-> [sent |-> TRUE, type |-> IF m.mt = "solicit" THEN "advertise" ELSE "reply", na |-> 0, pd |-> 0, opts |-> {}],
        held |-> held, stop |-> FALSE])
=============================================================================
