------------------------------- MODULE Plugins -------------------------------
(***************************************************************************)
(* The built-in plugins of coredhcp as decision tables on abstract         *)
(* requests (properties C14, C17, C19; also the last sentence of C13).     *)
(*                                                                         *)
(* A DHCPv4 request:  [prl   : [has : BOOLEAN, set : SUBSET Codes4],       *)
(*                     ac    : BOOLEAN    (option 116 present),            *)
(*                     siaddr, opt54 : {"absent","zero","own","other"}]    *)
(* the reply before the plugin runs: [type : {"offer","ack"},              *)
(*                     yi : BOOLEAN (yiaddr assigned), lease : BOOLEAN]    *)
(* A DHCPv6 request:  [type : 1..13, oro : SUBSET Codes6,                  *)
(*                     sid : {"none","same","otherkind","longer","differs"}]*)
(* What a handler must do is an Outcome:                                   *)
(*   [nil  : BOOLEAN,   the returned response is nil (request dropped)     *)
(*    stop : "yes" | "no" | "any",                                         *)
(*    sets : option codes that must now carry exactly the configured value *)
(*           (once), everything else untouched]                            *)
(***************************************************************************)
EXTENDS Integers, FiniteSets, Sequences, TLC

Codes4 == {6, 26, 66, 67, 108}      \* DNS, MTU, TFTP server, boot file, IPv6-only preferred
Codes6 == {23, 59, 60}              \* DNS, boot file URL, boot file parameters

Requested4(req, c) == ~req.prl.has \/ c \in req.prl.set       \* an absent list asks for everything (RFC 2131 3.5)
Explicit4(req, c)  == req.prl.has /\ c \in req.prl.set         \* ... except where the client must opt in explicitly
Requested6(req, c) == c \in req.oro

\* "any": the properties say nothing about whether a plain option plugin ends the chain
Pass(S)  == [nil |-> FALSE, stop |-> "any", sets |-> S]
Go(S)    == [nil |-> FALSE, stop |-> "no",  sets |-> S]
Drop     == [nil |-> TRUE,  stop |-> "yes", sets |-> {}]

(* cfg: what the accepted configuration contains: [tftp : BOOLEAN] for nbp *)
(* (a TFTP server name exists only for non-http(s)/ftp URLs), [params :    *)
(* BOOLEAN] for nbp on DHCPv6                                              *)
Expect4(pl, cfg, req, pre) ==
  CASE pl = "netmask"       -> Pass({1})
    [] pl = "router"        -> Pass({3})
    [] pl = "searchdomains" -> Pass({119})
    [] pl = "staticroute"   -> Pass({121})
    [] pl = "dns"           -> Pass(IF Requested4(req, 6) THEN {6} ELSE {})
    [] pl = "mtu"           -> Pass(IF Requested4(req, 26) THEN {26} ELSE {})
    [] pl = "nbp"           -> [nil |-> FALSE, stop |-> "any",
                                sets |-> (IF Requested4(req, 66) /\ cfg.tftp THEN {66} ELSE {})
                                         \cup (IF Requested4(req, 67) THEN {67} ELSE {})]
    [] pl = "lease_time"    -> Pass(IF pre.lease THEN {} ELSE {51})            \* only when no lease time is set yet
    [] pl = "ipv6only"      -> IF Explicit4(req, 108)
                               THEN [nil |-> FALSE, stop |-> "yes", sets |-> {108}]   \* sent, and processing stops before any address
                               ELSE Go({})                                     \* ... only to clients that list it
    [] pl = "autoconfigure" -> IF pre.type = "offer" /\ ~pre.yi
                               THEN IF req.ac THEN Pass({116}) ELSE Drop      \* address-less OFFER: only for clients that sent 116
                               ELSE Pass({})
    [] pl = "sleep"         -> Pass({})
    [] pl = "server_id"     -> IF req.siaddr = "other" \/ req.opt54 = "other"
                               THEN Drop                                       \* a different server is named: discard
                               ELSE Pass({54})                                 \* option 54 and siaddr = this server

\* RFC 8415 section 16
MustHaveNoSid == {1, 4, 6}          \* SOLICIT CONFIRM REBIND
MustHaveSid   == {3, 5, 9, 8}       \* REQUEST RENEW DECLINE RELEASE
Expect6(pl, cfg, req) ==
  CASE pl = "dns"           -> Pass(IF Requested6(req, 23) THEN {23} ELSE {})
    [] pl = "searchdomains" -> Pass({24})
    [] pl = "nbp"           -> [nil |-> FALSE, stop |-> "any",
                                sets |-> (IF Requested6(req, 59) THEN {59} ELSE {})
                                         \cup (IF Requested6(req, 60) /\ cfg.params THEN {60} ELSE {})]
    [] pl = "sleep"         -> Pass({})
    [] pl = "server_id"     -> IF req.sid # "none"
                               THEN IF req.type \in MustHaveNoSid \/ req.sid # "same" THEN Drop ELSE Pass({2})
                               ELSE IF req.type \in MustHaveSid THEN Drop ELSE Pass({2})

\* C14, the DHCPv6 sentence written directly
C14Says6(req, o) ==
  /\ (req.type \in MustHaveNoSid /\ req.sid # "none") => o.nil
  /\ (req.type \in MustHaveSid /\ req.sid = "none") => o.nil
  /\ (req.sid \notin {"none", "same"}) => o.nil
  /\ ~o.nil => 2 \in o.sets                       \* every reply carries exactly this server's DUID
C14Says4(req, o) ==
  /\ (req.siaddr = "other" \/ req.opt54 = "other") => o.nil
  /\ ~o.nil => 54 \in o.sets

\* C13, last sentence: built-in handlers only ever return nil together with stop
NilOnlyWithStop(o) == o.nil => o.stop = "yes"

Plugins4 == {"netmask", "router", "searchdomains", "staticroute", "dns", "mtu", "nbp", "lease_time", "ipv6only",
             "autoconfigure", "sleep", "server_id"}
Plugins6 == {"dns", "searchdomains", "nbp", "sleep", "server_id"}
=============================================================================
