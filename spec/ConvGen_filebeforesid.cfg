SPECIFICATION GSpec
CONSTANTS
  Clients <- Cl
  N = 2
  MaxMsgs = 100
  Depth = 12
  Chain <- ChainFileBeforeSid
  Static <- StaticOutside
INVARIANTS Export OneAddressPerClient StaticWins
CHECK_DEADLOCK FALSE
