SPECIFICATION Spec
CONSTANTS
  Macs = {m1, m2, m3}
  N = 2
  Lease = 2
  MaxTime = 3
  MaxRestarts = 2
  MaxOps = 5
INVARIANTS InRange Unique Sticky LeaseTimeOK DbRestoresReplied DbMatchesMemWhenQuiet DbNoDuplicates ExpiryOK
PROPERTIES DropsOnlyUnknownWhenFull RestartIdempotent
CHECK_DEADLOCK FALSE
