SPECIFICATION Spec
CONSTANTS
  NL = 2
  FailAt = 0
  MaxRx = 2
  LoadOK = FALSE
  BindFirst = FALSE
  EmptyQuits = FALSE
INVARIANTS NeverServesBare FailedLoadNeverListened ServesWhileOpen CleanupOnError AllServing CollectsAll NoListenersNoReturn
CHECK_DEADLOCK FALSE
