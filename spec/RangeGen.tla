------------------------------ MODULE RangeGen ------------------------------
(***************************************************************************)
(* Behaviour generator for the model -> code direction: RangeLease with a  *)
(* history variable recording the request / restart / tick letters of the  *)
(* behaviour.  Run with `tlc -simulate`; every behaviour that reaches      *)
(* Len(hist) = Depth is printed as JSON and replayed on the real plugin    *)
(* (`harness range -mode letters`), whose recording RangeTrace validates.  *)
(* A restart is only taken at quiescent states (the harness cannot stop    *)
(* the real handler between its row write and its reply).                  *)
(***************************************************************************)
EXTENDS RangeLease, Json

CONSTANT Depth
VARIABLE hist
gvars == <<mem, db, pend, now, restarts, ops, first, promised, last, hist>>

Letter(k, m) == [op |-> k, m |-> ToString(m)]
GInit == Init /\ hist = << >>
GNext == /\ Len(hist) < Depth
         /\ \/ \E m \in Macs : Renew(m) /\ hist' = Append(hist, Letter("req", m))
            \/ \E m \in Macs : Save(m)  /\ hist' = Append(hist, Letter("req", m))
            \/ \E m \in Macs : Reply(m) /\ UNCHANGED hist
            \/ \E m \in Macs : Drop(m)  /\ hist' = Append(hist, Letter("req", m))
            \/ Quiet /\ Restart /\ hist' = Append(hist, Letter("restart", "none"))
            \/ Quiet /\ Tick /\ hist' = Append(hist, Letter("tick", "none"))
GSpec == GInit /\ [][GNext]_gvars

Export == (Len(hist) = Depth /\ Quiet) => PrintT(<<"SCN", ToJson(hist)>>)
=============================================================================
