------------------------------ MODULE AllocConc ------------------------------
(***************************************************************************)
(* Fine-grained model of concurrent callers of one bitmap allocator: each  *)
(* Allocate is lock / test (choose a clear bit) / set / unlock, each Free  *)
(* is lock / test / clear / unlock, exactly the critical sections of       *)
(* bitmap.go and bitmap_ipv4.go.  With UseLock = TRUE every interleaving   *)
(* keeps C04 (Disjoint) and loses no update; with UseLock = FALSE TLC      *)
(* finds the schedules that hand one block to two callers - those          *)
(* counterexamples are the exclusion probes replayed on the real code      *)
(* through the alloc4.set / alloc6.set observation points.                 *)
(***************************************************************************)
EXTENDS Integers, FiniteSets, Sequences, TLC

CONSTANTS N, Threads, OpsPerThread, UseLock

Blocks == 0 .. (N - 1)
None == -1

VARIABLES out,     \* bits set in the bitmap
          lock,    \* None or the thread holding the mutex
          pc,      \* per thread: "idle" | "a_locked" | "a_tested" | "a_set" | "f_locked" | "f_tested" | "f_cleared"
          tmp,     \* per thread: the block chosen by the test step (None: no free block / not set)
          hint,    \* per thread: the hint of the running Allocate / the argument of the running Free
          held,    \* per thread: set of blocks this thread was given and has not freed
          ops      \* per thread: operations started so far
vars == <<out, lock, pc, tmp, hint, held, ops>>

Init == /\ out = {} /\ lock = None
        /\ pc = [t \in Threads |-> "idle"]
        /\ tmp = [t \in Threads |-> None]
        /\ hint = [t \in Threads |-> None]
        /\ held = [t \in Threads |-> {}]
        /\ ops = [t \in Threads |-> 0]

Acquire(t) == IF UseLock THEN lock = None /\ lock' = t ELSE UNCHANGED lock
Release(t) == IF UseLock THEN lock' = None ELSE UNCHANGED lock

\* Allocate(hint h) -------------------------------------------------------
AStart(t, h) == /\ pc[t] = "idle" /\ ops[t] < OpsPerThread
                /\ Acquire(t)
                /\ pc' = [pc EXCEPT ![t] = "a_locked"]
                /\ hint' = [hint EXCEPT ![t] = h]
                /\ ops' = [ops EXCEPT ![t] = @ + 1]
                /\ UNCHANGED <<out, tmp, held>>
ATest(t) == /\ pc[t] = "a_locked"
            /\ \/ /\ hint[t] # None /\ hint[t] \notin out
                  /\ tmp' = [tmp EXCEPT ![t] = hint[t]]
               \/ /\ ~(hint[t] # None /\ hint[t] \notin out)
                  /\ IF Blocks \ out = {}
                     THEN tmp' = [tmp EXCEPT ![t] = None]
                     ELSE \E r \in Blocks \ out : tmp' = [tmp EXCEPT ![t] = r]
            /\ pc' = [pc EXCEPT ![t] = "a_tested"]
            /\ UNCHANGED <<out, lock, hint, held, ops>>
ASet(t) == /\ pc[t] = "a_tested"
           /\ IF tmp[t] = None
              THEN UNCHANGED <<out, held>>
              ELSE out' = out \cup {tmp[t]} /\ held' = [held EXCEPT ![t] = @ \cup {tmp[t]}]
           /\ pc' = [pc EXCEPT ![t] = "a_set"]
           /\ UNCHANGED <<lock, tmp, hint, ops>>
AEnd(t) == /\ pc[t] = "a_set"
           /\ Release(t)
           /\ pc' = [pc EXCEPT ![t] = "idle"]
           /\ tmp' = [tmp EXCEPT ![t] = None]
           /\ hint' = [hint EXCEPT ![t] = None]
           /\ UNCHANGED <<out, held, ops>>

\* Free(b): callers only free what they hold (the quantifier of C04) --------
FStart(t, b) == /\ pc[t] = "idle" /\ ops[t] < OpsPerThread /\ b \in held[t]
                /\ Acquire(t)
                /\ pc' = [pc EXCEPT ![t] = "f_locked"]
                /\ hint' = [hint EXCEPT ![t] = b]
                /\ ops' = [ops EXCEPT ![t] = @ + 1]
                /\ UNCHANGED <<out, tmp, held>>
FTest(t) == /\ pc[t] = "f_locked"
            /\ tmp' = [tmp EXCEPT ![t] = IF hint[t] \in out THEN hint[t] ELSE None]
            /\ pc' = [pc EXCEPT ![t] = "f_tested"]
            /\ UNCHANGED <<out, lock, hint, held, ops>>
FClear(t) == /\ pc[t] = "f_tested"
             /\ IF tmp[t] = None
                THEN UNCHANGED <<out, held>>
                ELSE out' = out \ {tmp[t]} /\ held' = [held EXCEPT ![t] = @ \ {tmp[t]}]
             /\ pc' = [pc EXCEPT ![t] = "f_cleared"]
             /\ UNCHANGED <<lock, tmp, hint, ops>>
FEnd(t) == /\ pc[t] = "f_cleared"
           /\ Release(t)
           /\ pc' = [pc EXCEPT ![t] = "idle"]
           /\ tmp' = [tmp EXCEPT ![t] = None]
           /\ hint' = [hint EXCEPT ![t] = None]
           /\ UNCHANGED <<out, held, ops>>

Next == \E t \in Threads :
          \/ \E h \in Blocks \cup {None} : AStart(t, h)
          \/ ATest(t) \/ ASet(t) \/ AEnd(t)
          \/ \E b \in Blocks : FStart(t, b)
          \/ FTest(t) \/ FClear(t) \/ FEnd(t)
Spec == Init /\ [][Next]_vars /\ WF_vars(Next)

----------------------------------------------------------------------------
\* C04 under every interleaving: no block is held by two callers
Disjoint == \A s, t \in Threads : s # t => held[s] \cap held[t] = {}
\* no lost update: the bitmap is exactly what the callers hold (at rest)
AtRest == \A t \in Threads : pc[t] = "idle"
NoLostUpdate == AtRest => out = UNION {held[t] : t \in Threads}
\* the mutex is free when nobody is inside (C01's "no lock left held")
LockFreeAtRest == AtRest => lock = None
\* every started call finishes (no deadlock between callers)
Terminates == \A t \in Threads : (pc[t] # "idle") ~> (pc[t] = "idle")
=============================================================================
