SPECIFICATION Spec
CONSTANTS
  Which = "chain"
  MaxChain = 6
  MaxList = 3
INVARIANTS C11Holds C15Holds C12Holds C13Holds C13LoadHolds
CHECK_DEADLOCK FALSE
