-------------------------------- MODULE Alloc --------------------------------
(***************************************************************************)
(* The two bitmap allocators of coredhcp                                   *)
(*   plugins/allocators/bitmap/bitmap_ipv4.go  (IPv4 address range)        *)
(*   plugins/allocators/bitmap/bitmap.go       (IPv6 fixed-size prefixes)  *)
(* as "the set of outstanding blocks of an N-block pool".                  *)
(* Properties C04 (disjoint), C05 (in pool / exact capacity), C06 (Free    *)
(* exact or without effect), C07 (hint naming a free block is honoured).   *)
(*                                                                         *)
(* The specification is policy free: a hint-less Allocate (or one whose    *)
(* hint cannot be honoured) may return ANY free block.  first-fit, which   *)
(* the code implements, is one refinement (FirstFit below, used only by    *)
(* the drift detector).                                                    *)
(***************************************************************************)
EXTENDS Integers, FiniteSets, Sequences, TLC

CONSTANTS N,        \* number of blocks of the pool
          Below,    \* how many foreign blocks below the pool the alphabet names
          Above     \* ... and above its end

Blocks == 0 .. (N - 1)

(* Hints.  k = "none": the empty prefix; "blk": an address inside block b  *)
(* of the pool (long = TRUE: an IPv6 hint whose length exceeds the         *)
(* allocation length); "outside": an address d blocks below / above the    *)
(* pool; "foreign": an address of the other family.                        *)
Hints == [k : {"none"}] \cup [k : {"foreign"}]
         \cup [k : {"blk"}, b : Blocks, long : BOOLEAN]
         \cup [k : {"outside"}, side : {"below"}, d : 1..Below, long : BOOLEAN]
         \cup [k : {"outside"}, side : {"above"}, d : 1..Above, long : BOOLEAN]

(* Arguments of Free: a block of the pool (or a sub-prefix of it), or a    *)
(* prefix d blocks below the base / above the end.                         *)
FreeArgs == [k : {"blk"}, b : Blocks, sub : BOOLEAN]
            \cup [k : {"outside"}, side : {"below"}, d : 1..Below]
            \cup [k : {"outside"}, side : {"above"}, d : 1..Above]
            \cup [k : {"outside"}, side : {"zero", "far", "foreign"}, d : {0}]   \* all-zero address, far away, other family

VARIABLES out,      \* set of outstanding blocks
          holders,  \* holders[b]: number of un-freed successful Allocate results naming b
          result    \* what the last call returned (observation only)
vars == <<out, holders, result>>

HintNamesFree(h) == h.k = "blk" /\ h.b \notin out
WantLong(h)      == h.k \in {"blk", "outside"} /\ h.long

Init == /\ out = {}
        /\ holders = [b \in Blocks |-> 0]
        /\ result = [op |-> "init"]

AllocOK(h, r) ==
  /\ r \in Blocks \ out
  /\ HintNamesFree(h) => r = h.b                                      \* C07
  /\ out' = out \cup {r}
  /\ holders' = [holders EXCEPT ![r] = @ + 1]
  /\ result' = [op |-> "alloc", ok |-> TRUE, b |-> r, long |-> WantLong(h)]

AllocFail(h) ==
  /\ out = Blocks                                                     \* C05: only when full
  /\ UNCHANGED <<out, holders>>                                       \* ... changing nothing
  /\ result' = [op |-> "alloc", ok |-> FALSE, err |-> "noaddr"]

Allocate(h) == (\E r \in Blocks : AllocOK(h, r)) \/ AllocFail(h)

NamesOutstanding(a) == a.k = "blk" /\ a.b \in out

FreeOK(a) ==
  /\ NamesOutstanding(a)
  /\ out' = out \ {a.b}                                               \* C06: that block and no other
  /\ holders' = [holders EXCEPT ![a.b] = @ - 1]
  /\ result' = [op |-> "free", ok |-> TRUE]

FreeErr(a) ==
  /\ ~NamesOutstanding(a)
  /\ UNCHANGED <<out, holders>>                                       \* C06: without effect
  /\ result' = [op |-> "free", ok |-> FALSE]

Free(a) == FreeOK(a) \/ FreeErr(a)

Next == (\E h \in Hints : Allocate(h)) \/ (\E a \in FreeArgs : Free(a))
Spec == Init /\ [][Next]_vars

----------------------------------------------------------------------------
TypeOK == /\ out \subseteq Blocks
          /\ holders \in [Blocks -> Nat]

\* C04: a block is never held twice
Disjoint == \A b \in Blocks : holders[b] <= 1
HoldersAreOut == \A b \in Blocks : (holders[b] = 1) <=> (b \in out)

\* C05: a pool of N blocks satisfies exactly N outstanding allocations
CapacityExact ==
  [][\A h \in Hints : Allocate(h) => (result'.ok <=> out # Blocks)]_vars
FailureChangesNothing ==
  [][(result'.op = "alloc" /\ ~result'.ok) => (out' = out /\ result'.err = "noaddr")]_vars

\* C06
FreeExact ==
  [][\A a \in FreeArgs : Free(a) =>
        /\ result'.ok <=> NamesOutstanding(a)
        /\ result'.ok => out' = out \ {a.b}
        /\ ~result'.ok => out' = out]_vars

\* C07
HintHonoured ==
  [][\A h \in Hints : (Allocate(h) /\ HintNamesFree(h)) => (result'.ok /\ result'.b = h.b)]_vars

\* the policy of the implementation (not required by any property)
FirstFree == CHOOSE r \in Blocks \ out : \A q \in Blocks \ out : r <= q
=============================================================================
