---- MODULE ConvMC_TTrace_1791009820 ----
EXTENDS Sequences, TLCExt, Toolbox, Naturals, TLC, ConvMC

_expression ==
    LET ConvMC_TEExpression == INSTANCE ConvMC_TEExpression
    IN ConvMC_TEExpression!expression
----

_trace ==
    LET ConvMC_TETrace == INSTANCE ConvMC_TETrace
    IN ConvMC_TETrace!trace
----

_inv ==
    ~(
        TLCGet("level") = Len(_TETrace)
        /\
        phase = ([c1 |-> "selecting", c2 |-> "init", c3 |-> "init"])
        /\
        mind = ([c1 |-> 3, c2 |-> 0, c3 |-> 0])
        /\
        msgs = (1)
        /\
        last = ([c |-> "c1", mt |-> "discover", sid |-> "none", resp |-> [sent |-> TRUE, yi |-> 3, lease |-> "range", opts |-> {"sid"}]])
        /\
        told = ([c1 |-> {3}, c2 |-> {}, c3 |-> {}])
        /\
        bound = ([c1 |-> 1, c2 |-> 0, c3 |-> 0])
    )
----

_init ==
    /\ mind = _TETrace[1].mind
    /\ phase = _TETrace[1].phase
    /\ bound = _TETrace[1].bound
    /\ told = _TETrace[1].told
    /\ msgs = _TETrace[1].msgs
    /\ last = _TETrace[1].last
----

_next ==
    /\ \E i,j \in DOMAIN _TETrace:
        /\ \/ /\ j = i + 1
              /\ i = TLCGet("level")
        /\ mind  = _TETrace[i].mind
        /\ mind' = _TETrace[j].mind
        /\ phase  = _TETrace[i].phase
        /\ phase' = _TETrace[j].phase
        /\ bound  = _TETrace[i].bound
        /\ bound' = _TETrace[j].bound
        /\ told  = _TETrace[i].told
        /\ told' = _TETrace[j].told
        /\ msgs  = _TETrace[i].msgs
        /\ msgs' = _TETrace[j].msgs
        /\ last  = _TETrace[i].last
        /\ last' = _TETrace[j].last

\* Uncomment the ASSUME below to write the states of the error trace
\* to the given file in Json format. Note that you can pass any tuple
\* to `JsonSerialize`. For example, a sub-sequence of _TETrace.
    \* ASSUME
    \*     LET J == INSTANCE Json
    \*         IN J!JsonSerialize("ConvMC_TTrace_1791009820.json", _TETrace)

=============================================================================

 Note that you can extract this module `ConvMC_TEExpression`
  to a dedicated file to reuse `expression` (the module in the 
  dedicated `ConvMC_TEExpression.tla` file takes precedence 
  over the module `ConvMC_TEExpression` below).

---- MODULE ConvMC_TEExpression ----
EXTENDS Sequences, TLCExt, Toolbox, Naturals, TLC, ConvMC

expression == 
    [
        \* To hide variables of the `ConvMC` spec from the error trace,
        \* remove the variables below.  The trace will be written in the order
        \* of the fields of this record.
        mind |-> mind
        ,phase |-> phase
        ,bound |-> bound
        ,told |-> told
        ,msgs |-> msgs
        ,last |-> last
        
        \* Put additional constant-, state-, and action-level expressions here:
        \* ,_stateNumber |-> _TEPosition
        \* ,_mindUnchanged |-> mind = mind'
        
        \* Format the `mind` variable as Json value.
        \* ,_mindJson |->
        \*     LET J == INSTANCE Json
        \*     IN J!ToJson(mind)
        
        \* Lastly, you may build expressions over arbitrary sets of states by
        \* leveraging the _TETrace operator.  For example, this is how to
        \* count the number of times a spec variable changed up to the current
        \* state in the trace.
        \* ,_mindModCount |->
        \*     LET F[s \in DOMAIN _TETrace] ==
        \*         IF s = 1 THEN 0
        \*         ELSE IF _TETrace[s].mind # _TETrace[s-1].mind
        \*             THEN 1 + F[s-1] ELSE F[s-1]
        \*     IN F[_TEPosition - 1]
    ]

=============================================================================



Parsing and semantic processing can take forever if the trace below is long.
 In this case, it is advised to uncomment the module below to deserialize the
 trace from a generated binary file.

\*
\*---- MODULE ConvMC_TETrace ----
\*EXTENDS IOUtils, TLC, ConvMC
\*
\*trace == IODeserialize("ConvMC_TTrace_1791009820.bin", TRUE)
\*
\*=============================================================================
\*

---- MODULE ConvMC_TETrace ----
EXTENDS TLC, ConvMC

trace == 
    <<
    ([phase |-> [c1 |-> "init", c2 |-> "init", c3 |-> "init"],mind |-> [c1 |-> 0, c2 |-> 0, c3 |-> 0],msgs |-> 0,last |-> [c |-> "none", mt |-> "none", sid |-> "none", resp |-> [sent |-> FALSE, yi |-> 0, lease |-> "none", opts |-> {}]],told |-> [c1 |-> {}, c2 |-> {}, c3 |-> {}],bound |-> [c1 |-> 0, c2 |-> 0, c3 |-> 0]]),
    ([phase |-> [c1 |-> "selecting", c2 |-> "init", c3 |-> "init"],mind |-> [c1 |-> 3, c2 |-> 0, c3 |-> 0],msgs |-> 1,last |-> [c |-> "c1", mt |-> "discover", sid |-> "none", resp |-> [sent |-> TRUE, yi |-> 3, lease |-> "range", opts |-> {"sid"}]],told |-> [c1 |-> {3}, c2 |-> {}, c3 |-> {}],bound |-> [c1 |-> 1, c2 |-> 0, c3 |-> 0]])
    >>
----


=============================================================================

---- CONFIG ConvMC_TTrace_1791009820 ----
CONSTANTS
    Clients <- Cl
    N = 2
    MaxMsgs = 5
    Chain <- ChainRangeFirst
    Static <- StaticOutside

INVARIANT
    _inv

CHECK_DEADLOCK
    \* CHECK_DEADLOCK off because of PROPERTY or INVARIANT above.
    FALSE

INIT
    _init

NEXT
    _next

CONSTANT
    _TETrace <- _trace

ALIAS
    _expression
=============================================================================
\* Generated on Sat Oct 03 06:43:40 UTC 2026