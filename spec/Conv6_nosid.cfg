SPECIFICATION Spec
CONSTANTS
  Clients <- Cl
  N = 2
  MaxMsgs = 3
  Chain <- ChainNoSid6
  Static <- Static6
INVARIANTS DeclineNeverAnswered OnePrefixPerClient NoSharedPrefix DiscardRules StaticAddress EveryPDAnswered ReleaseKeepsLease DiscardedMessagesBindNothing
CHECK_DEADLOCK FALSE
