---------------------------- MODULE IPCalcTrace ----------------------------
(***************************************************************************)
(* Leg C for C20: validates records of calls of the real                   *)
(* allocators.Offset / allocators.AddPrefixes (128 bit, sixteen-bit limbs) *)
(* against the limb reference of IPCalc.  One trace line per call.         *)
(*   offset: a (= x), b (= base), p, swap (arguments passed as (b, a)),    *)
(*           res (4 limbs), err in {"none","overflow","other"}             *)
(*   add:    ip (= base), n (4 limbs), p, res (8 limbs), err,              *)
(*           rt / rterr = Offset(res, ip, p) when err = "none"             *)
(***************************************************************************)
EXTENDS IPCalc, Json

CONSTANTS Lens   \* set of property ids whose guards are enforced

Trace == ndJsonDeserialize("trace.ndjson")

VARIABLE l
tvars == <<l>>

IsEvent(e) == l <= Len(Trace) /\ Trace[l].ev = e /\ l' = l + 1

\* preconditions of C20; a record outside them is a harness error
PreOK ==
  l <= Len(Trace) =>
    LET e == Trace[l] IN
      /\ e.p \in 0..W
      /\ e.ev = "offset" => /\ Len(e.a) = NL /\ Len(e.b) = NL
                            /\ AlignedV(e.b, e.p) /\ Ge(e.a, e.b)
      /\ e.ev = "add"    => /\ Len(e.ip) = NL /\ Len(e.n) = NH
                            /\ AlignedV(e.ip, e.p)

TraceOffset ==
  /\ IsEvent("offset")
  /\ LET e == Trace[l]
         r == RefOffset(e.a, e.b, e.p)
     IN  ("C20" \in Lens) =>
           /\ r.ov  => e.err = "overflow"
           /\ ~r.ov => e.err = "none" /\ e.res = r.v

TraceAdd ==
  /\ IsEvent("add")
  /\ LET e == Trace[l]
         r == RefAdd(e.ip, e.n, e.p)
     IN  ("C20" \in Lens) =>
           /\ r.ov  => e.err = "overflow"
           /\ ~r.ov => /\ e.err = "none" /\ e.res = r.v
                       /\ e.rterr = "none" /\ e.rt = e.n      \* the two are inverse

TraceInit == l = 1
TraceNext == TraceOffset \/ TraceAdd
TraceSpec == TraceInit /\ [][TraceNext]_tvars

TraceAccepted ==
  LET d == TLCGet("stats").diameter
  IN  IF d - 1 = Len(Trace) THEN TRUE
      ELSE Print(<<"REJECT_AT", d, Len(Trace)>>, FALSE)
=============================================================================
