SPECIFICATION Spec
CONSTANTS
  Clients <- Cl
  N = 2
  MaxMsgs = 5
  Chain <- ChainTypical
  Static <- StaticOutside
INVARIANTS OneAddressPerClient NoSharedAddress StaticWins RepliesCarryAddress StaticClientsSkipLaterPlugins DynamicClientsGetEverything OtherServerNeverAnswered ListedClientsUseNoRangeAddress
PROPERTIES OfferThenAckSameAddress
CHECK_DEADLOCK FALSE
