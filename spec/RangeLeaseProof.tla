--------------------------- MODULE RangeLeaseProof ---------------------------
(***************************************************************************)
(* An unbounded argument for the design of RangeLease: for EVERY number of *)
(* clients, range size, lease time and number of restarts (TLC visits 3    *)
(* clients and 2 addresses) no two clients share an address (C02), the     *)
(* table never holds an address twice and restores every binding that was  *)
(* ever replied (C03) - at every state, which is to say at every crash     *)
(* point.  Checked by the TLA+ proof system; about the specification only. *)
(***************************************************************************)
EXTENDS RangeLease, TLAPS

ASSUME Consts == N \in Nat /\ Lease \in Nat /\ MaxTime \in Nat /\ MaxRestarts \in Nat /\ MaxOps \in Nat
                 /\ NoMac \notin Macs

InRangeMem == Bound(mem) \subseteq Addrs

IndInv ==
  /\ DOMAIN mem \subseteq Macs /\ DOMAIN db \subseteq Macs /\ DOMAIN first \subseteq Macs
  /\ pend \in Macs \cup {NoMac}
  /\ DOMAIN mem \subseteq DOMAIN db
  /\ \A m \in DOMAIN mem : db[m].addr = mem[m]
  /\ \A m \in DOMAIN db : m \in DOMAIN mem \/ m = pend
  /\ (pend # NoMac) => (pend \in DOMAIN db /\ pend \notin DOMAIN mem)
  /\ \A m \in DOMAIN db : db[m] \in [addr : Addrs, expiry : Nat]
  /\ now \in Nat
  /\ \A x, y \in DOMAIN db : db[x].addr = db[y].addr => x = y
  /\ \A m \in DOMAIN first : m \in DOMAIN db /\ db[m].addr = first[m]

LEMMA InitInv == Init => IndInv
  BY Consts DEF Init, IndInv

LEMMA StepInv == IndInv /\ [Next]_vars => IndInv'
<1> SUFFICES ASSUME IndInv, [Next]_vars PROVE IndInv'
  OBVIOUS
<1>1. ASSUME NEW m \in Macs, Renew(m) PROVE IndInv'
  <2>1. m \in DOMAIN mem /\ m \in DOMAIN db /\ UNCHANGED <<mem, pend, now, first>>
        /\ db' = [db EXCEPT ![m].expiry = MaxI(@, now + Lease)]
    BY <1>1 DEF Renew, IndInv
  <2>2. MaxI(db[m].expiry, now + Lease) \in Nat
    BY <2>1, Consts DEF IndInv, MaxI
  <2>3. DOMAIN db' = DOMAIN db /\ \A x \in DOMAIN db : db'[x].addr = db[x].addr /\ db'[x] \in [addr : Addrs, expiry : Nat]
    BY <2>1, <2>2 DEF IndInv
  <2> QED
    BY <2>1, <2>3, Consts DEF IndInv
<1>2. ASSUME NEW m \in Macs, Save(m) PROVE IndInv'
  <2>1. PICK a \in Addrs \ Bound(mem) : db' = Ext(db, m, [addr |-> a, expiry |-> now + Lease])
    BY <1>2 DEF Save
  <2>2. pend = NoMac /\ m \notin DOMAIN mem /\ pend' = m /\ mem' = mem /\ first' = first /\ now' = now
    BY <1>2 DEF Save, Quiet
  <2>3. DOMAIN db = DOMAIN mem
    BY <2>2, Consts DEF IndInv
  <2>4. m \notin DOMAIN db
    BY <2>2, <2>3
  <2>5. DOMAIN db' = DOMAIN db \cup {m} /\ db'[m].addr = a /\ \A x \in DOMAIN db : db'[x] = db[x]
    BY <2>1, <2>4 DEF Ext
  <2>7. db'[m] \in [addr : Addrs, expiry : Nat]
    BY <2>1, <2>4, Consts DEF Ext, IndInv
  <2>6. \A x \in DOMAIN db : db[x].addr # a
    BY <2>3 DEF IndInv, Bound
  <2> QED
    BY <2>2, <2>3, <2>4, <2>5, <2>6, <2>7, Consts DEF IndInv
<1>3. ASSUME NEW m \in Macs, Reply(m) PROVE IndInv'
  <2>1. pend = m /\ pend' = NoMac /\ db' = db /\ now' = now /\ mem' = Ext(mem, m, db[m].addr)
        /\ first' = IF m \in DOMAIN first THEN first ELSE Ext(first, m, db[m].addr)
    BY <1>3 DEF Reply
  <2>2. m \in DOMAIN db /\ m \notin DOMAIN mem
    BY <2>1, Consts DEF IndInv
  <2>3. DOMAIN mem' = DOMAIN mem \cup {m} /\ mem'[m] = db[m].addr /\ \A x \in DOMAIN mem : mem'[x] = mem[x]
    BY <2>1, <2>2 DEF Ext
  <2>4. DOMAIN first' \subseteq DOMAIN first \cup {m} /\ \A x \in DOMAIN first' : first'[x] = IF x \in DOMAIN first THEN first[x] ELSE db[m].addr
    BY <2>1 DEF Ext
  <2> QED
    BY <2>1, <2>2, <2>3, <2>4, Consts DEF IndInv
<1>4. ASSUME NEW m \in Macs, Drop(m) PROVE IndInv'
  BY <1>4 DEF Drop, IndInv
<1>5. ASSUME Restart PROVE IndInv'
  BY <1>5, Consts DEF Restart, IndInv
<1>6. ASSUME Tick PROVE IndInv'
  BY <1>6 DEF Tick, IndInv
<1>7. ASSUME UNCHANGED vars PROVE IndInv'
  BY <1>7 DEF vars, IndInv
<1> QED
  BY <1>1, <1>2, <1>3, <1>4, <1>5, <1>6, <1>7 DEF Next

THEOREM Safety == Spec => [](InRangeMem /\ Unique /\ Sticky /\ DbNoDuplicates /\ DbRestoresReplied)
<1>1. IndInv => (InRangeMem /\ Unique /\ Sticky /\ DbNoDuplicates /\ DbRestoresReplied)
  BY DEF IndInv, InRangeMem, Unique, Sticky, DbNoDuplicates, DbRestoresReplied, Injective, Bound
<1> QED
  BY InitInv, StepInv, <1>1, PTL DEF Spec
=============================================================================
