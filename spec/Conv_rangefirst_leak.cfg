SPECIFICATION Spec
CONSTANTS
  Clients <- Cl
  N = 2
  MaxMsgs = 5
  Chain <- ChainRangeFirst
  Static <- StaticOutside
INVARIANTS ListedClientsUseNoRangeAddress
PROPERTIES OfferThenAckSameAddress
CHECK_DEADLOCK FALSE
