----------------------------- MODULE DispatchMC -----------------------------
(***************************************************************************)
(* Leg A for C11 C12 C13 C15: every abstract input is one TLC state; the   *)
(* invariants say that the cascades of Dispatch satisfy the declarative    *)
(* statements of the properties on the whole input product.                *)
(***************************************************************************)
EXTENDS Dispatch

CONSTANTS Which,      \* "d4" | "d6" | "chain" | "load"
          MaxChain, MaxList

VARIABLES k, in
vars == <<k, in>>

In4 == [parse : BOOLEAN, op : 0..255, mt : -1..255, gi : {"zero", "routable"}, ci : {"zero"}, bflag : {FALSE},
        final : {"base", "nak", "nil"}, bound : {0}, oobif : {7}]
In4Addr == [parse : {TRUE}, op : {1}, mt : {DISCOVER, REQUEST}, gi : AddrClasses, ci : AddrClasses, bflag : BOOLEAN,
            final : {"base", "nak", "nil"}, bound : {0, 5}, oobif : {0, 7}]
In6 == [parse : BOOLEAN, depth : 0..4, outer : {"forw", "repl"}, itype : 0..255, cid : BOOLEAN, rapid : BOOLEAN,
        src : {"global", "linklocal"}, final : {"resp", "nil"}, bound : {0, 5}, oobif : {0, 7}]
Chains == UNION {[1..n -> Behaviours] : n \in 0..MaxChain}
Lists == UNION {[1..n -> PluginKinds] : n \in 0..MaxList}

\* a NAK is only ever produced for a REQUEST (no built-in plugin produces one at all)
NakOnlyForRequest(i) == i.final = "nak" => i.mt = REQUEST
Init == /\ k = Which
        /\ CASE Which = "d4"    -> in \in {i \in In4 \cup In4Addr : NakOnlyForRequest(i)}
             [] Which = "d6"    -> in \in In6
             [] Which = "chain" -> in \in Chains
             [] Which = "load"  -> in \in [has6 : BOOLEAN, l6 : Lists, has4 : BOOLEAN, l4 : Lists]
Next == UNCHANGED vars
Spec == Init /\ [][Next]_vars

\* the environment assumption of C15 (stated in DESIGN.md): an unbound listener gets the arrival interface
Env4 == k = "d4" => (in.bound # 0 \/ in.oobif # 0)

C11Holds == (k = "d4") => C11Says(in, Reply4(in))
C15Holds == (k = "d4" /\ (in.bound # 0 \/ in.oobif # 0)) => C15Says(in, Reply4(in))
C12Holds == (k = "d6") => C12Says(in, Reply6(in))
C13Holds == (k = "chain") => C13Says(in, RunChain(in))
\* LoadPlugins: exactly the listed plugins that support the protocol, in file order; unknown / failing aborts
C13LoadHolds == (k = "load") =>
  LET r == LoadPlugins(in.has6, in.l6, in.has4, in.l4) IN
    /\ r.err <=> \/ (~in.has6 /\ ~in.has4)
                 \/ (in.has6 /\ \E i \in 1..Len(in.l6) : in.l6[i] = "unknown" \/ in.l6[i] \in {"fail", "nilh"})
                 \/ (in.has4 /\ \E i \in 1..Len(in.l4) : in.l4[i] = "unknown" \/ in.l4[i] \in {"fail", "nilh"})
    /\ ~r.err => /\ \A i \in 1..Len(r.h4) : in.l4[r.h4[i]] \in {"v4", "dual"}
                 /\ \A i \in 1..(Len(r.h4) - 1) : r.h4[i] < r.h4[i+1]
                 /\ \A j \in 1..Len(in.l4) : (in.has4 /\ in.l4[j] \in {"v4", "dual"}) => \E i \in 1..Len(r.h4) : r.h4[i] = j
                 /\ \A i \in 1..Len(r.h6) : in.l6[r.h6[i]] \in {"v6", "dual"}
                 /\ \A i \in 1..(Len(r.h6) - 1) : r.h6[i] < r.h6[i+1]
                 /\ \A j \in 1..Len(in.l6) : (in.has6 /\ in.l6[j] \in {"v6", "dual"}) => \E i \in 1..Len(r.h6) : r.h6[i] = j
=============================================================================
