---------------------------- MODULE LifecycleTrace ----------------------------
(* Conformance of the real server.Start / Serve / Wait / Close (real UDP       *)
(* sockets on loopback, no capture hooks) with Lifecycle.  Used as a drift     *)
(* detector: it is not one of the listed properties.                           *)
(*  lstart {n, failat, res}     ports {when, busy[]}                           *)
(*  rt {i, proto, res, type, xidok}   a request sent to listener i over UDP    *)
(*  dgs {i, proto, kind, len, res, xidok}   a byte string of the given kind     *)
(*        (0 bytes included) was sent to listener i over UDP, then a request:  *)
(*        res/xidok are those of the request.  Under lens C01 this is C01's    *)
(*        availability sentence observed on the real receive loop              *)
(*        (Lifecycle!Datagram keeps srv[i] = "reading": ServesWhileOpen)       *)
(*  burst {i, proto, n, own, stray, missing}   n clients sent at the same     *)
(*        instant: own got exactly their answer, stray = answers that were     *)
(*        somebody else's                                                      *)
(*  startrace {cfg, res, sent, replies, bare}   SOLICITs every 2 ms from before *)
(*        server.Start (a chain with a 300 ms plugin setup that succeeds /     *)
(*        fails) until after it returned: bare = replies the configured chain  *)
(*        did not produce.  C13 at start-up (Lifecycle!NeverServesBare,        *)
(*        FailedLoadNeverListened)                                             *)
(*  wait {res}                  Wait() after Close()                           *)
EXTENDS Integers, Sequences, TLC, Json

CONSTANTS Lens
Trace == ndJsonDeserialize("trace.ndjson")
VARIABLES l, n, started
tvars == <<l, n, started>>
IsEvent(e) == l <= Len(Trace) /\ Trace[l].ev = e /\ l' = l + 1
On == "LIFE" \in Lens

TStart == /\ IsEvent("lstart")
          /\ LET e == Trace[l] IN
             /\ On => (e.res = IF e.failat = 0 THEN "ok" ELSE "err")     \* Lifecycle!Started / OpenFails
             /\ n' = e.n /\ started' = (e.res = "ok")
TPorts == /\ IsEvent("ports")
          /\ LET e == Trace[l] IN
             On => /\ e.when = "after-start" => (\A i \in 1..Len(e.busy) : e.busy[i])        \* AllServing
                   /\ e.when \in {"after-fail", "after-close"} => (\A i \in 1..Len(e.busy) : ~e.busy[i])   \* CleanupOnError / CollectsAll
          /\ UNCHANGED <<n, started>>
TRoundTrip == /\ IsEvent("rt")
              /\ LET e == Trace[l] IN
                 On => (started /\ e.res = "reply" /\ e.xidok /\ e.type = (IF e.proto = 4 THEN 2 ELSE 2))   \* OFFER / ADVERTISE
              /\ UNCHANGED <<n, started>>
TDatagram == /\ IsEvent("dgs")
             /\ LET e == Trace[l] IN
                (On \/ "C01" \in Lens) => (e.res = "reply" /\ e.xidok)     \* later datagrams are still handled
             /\ UNCHANGED <<n, started>>
\* many clients at the same instant: each gets exactly the answer to ITS request at ITS address (C12: back to the source
\* address and port; C16: the replies are those of some one-at-a-time order; C01: one reply per datagram)
TBurst == /\ IsEvent("burst")
          /\ LET e == Trace[l] IN
             (On \/ Lens \cap {"C01", "C12", "C16"} # {}) => (e.own = e.n /\ e.stray = 0 /\ e.missing = 0)
          /\ UNCHANGED <<n, started>>
TStartRace == /\ IsEvent("startrace")
              /\ LET e == Trace[l] IN
                 (On \/ "C13" \in Lens) =>
                    /\ e.res = (IF e.cfg = "ok" THEN "ok" ELSE "err")     \* a failing plugin setup aborts start-up
                    /\ e.bare = 0                                         \* every answer went through the configured chain
                    /\ e.cfg = "fail" => e.replies = 0                    \* a rejected configuration never answered
              /\ UNCHANGED <<n, started>>
\* a section without listeners is still configured: its unknown / failing plugins abort start-up (Lifecycle!Load)
TStartCfg == /\ IsEvent("startcfg")
             /\ (On \/ "C13" \in Lens) => Trace[l].res = "err"
             /\ UNCHANGED <<n, started>>
\* however long the chain takes, the response it returns is what is sent
TSlowChain == /\ IsEvent("slowchain")
              /\ (On \/ "C13" \in Lens) => Trace[l].res = "reply"
              /\ UNCHANGED <<n, started>>
\* C15 on the listener Start made for a plain unicast address of this host: it is not bound to an interface, so broadcast and
\* link-level replies leave on the interface the request arrived on (pin4: what VerifSend4Hook captured on that listener)
TPin4 == /\ IsEvent("pin4")
         /\ LET e == Trace[l] IN
              ("C15" \in Lens /\ e.sent) =>
                 /\ e.bflag => e.pbc
                 /\ (e.pbc \/ e.l2) => (e.woob /\ e.ifindex = e.arrived)
         /\ UNCHANGED <<n, started>>
TWait == /\ IsEvent("wait")
         /\ On => Trace[l].res = "returned"                               \* WaitReturns
         /\ UNCHANGED <<n, started>>
TNote == IsEvent("note") /\ UNCHANGED <<n, started>>

TraceInit == l = 1 /\ n = 0 /\ started = FALSE
TraceNext == TStart \/ TPorts \/ TRoundTrip \/ TDatagram \/ TBurst \/ TStartRace \/ TStartCfg \/ TSlowChain \/ TPin4 \/ TWait \/ TNote
TraceSpec == TraceInit /\ [][TraceNext]_tvars
TraceAccepted ==
  LET d == TLCGet("stats").diameter
  IN  IF d - 1 = Len(Trace) THEN TRUE ELSE Print(<<"REJECT_AT", d, Len(Trace)>>, FALSE)
=============================================================================
