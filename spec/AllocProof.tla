----------------------------- MODULE AllocProof -----------------------------
(***************************************************************************)
(* An unbounded argument for the design of Alloc: for EVERY pool size N     *)
(* (TLC only visits N <= 6) the outstanding set stays inside the pool, no   *)
(* block is held twice (C04) and holders is exactly the characteristic      *)
(* function of out - checked by the TLA+ proof system (tlapm).  It is an    *)
(* argument about the specification, not about the code: the binding of    *)
(* the code to Alloc is what AllocTrace decides.                           *)
(***************************************************************************)
EXTENDS Alloc, TLAPS

ASSUME NNat == N \in Nat /\ Below \in Nat /\ Above \in Nat

IndInv == /\ out \subseteq Blocks
          /\ holders \in [Blocks -> Nat]
          /\ \A b \in Blocks : holders[b] = IF b \in out THEN 1 ELSE 0

LEMMA InitInv == Init => IndInv
  BY DEF Init, IndInv

LEMMA StepInv == IndInv /\ [Next]_vars => IndInv'
<1> SUFFICES ASSUME IndInv, [Next]_vars PROVE IndInv'
  OBVIOUS
<1>1. ASSUME NEW h \in Hints, NEW r \in Blocks, AllocOK(h, r) PROVE IndInv'
  BY <1>1 DEF AllocOK, IndInv
<1>2. ASSUME NEW h \in Hints, AllocFail(h) PROVE IndInv'
  BY <1>2 DEF AllocFail, IndInv
<1>3. ASSUME NEW a \in FreeArgs, FreeOK(a) PROVE IndInv'
  BY <1>3 DEF FreeOK, NamesOutstanding, IndInv
<1>4. ASSUME NEW a \in FreeArgs, FreeErr(a) PROVE IndInv'
  BY <1>4 DEF FreeErr, IndInv
<1>5. ASSUME UNCHANGED vars PROVE IndInv'
  BY <1>5 DEF vars, IndInv
<1> QED
  BY <1>1, <1>2, <1>3, <1>4, <1>5 DEF Next, Allocate, Free

THEOREM Safety == Spec => [](TypeOK /\ Disjoint /\ HoldersAreOut)
<1>1. IndInv => (TypeOK /\ Disjoint /\ HoldersAreOut)
  BY DEF IndInv, TypeOK, Disjoint, HoldersAreOut
<1> QED
  BY InitInv, StepInv, <1>1, PTL DEF Spec

(* C05 on the design, for every N: a failing Allocate happens only on a    *)
(* full pool and changes nothing; a succeeding one only on a pool that is   *)
(* not full.                                                                *)
THEOREM Capacity == ASSUME NEW h \in Hints, Allocate(h)
                    PROVE  (result'.ok <=> out # Blocks) /\ (~result'.ok => out' = out)
<1>1. CASE \E r \in Blocks : AllocOK(h, r)
  BY <1>1 DEF AllocOK
<1>2. CASE AllocFail(h)
  BY <1>2 DEF AllocFail
<1> QED BY <1>1, <1>2 DEF Allocate
=============================================================================
