SPECIFICATION Spec
INVARIANTS C18Holds ListenersExact
CHECK_DEADLOCK FALSE
