SPECIFICATION Spec
CONSTANTS
  D4 <- V4b_D4
  D6 <- NoD
  N4 = 2
  N6 = 1
  PerMessage = TRUE
  PanicInCS = FALSE
  DeferUnlock = FALSE
  Reloads = 1
INVARIANTS AtMostOneReply LocksFreeAtRest BufferSafe LockDiscipline RangeUnique RangeInRange PrefixDisjoint SerialEquivalent4 SerialEquivalent6
PROPERTIES Terminates
CHECK_DEADLOCK FALSE
