SPECIFICATION Spec
CONSTANTS
  N = 2
  Threads = {1, 2}
  OpsPerThread = 3
  UseLock = FALSE
INVARIANTS Disjoint

CHECK_DEADLOCK FALSE
