----------------------------- MODULE StaticFile -----------------------------
(***************************************************************************)
(* The static lease file plugin (plugins/file/plugin.go), property C10.    *)
(* Per protocol p in {4, 6}: one lease file, one served table, one plugin  *)
(* instance (with or without autorefresh).  A file is a sequence of line   *)
(* kinds; Parse rejects the file as a whole if any line is malformed and   *)
(* otherwise yields the last-wins mapping.  An update of the file is ONE   *)
(* in-place step (truncate, append, overwrite); with autorefresh each step *)
(* makes one reload pending; a reload swaps the whole table or, for a      *)
(* malformed file, leaves it alone.                                        *)
(***************************************************************************)
EXTENDS Integers, FiniteSets, Sequences, TLC

CONSTANTS Macs, Addrs, MaxLines, MaxSteps

Protos == {4, 6}
Bad == {"wsonly", "fields1", "fields3", "badmac", "badip", "wrongfamily"}
Neutral == {"blank", "comment"}
Lines == [k : Neutral] \cup [k : Bad] \cup [k : {"ok"}, m : Macs, a : Addrs]
Files == UNION {[1..n -> Lines] : n \in 0..MaxLines}

RECURSIVE MapOf(_)
MapOf(f) == IF f = << >> THEN << >>
            ELSE LET prev == MapOf(SubSeq(f, 1, Len(f) - 1))
                     x    == f[Len(f)]
                 IN  IF x.k = "ok"
                     THEN [m \in DOMAIN prev \cup {x.m} |-> IF m = x.m THEN x.a ELSE prev[m]]   \* last occurrence wins
                     ELSE prev
Good(f)  == \A i \in 1..Len(f) : f[i].k \notin Bad    \* any malformed line rejects the whole file
Parse(f) == MapOf(f)                                  \* only meaningful for Good(f)

VARIABLES file, table, live, auto, pending, steps,
          goodSeen   \* history: the well-formed contents a (re)load could have seen, per protocol
vars == <<file, table, live, auto, pending, steps, goodSeen>>

Init == /\ file \in [Protos -> {<< >>}]
        /\ table = [p \in Protos |-> << >>]
        /\ live = [p \in Protos |-> FALSE]
        /\ auto = [p \in Protos |-> FALSE]
        /\ pending = [p \in Protos |-> 0]
        /\ steps = 0
        /\ goodSeen = [p \in Protos |-> {}]

\* the environment edits a file in one step
Edit(p, f) ==
  /\ steps < MaxSteps /\ f # file[p]
  /\ file' = [file EXCEPT ![p] = f]
  /\ pending' = IF live[p] /\ auto[p] THEN [pending EXCEPT ![p] = @ + 1] ELSE pending
  /\ steps' = steps + 1
  /\ UNCHANGED <<table, live, auto, goodSeen>>

Setup(p, a) ==
  /\ ~live[p]
  /\ Good(file[p])                       \* a malformed file is rejected as a whole: no instance
  /\ table' = [table EXCEPT ![p] = Parse(file[p])]
  /\ goodSeen' = [goodSeen EXCEPT ![p] = @ \cup {file[p]}]
  /\ live' = [live EXCEPT ![p] = TRUE]
  /\ auto' = [auto EXCEPT ![p] = a]
  /\ UNCHANGED <<file, pending, steps>>

Reload(p) ==
  /\ pending[p] > 0
  /\ pending' = [pending EXCEPT ![p] = @ - 1]
  /\ IF ~Good(file[p])
     THEN UNCHANGED <<table, goodSeen>>          \* malformed update: previous mapping stays in force
     ELSE /\ table' = [table EXCEPT ![p] = Parse(file[p])]   \* whole-table swap
          /\ goodSeen' = [goodSeen EXCEPT ![p] = @ \cup {file[p]}]
  /\ UNCHANGED <<file, live, auto, steps>>

Next == \E p \in Protos : (\E f \in Files : Edit(p, f)) \/ (\E a \in BOOLEAN : Setup(p, a)) \/ Reload(p)
Spec == Init /\ [][Next]_vars /\ \A p \in Protos : WF_vars(Reload(p))

----------------------------------------------------------------------------
\* what a request of hardware address m gets from instance p
Answer(p, m) == IF live[p] /\ m \in DOMAIN table[p] THEN table[p][m] ELSE "nothing"

\* all or nothing: the served table is always the complete mapping of some well-formed content
AllOrNothing == \A p \in Protos : live[p] => \E f \in goodSeen[p] : table[p] = Parse(f)
\* at rest the table is that of the latest well-formed content seen (or unchanged by a malformed one)
Quiescent == \A p \in Protos :
  (live[p] /\ auto[p] /\ pending[p] = 0 /\ Good(file[p]) /\ file[p] \in goodSeen[p]) => table[p] = Parse(file[p])
\* each instance serves from its own file only
Isolation == [][\A p \in Protos : (file'[p] = file[p] /\ live'[p] = live[p] /\ pending'[p] >= pending[p]) => table'[p] = table[p]]_vars
\* a well-formed update eventually replaces the mapping
Eventually == \A p \in Protos : (pending[p] > 0) ~> (pending[p] = 0)
EventuallyServed == \A p \in Protos : \A f \in Files :
  []( (live[p] /\ auto[p] /\ file[p] = f /\ Good(f) /\ pending[p] > 0) => <>(table[p] = Parse(f) \/ file[p] # f) )
=============================================================================
