---------------------------- MODULE Conv6Trace ----------------------------
(***************************************************************************)
(* Conformance of whole DHCPv6 chains of the real built-in plugins          *)
(* (plugins.LoadPlugins, datagrams through HandleMsg6) with Conv6Core.      *)
(*  c6reset {name, chain [..], N, static [{c, a}]}                           *)
(*  c6msg {c, mt, sid, na, pd, sent, type, rna, rpd, opts [..], sidok}       *)
(*        rna: 0 = no IA_NA in the reply, the listed address's number, -2 =  *)
(*        anything else; rpd: 0 = no IA_PD, -1 = NoPrefixAvail, 1..N = the    *)
(*        block, -2 = anything else                                          *)
(* Lens CONV6: the whole composition (drift detector).  Lenses of listed     *)
(* properties pick their sentences: C14 (RFC 8415 section 16 discards, this  *)
(* server's identifier in every reply), C10 (the listed address in an IA_NA  *)
(* when one was requested, nothing otherwise), C08 / C09 (a prefix of the    *)
(* pool that is nobody else's; the same one again), C12 (ADVERTISE for       *)
(* SOLICIT, REPLY otherwise, nothing for DECLINE).                           *)
(***************************************************************************)
EXTENDS Conv6Core, TLC, Json

CONSTANTS Lens
Trace == ndJsonDeserialize("trace.ndjson")

VARIABLES l, chain, n, static, held
tvars == <<l, chain, n, static, held>>
IsEvent(e) == l <= Len(Trace) /\ Trace[l].ev = e /\ l' = l + 1
Idx(s) == 1 .. Len(s)
SetOf(s) == {s[i] : i \in Idx(s)}
Clients == {"c1", "c2", "c3"}
Pos(p) == IF \E i \in Idx(chain) : chain[i] = p THEN CHOOSE i \in Idx(chain) : chain[i] = p ELSE 0

TraceReset ==
  /\ IsEvent("c6reset")
  /\ LET e == Trace[l] IN
     /\ chain' = e.chain /\ n' = e.N
     /\ static' = [c \in {e.static[i].c : i \in Idx(e.static)} |-> e.static[CHOOSE i \in Idx(e.static) : e.static[i].c = c].a]
     /\ held' = [c \in Clients |-> 0]

TraceMsg ==
  /\ IsEvent("c6msg")
  /\ LET e == Trace[l]  c == e.c
         m == [mt |-> e.mt, sid |-> e.sid, na |-> e.na, pd |-> e.pd] IN
     \E choice \in 1..(IF n = 0 THEN 1 ELSE n) :
       LET h == Handle6(chain, static, n, held, c, m, choice)  r == h.resp  eo == SetOf(e.opts) IN
       /\ held' = h.held
       /\ (r.sent /\ e.sent /\ r.pd > 0) => e.rpd = r.pd          \* the block the allocator picked is the one observed
       /\ ("CONV6" \in Lens) =>
            /\ e.sent = r.sent
            /\ e.sent => (e.type = r.type /\ e.rna = r.na /\ e.rpd = r.pd /\ eo = r.opts /\ ("sid" \in eo => e.sidok))
       /\ ("C12" \in Lens) =>
            /\ e.mt = "decline" => ~e.sent
            /\ e.sent => e.type = (IF e.mt = "solicit" THEN "advertise" ELSE "reply")
       /\ ("C14" \in Lens /\ Pos("server_id") = 1) =>
            /\ e.sent = r.sent                                     \* exactly the RFC 8415 section 16 discards
            /\ e.sent => ("sid" \in eo /\ e.sidok)
       /\ ("C10" \in Lens /\ Pos("file") # 0 /\ e.sent /\ r.sent) => e.rna = r.na
       /\ (Lens \cap {"C08", "C09"} # {} /\ Pos("prefix") # 0 /\ e.sent /\ r.sent) =>
            /\ (e.pd <=> e.rpd # 0)                                \* every IA_PD answered: a prefix or NoPrefixAvail
            /\ e.rpd = r.pd                                        \* in the pool, nobody else's, the same one again
  /\ UNCHANGED <<chain, n, static>>

TraceInit == l = 1 /\ chain = << >> /\ n = 0 /\ static = << >> /\ held = [c \in Clients |-> 0]
TraceNext == TraceReset \/ TraceMsg
TraceSpec == TraceInit /\ [][TraceNext]_tvars
TraceAccepted ==
  LET d == TLCGet("stats").diameter
  IN  IF d - 1 = Len(Trace) THEN TRUE ELSE Print(<<"REJECT_AT", d, Len(Trace)>>, FALSE)
=============================================================================
