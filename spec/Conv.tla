-------------------------------- MODULE Conv --------------------------------
(***************************************************************************)
(* DHCPv4 conversations against a whole chain of built-in plugins: the      *)
(* composition of what Dispatch (HandleMsg4), Plugins (server_id,           *)
(* lease_time, dns, router, netmask), StaticFile (file) and RangeLease      *)
(* (range) specify one by one.  Not one of the listed properties: the       *)
(* specification grows to what a user of the server relies on end to end -  *)
(* a client that runs DISCOVER / OFFER / REQUEST / ACK ends up with ONE      *)
(* address, the same in OFFER and ACK, that nobody else was given, with the  *)
(* options of exactly the plugins that ran.                                 *)
(*                                                                         *)
(* Chain      a sequence of plugin names, in configuration order            *)
(* Static     client -> address, the file plugin's table (addresses are     *)
(*            numbers: 1..N is the dynamic range, > N lies outside it)      *)
(* bound      the range plugin's memory: client -> 1..N, 0 = none           *)
(* told       history: every address a reply gave to a client               *)
(* phase      the client's RFC 2131 state: init | selecting | bound         *)
(* mind       the address the client has in mind (OFFERed or ACKed)         *)
(*                                                                         *)
(* What the code does, and the model says so:                               *)
(*  - the file plugin ENDS the chain for a listed client: plugins           *)
(*    configured after it add nothing to that client's replies;             *)
(*  - the range plugin serves every request that reaches it: configured     *)
(*    BEFORE file it also binds (and keeps) an address for listed clients;  *)
(*  - nothing checks a static address against the dynamic range             *)
(*    (StaticInRange = TRUE is the weakened configuration: TLC finds two    *)
(*    clients with one address);                                            *)
(*  - REQUEST is answered like DISCOVER (no requested-address check, no     *)
(*    NAK), DECLINE / RELEASE / INFORM get no reply and change nothing.     *)
(***************************************************************************)
EXTENDS ConvCore, TLC

CONSTANTS Clients, N, Chain, Static, MaxMsgs

Plugins == {"server_id", "file", "range", "lease_time", "dns", "router", "netmask"}
ASSUME \A i \in 1..Len(Chain) : Chain[i] \in Plugins
ASSUME DOMAIN Static \subseteq Clients

Range == 1..N

VARIABLES bound, told, phase, mind, msgs, last
vars == <<bound, told, phase, mind, msgs, last>>

Init == /\ bound = [c \in Clients |-> 0]
        /\ told = [c \in Clients |-> {}]
        /\ phase = [c \in Clients |-> "init"]
        /\ mind = [c \in Clients |-> 0]
        /\ msgs = 0
        /\ last = [c |-> "none", mt |-> "none", sid |-> "none", resp |-> NoResp]

Handle(c, sid, choice) == HandleP(Chain, Static, N, bound, c, sid, choice)

(* client -> server messages *)
Answered(c, mt, sid) ==                      \* DISCOVER and REQUEST: through the chain
  /\ mt \in {"discover", "request"}
  /\ \E choice \in Range :
       LET h == Handle(c, sid, choice) IN
         /\ bound' = h.bound
         /\ last' = [c |-> c, mt |-> mt, sid |-> sid, resp |-> h.resp]
         /\ IF h.resp.sent
            THEN /\ told' = [told EXCEPT ![c] = @ \cup {h.resp.yi}]
                 /\ mind' = [mind EXCEPT ![c] = h.resp.yi]
                 /\ phase' = [phase EXCEPT ![c] = IF mt = "discover" THEN "selecting" ELSE "bound"]
            ELSE UNCHANGED <<told, mind, phase>>
Ignored(c, mt) ==                            \* DECLINE, RELEASE, INFORM: never answered, nothing changes in the server
  /\ mt \in {"decline", "release", "inform"}
  /\ last' = [c |-> c, mt |-> mt, sid |-> "none", resp |-> NoResp]
  /\ phase' = [phase EXCEPT ![c] = IF mt = "inform" THEN @ ELSE "init"]
  /\ mind' = [mind EXCEPT ![c] = IF mt = "inform" THEN @ ELSE 0]
  /\ UNCHANGED <<bound, told>>

Msg(c, mt, sid) == /\ msgs < MaxMsgs /\ msgs' = msgs + 1
                   /\ (Answered(c, mt, sid) \/ (sid = "none" /\ Ignored(c, mt)))
Next == \E c \in Clients, mt \in {"discover", "request", "decline", "release", "inform"}, sid \in {"none", "own", "other"} : Msg(c, mt, sid)
Spec == Init /\ [][Next]_vars

----------------------------------------------------------------------------
Pos(p) == IF \E i \in 1..Len(Chain) : Chain[i] = p THEN CHOOSE i \in 1..Len(Chain) : Chain[i] = p ELSE 0
Has(p) == Pos(p) # 0
Before(p, q) == Has(p) /\ Has(q) /\ Pos(p) < Pos(q)

\* the ACK confirms what the OFFER promised
OfferThenAckSameAddress ==
  [][\A c \in Clients : (phase[c] = "selecting" /\ last'.c = c /\ last'.mt = "request" /\ last'.resp.sent)
                           => last'.resp.yi = mind[c]]_vars
\* a client is only ever told ONE address
OneAddressPerClient == \A c \in Clients : Cardinality(told[c] \ {0}) <= 1
\* ... and nobody else is told it  (needs static addresses outside the dynamic range)
NoSharedAddress == \A c, d \in Clients : c # d => (told[c] \cap told[d]) \ {0} = {}
\* a listed client gets the listed address whenever file runs for it
StaticWins == \A c \in DOMAIN Static : Has("file") => told[c] \subseteq {Static[c]}
\* no reply without an address when the chain has a plugin that assigns one to everybody it lets through
RepliesCarryAddress == (Has("range") /\ last.resp.sent) => last.resp.yi # 0
\* options: exactly those of the plugins that ran - for a listed client nothing configured after file
StaticClientsSkipLaterPlugins ==
  (last.resp.sent /\ last.c \in DOMAIN Static /\ Has("file")) =>
     \A p \in {"dns", "router", "netmask"} : (p \in last.resp.opts) <=> Before(p, "file")
DynamicClientsGetEverything ==
  (last.resp.sent /\ last.c \notin DOMAIN Static) =>
     /\ \A p \in {"dns", "router", "netmask"} : (p \in last.resp.opts) <=> Has(p)
     /\ Has("range") => last.resp.lease = "range"                      \* the range's own lease time, never the default
\* a request naming another server is never answered (server_id anywhere in the chain ... before the plugin that ends it)
OtherServerNeverAnswered == (last.sid = "other" /\ Has("server_id") /\ (last.c \notin DOMAIN Static \/ Before("server_id", "file"))) => ~last.resp.sent
\* the range plugin in front of file binds addresses for listed clients too (a fact about the code, not a wish)
ListedClientsUseNoRangeAddress == \A c \in DOMAIN Static : bound[c] = 0
View == <<bound, told, phase, mind, msgs>>
=============================================================================
