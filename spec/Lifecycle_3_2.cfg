SPECIFICATION Spec
CONSTANTS
  NL = 3
  FailAt = 2
INVARIANTS CleanupOnError AllServing CollectsAll NoListenersNoReturn
PROPERTIES WaitReturns
CHECK_DEADLOCK FALSE
