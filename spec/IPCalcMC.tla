------------------------------ MODULE IPCalcMC ------------------------------
(***************************************************************************)
(* Leg A for C20: every case of a small world (W = LB*NL bits) is one TLC  *)
(* state; the invariants say that the limb reference and the transcribed   *)
(* Go algorithm both equal the mathematical statement of the property.     *)
(***************************************************************************)
EXTENDS IPCalc

VARIABLES op, x, b, p, n
vars == <<op, x, b, p, n>>

AlignedN(a, pp) == a % (2 ^ (W - pp)) = 0

Init == /\ p \in 0..W
        /\ b \in {a \in 0..(2^W - 1) : AlignedN(a, p)}
        /\ op \in {"offset", "add"}
        /\ x = -1 /\ n = -1
\* second level, so that TLC's workers share the enumeration
Next == /\ x = -1 /\ n = -1
        /\ \/ op = "offset" /\ x' \in b..(2^W - 1) /\ n' = 0
           \/ op = "add"    /\ n' \in 0..(2^H - 1) /\ x' = 0
        /\ UNCHANGED <<op, b, p>>
Spec == Init /\ [][Next]_vars
Chosen == x # -1 /\ n # -1

VecRes(r, len) == [ov |-> r.ov, v |-> IF r.ov THEN 0 ELSE ToNat(r.v)]

\* the limb reference is the mathematical definition
RefIsMath == Chosen =>
  /\ op = "offset" =>
       /\ VecRes(RefOffset(FromNat(x, NL), FromNat(b, NL), p), NH) = MathOffset(x, b, p)
       /\ VecRes(RefOffset(FromNat(b, NL), FromNat(x, NL), p), NH) = MathOffset(x, b, p)
  /\ op = "add" =>
       VecRes(RefAdd(FromNat(b, NL), FromNat(n, NH), p), NL) = MathAdd(b, n, p)

\* the algorithm of ipcalc.go computes the mathematical definition (C20)
AlgIsMath == Chosen =>
  /\ op = "offset" => /\ AlgOffset(x, b, p) = MathOffset(x, b, p)
                      /\ AlgOffset(b, x, p) = MathOffset(x, b, p)
  /\ op = "add"    => AlgAdd(b, n, p) = MathAdd(b, n, p)

\* Offset(AddPrefixes(base, n, p), base, p) = n
Inverse == (Chosen /\ op = "add") => LET r == MathAdd(b, n, p)
                IN  ~r.ov => /\ MathOffset(r.v, b, p) = [ov |-> FALSE, v |-> n]
                             /\ AlgOffset(AlgAdd(b, n, p).v, b, p) = [ov |-> FALSE, v |-> n]

\* used to show that the unguarded shift is a design error (expected to FAIL)
AlgUnguardedIsMath == Chosen /\ op = "add" => AlgAddG(b, n, p, FALSE) = MathAdd(b, n, p)
=============================================================================
