------------------------------- MODULE Server -------------------------------
(***************************************************************************)
(* The running server: every datagram is handled by its own goroutine      *)
(* (server/handle.go Serve -> go HandleMsg4/6); the goroutines share the    *)
(* receive-buffer pool and the state of the lease plugins, which they       *)
(* guard with mutexes.  Steps are the code's critical sections:             *)
(*   recv      Serve took a buffer from the pool and filled it              *)
(*   parse     FromBytes + bufpool.Put (the buffer may be refilled at once) *)
(*   DHCPv4 chain  <<file, range>>:                                         *)
(*     file    lookup under the read lock of the static table               *)
(*     range   ONE critical section (plugin mutex, defer unlock): map       *)
(*             lookup, allocator (own mutex, nested), table row, map store  *)
(*   DHCPv6 chain  <<prefix>>: one critical section PER IA_PD               *)
(*             (PerMessage = FALSE, as first found) or per message          *)
(*             (PerMessage = TRUE); the allocator mutex nests inside        *)
(*   send / drop, done                                                      *)
(* The file watcher is one more process: reload = parse outside the lock,   *)
(* swap under the write lock.                                               *)
(* Properties C01 (terminates, at most one reply, no lock left held) and    *)
(* C16 (buffer safety, lock discipline, lease invariants under every        *)
(* interleaving, replies equal to those of some serial order).              *)
(***************************************************************************)
EXTENDS Integers, FiniteSets, Sequences, TLC

CONSTANTS D4,           \* DHCPv4 datagrams: a function  id -> client (hardware address)
          D6,           \* DHCPv6 datagrams: a function  id -> [c : client, ias : sequence of IA_PD kinds]:
                        \*   "any" a hint-less IA_PD (gets what the client holds, else a new block)
                        \*   "new" an IA_PD whose hint cannot be served from held leases (always a new block)
          N4, N6,       \* addresses in the range / blocks in the prefix pool
          PerMessage,   \* prefix plugin locks once per message (TRUE) or once per IA_PD (FALSE)
          PanicInCS,    \* a handler may panic inside the prefix critical section (the nil-prefix defect)
          DeferUnlock,  \* ... and whether the mutex is released on the way out of a panic
          Reloads       \* how many file reloads the watcher performs

G4 == DOMAIN D4
G6 == DOMAIN D6
G  == G4 \cup G6
None == "none"
ONone == [k |-> "none", v |-> << >>]
ODrop == [k |-> "drop", v |-> << >>]
OReply(v) == [k |-> "reply", v |-> v]

VARIABLES pc,      \* per datagram: the step its goroutine is at
          ia,      \* per DHCPv6 datagram: index of the IA_PD being handled
          buf,     \* per datagram: who owns its receive buffer: "serve" | "handler" | "pool"
          mu,      \* mutex -> owner (None or a datagram); mutexes: range, prefix, alloc4, alloc6
          rd, wr,  \* static table RWMutex: set of readers, writer flag
          mem,     \* range plugin: client -> address
          used4,   \* IPv4 allocator: set of addresses marked
          recs,    \* prefix plugin: client -> set of blocks
          used6,   \* IPv6 allocator: set of blocks marked
          table,   \* static table version being served
          wpc, wleft, \* the watcher
          out,     \* per datagram: [k : "none"|"drop"|"reply", v : <<address>> or the sequence of per-IA_PD block sets]
          sends    \* per datagram: number of replies sent
vars == <<pc, ia, buf, mu, rd, wr, mem, used4, recs, used6, table, wpc, wleft, out, sends>>

Mutexes == {"range", "prefix", "alloc4", "alloc6"}

Init == /\ pc = [g \in G |-> "recv"] /\ ia = [g \in G6 |-> 1]
        /\ buf = [g \in G |-> "serve"]
        /\ mu = [m \in Mutexes |-> None] /\ rd = {} /\ wr = FALSE
        /\ mem = << >> /\ used4 = {} /\ recs = [c \in {D6[g].c : g \in G6} |-> {}] /\ used6 = {}
        /\ table = 0 /\ wpc = "idle" /\ wleft = Reloads
        /\ out = [g \in G |-> ONone] /\ sends = [g \in G |-> 0]

Go(g, to) == pc' = [pc EXCEPT ![g] = to]
Lock(m, g) == mu[m] = None /\ mu' = [mu EXCEPT ![m] = g]
Unlock(m, g) == mu[m] = g /\ mu' = [mu EXCEPT ![m] = None]
Ext(f, k, v) == [x \in DOMAIN f \cup {k} |-> IF x = k THEN v ELSE f[x]]

\* ---- common prologue ------------------------------------------------------------
Recv(g) == /\ pc[g] = "recv" /\ buf' = [buf EXCEPT ![g] = "handler"]
           /\ Go(g, "parse") /\ UNCHANGED <<ia, mu, rd, wr, mem, used4, recs, used6, table, wpc, wleft, out, sends>>
Parse(g) == /\ pc[g] = "parse" /\ buf' = [buf EXCEPT ![g] = "pool"]     \* parsed copy made, buffer back to the pool
            /\ Go(g, IF g \in G4 THEN "file" ELSE "pfx_lock")
            /\ UNCHANGED <<ia, mu, rd, wr, mem, used4, recs, used6, table, wpc, wleft, out, sends>>

\* ---- DHCPv4: file (a miss: the clients here are not listed), then range ----------
FileR(g) == /\ pc[g] = "file" /\ ~wr /\ rd' = rd \cup {g} /\ Go(g, "file_look")
            /\ UNCHANGED <<ia, buf, mu, wr, mem, used4, recs, used6, table, wpc, wleft, out, sends>>
FileLook(g) == /\ pc[g] = "file_look" /\ rd' = rd \ {g} /\ Go(g, "rng_lock")      \* deferred RUnlock on return
               /\ UNCHANGED <<ia, buf, mu, wr, mem, used4, recs, used6, table, wpc, wleft, out, sends>>
RngLock(g) == /\ pc[g] = "rng_lock" /\ Lock("range", g) /\ Go(g, "rng_look")
              /\ UNCHANGED <<ia, buf, rd, wr, mem, used4, recs, used6, table, wpc, wleft, out, sends>>
RngLook(g) == /\ pc[g] = "rng_look" /\ mu["range"] = g
              /\ IF D4[g] \in DOMAIN mem THEN out' = [out EXCEPT ![g] = OReply(<< mem[D4[g]] >>)] /\ Go(g, "rng_unlock")
                                         ELSE out' = out /\ Go(g, "al4_lock")
              /\ UNCHANGED <<ia, buf, mu, rd, wr, mem, used4, recs, used6, table, wpc, wleft, sends>>
Al4Lock(g) == /\ pc[g] = "al4_lock" /\ Lock("alloc4", g) /\ Go(g, "al4_set")
              /\ UNCHANGED <<ia, buf, rd, wr, mem, used4, recs, used6, table, wpc, wleft, out, sends>>
Al4Set(g) == /\ pc[g] = "al4_set" /\ mu["alloc4"] = g
             /\ IF used4 = 1..N4
                THEN /\ out' = [out EXCEPT ![g] = ODrop] /\ UNCHANGED used4
                ELSE \E a \in (1..N4) \ used4 : used4' = used4 \cup {a} /\ out' = [out EXCEPT ![g] = OReply(<< a >>)]
             /\ Go(g, "al4_unlock")
             /\ UNCHANGED <<ia, buf, mu, rd, wr, mem, recs, used6, table, wpc, wleft, sends>>
Al4Unlock(g) == /\ pc[g] = "al4_unlock" /\ Unlock("alloc4", g)
                /\ Go(g, IF out[g].k = "drop" THEN "rng_unlock" ELSE "rng_store")
                /\ UNCHANGED <<ia, buf, rd, wr, mem, used4, recs, used6, table, wpc, wleft, out, sends>>
RngStore(g) == /\ pc[g] = "rng_store" /\ mu["range"] = g
               /\ mem' = Ext(mem, D4[g], out[g].v[1]) /\ Go(g, "rng_unlock")
               /\ UNCHANGED <<ia, buf, mu, rd, wr, used4, recs, used6, table, wpc, wleft, out, sends>>
RngUnlock(g) == /\ pc[g] = "rng_unlock" /\ Unlock("range", g) /\ Go(g, "send")
                /\ UNCHANGED <<ia, buf, rd, wr, mem, used4, recs, used6, table, wpc, wleft, out, sends>>

\* ---- DHCPv6: prefix, one hint-less IA_PD after the other --------------------------
Known(g) == recs[D6[g].c]
PfxLock(g) == /\ pc[g] = "pfx_lock"
              /\ IF PerMessage /\ ia[g] > 1 THEN UNCHANGED mu ELSE Lock("prefix", g)
              /\ Go(g, "pfx_ia")
              /\ UNCHANGED <<ia, buf, rd, wr, mem, used4, recs, used6, table, wpc, wleft, out, sends>>
\* the three passes for a hint-less IA_PD: held leases if any, else a new block if one is free
PfxIA(g) == /\ pc[g] = "pfx_ia" /\ mu["prefix"] = g
            /\ LET c == D6[g].c
                   prev == out[g].v
               IN IF Known(g) # {} /\ D6[g].ias[ia[g]] = "any"
                  THEN /\ out' = [out EXCEPT ![g] = OReply(Append(prev, Known(g)))] /\ UNCHANGED <<recs, used6>>
                  ELSE IF used6 = 1..N6
                       THEN /\ out' = [out EXCEPT ![g] = OReply(Append(prev, {}))] /\ UNCHANGED <<recs, used6>>    \* NoPrefixAvail
                       ELSE \E b \in (1..N6) \ used6 :
                              /\ used6' = used6 \cup {b} /\ recs' = [recs EXCEPT ![c] = @ \cup {b}]
                              /\ out' = [out EXCEPT ![g] = OReply(Append(prev, {b}))]
            /\ Go(g, "pfx_unlock")
            /\ UNCHANGED <<ia, buf, mu, rd, wr, mem, used4, table, wpc, wleft, sends>>
\* the panic of the nil-prefix defect: inside the critical section
PfxPanic(g) == /\ PanicInCS /\ pc[g] = "pfx_ia" /\ mu["prefix"] = g
               /\ IF DeferUnlock THEN mu' = [mu EXCEPT !["prefix"] = None] ELSE UNCHANGED mu
               /\ Go(g, "dead")
               /\ UNCHANGED <<ia, buf, rd, wr, mem, used4, recs, used6, table, wpc, wleft, out, sends>>
PfxUnlock(g) == /\ pc[g] = "pfx_unlock"
                /\ LET last == ia[g] = Len(D6[g].ias) IN
                   /\ IF PerMessage /\ ~last THEN UNCHANGED mu ELSE Unlock("prefix", g)
                   /\ IF last THEN Go(g, "send") /\ UNCHANGED ia
                              ELSE Go(g, "pfx_lock") /\ ia' = [ia EXCEPT ![g] = @ + 1]
                /\ UNCHANGED <<buf, rd, wr, mem, used4, recs, used6, table, wpc, wleft, out, sends>>

\* ---- epilogue --------------------------------------------------------------------
Send(g) == /\ pc[g] = "send"
           /\ sends' = [sends EXCEPT ![g] = IF out[g].k = "drop" THEN @ ELSE @ + 1]
           /\ Go(g, "done")
           /\ UNCHANGED <<ia, buf, mu, rd, wr, mem, used4, recs, used6, table, wpc, wleft, out>>

\* ---- the file watcher -------------------------------------------------------------
WBegin == /\ wpc = "idle" /\ wleft > 0 /\ wpc' = "parsed" /\ wleft' = wleft - 1
          /\ UNCHANGED <<pc, ia, buf, mu, rd, wr, mem, used4, recs, used6, table, out, sends>>
WLock == /\ wpc = "parsed" /\ rd = {} /\ ~wr /\ wr' = TRUE /\ wpc' = "swap"
         /\ UNCHANGED <<pc, ia, buf, mu, rd, mem, used4, recs, used6, table, wleft, out, sends>>
WSwap == /\ wpc = "swap" /\ wr /\ table' = table + 1 /\ wr' = FALSE /\ wpc' = "idle"
         /\ UNCHANGED <<pc, ia, buf, mu, rd, mem, used4, recs, used6, wleft, out, sends>>

Step(g) == \/ Recv(g) \/ Parse(g) \/ Send(g)
           \/ (g \in G4 /\ (FileR(g) \/ FileLook(g) \/ RngLock(g) \/ RngLook(g) \/ Al4Lock(g) \/ Al4Set(g) \/ Al4Unlock(g) \/ RngStore(g) \/ RngUnlock(g)))
           \/ (g \in G6 /\ (PfxLock(g) \/ PfxIA(g) \/ PfxPanic(g) \/ PfxUnlock(g)))
Next == (\E g \in G : Step(g)) \/ WBegin \/ WLock \/ WSwap
Spec == Init /\ [][Next]_vars /\ (\A g \in G : WF_vars(Step(g))) /\ WF_vars(WLock \/ WSwap)

----------------------------------------------------------------------------
Finished(g) == pc[g] \in {"done", "dead"}
Quiet == \A g \in G : Finished(g)

\* C01
AtMostOneReply == \A g \in G : sends[g] <= 1
LocksFreeAtRest == Quiet => (\A m \in Mutexes : mu[m] = None) /\ rd = {} /\ (wpc = "idle" => ~wr)
Terminates == \A g \in G : <>Finished(g)                       \* never blocks forever
NoWedge == \A g \in G : [](ENABLED Step(g) \/ Finished(g) \/ \E h \in G : h # g /\ ~Finished(h))   \* someone can always move

\* C16
BufferSafe == \A g \in G : buf[g] = "pool" => pc[g] \notin {"recv", "parse"}      \* never refillable before it is parsed
LockDiscipline ==
  /\ \A g \in G4 : pc[g] \in {"rng_look", "al4_lock", "al4_set", "al4_unlock", "rng_store", "rng_unlock"} => mu["range"] = g
  /\ \A g \in G4 : pc[g] \in {"al4_set", "al4_unlock"} => mu["alloc4"] = g
  /\ \A g \in G6 : pc[g] \in {"pfx_ia", "pfx_unlock"} => mu["prefix"] = g
  /\ wr => rd = {}
\* the lease invariants under every interleaving (C02, C08)
RangeUnique == \A a, b \in DOMAIN mem : mem[a] = mem[b] => a = b
RangeInRange == \A a \in DOMAIN mem : mem[a] \in 1..N4
PrefixDisjoint == \A c, d \in DOMAIN recs : c # d => recs[c] \cap recs[d] = {}
\* the replies of a quiescent run are those of some one-at-a-time order
Perms(S) == {f \in [1..Cardinality(S) -> S] : \A i, j \in 1..Cardinality(S) : i # j => f[i] # f[j]}
\* DHCPv6, clients that hold nothing yet: a serial run hands message after message its blocks while they last
RECURSIVE SerialIAs(_, _, _, _)
SerialIAs(kinds, k, free, holds) ==        \* per-IA_PD "got a prefix" flags of one message handled alone
  IF k > Len(kinds) THEN [flags |-> << >>, free |-> free]
  ELSE IF kinds[k] = "any" /\ holds
       THEN LET r == SerialIAs(kinds, k + 1, free, holds) IN [flags |-> << TRUE >> \o r.flags, free |-> r.free]
       ELSE IF free > 0
            THEN LET r == SerialIAs(kinds, k + 1, free - 1, TRUE) IN [flags |-> << TRUE >> \o r.flags, free |-> r.free]
            ELSE LET r == SerialIAs(kinds, k + 1, 0, holds) IN [flags |-> << FALSE >> \o r.flags, free |-> r.free]
RECURSIVE SerialRun(_, _, _)
SerialRun(order, i, free) ==
  IF i > Len(order) THEN << >>
  ELSE LET r == SerialIAs(D6[order[i]].ias, 1, free, FALSE) IN
       << [g |-> order[i], flags |-> r.flags] >> \o SerialRun(order, i + 1, r.free)
ObservedFlags(g) == [k \in 1..Len(out[g].v) |-> out[g].v[k] # {}]
SameClientTwice == \E g, h \in G6 : g # h /\ D6[g].c = D6[h].c
SerialEquivalent6 ==
  (Quiet /\ ~SameClientTwice /\ \A g \in G6 : pc[g] = "done") =>
     \E order \in Perms(G6) :
        LET s == SerialRun(order, 1, N6) IN
          \A i \in 1..Len(s) : ObservedFlags(s[i].g) = s[i].flags
\* DHCPv4: a client is served iff an address was left for it in some order; all requests of one client agree
SerialEquivalent4 ==
  (Quiet /\ \A g \in G4 : pc[g] = "done") =>
     /\ \A g, h \in G4 : (D4[g] = D4[h] /\ out[g].k # "drop" /\ out[h].k # "drop") => out[g] = out[h]
     /\ Cardinality({D4[g] : g \in {x \in G4 : out[x].k # "drop"}}) = IF Cardinality({D4[g] : g \in G4}) < N4 THEN Cardinality({D4[g] : g \in G4}) ELSE N4
=============================================================================
