------------------------------ MODULE ConvGen ------------------------------
(***************************************************************************)
(* Behaviour generator for the model -> code direction of Conv: clients     *)
(* that follow RFC 2131's state machine (INIT: DISCOVER or an INIT-REBOOT    *)
(* REQUEST; SELECTING: REQUEST naming the server that offered - or another   *)
(* one -, DECLINE, or DISCOVER again; BOUND: renewing REQUEST, RELEASE,      *)
(* INFORM, DISCOVER), with a history variable recording the messages.        *)
(* `tlc -simulate` prints every behaviour that reaches Depth messages; the   *)
(* harness plays it to the real chain (`harness conv -in`), ConvTrace        *)
(* validates the recording.                                                  *)
(***************************************************************************)
EXTENDS ConvMC, Json

CONSTANT Depth
VARIABLE hist
gvars == <<bound, told, phase, mind, msgs, last, hist>>

Allowed(c, mt, sid) ==
  CASE phase[c] = "init"      -> (mt = "discover" /\ sid = "none") \/ (mt = "request" /\ sid \in {"none", "other"})
    [] phase[c] = "selecting" -> (mt = "request" /\ sid \in {"own", "other"}) \/ (mt = "discover" /\ sid = "none")
                                 \/ (mt = "decline" /\ sid = "none")
    [] phase[c] = "bound"     -> (mt = "request" /\ sid = "none") \/ (mt \in {"release", "inform", "discover"} /\ sid = "none")
    [] OTHER -> FALSE

GInit == Init /\ hist = << >>
GNext == \E c \in Clients, mt \in {"discover", "request", "decline", "release", "inform"}, sid \in {"none", "own", "other"} :
           /\ Len(hist) < Depth
           /\ Allowed(c, mt, sid)
           /\ Msg(c, mt, sid)
           /\ hist' = Append(hist, [c |-> c, mt |-> mt, sid |-> sid])
GSpec == GInit /\ [][GNext]_gvars

Export == (Len(hist) = Depth) => PrintT(<<"SCN", ToJson(hist)>>)
=============================================================================
