SPECIFICATION Spec
CONSTANTS
  D4 <- NoD
  D6 <- V6_D6
  N4 = 1
  N6 = 2
  PerMessage = TRUE
  PanicInCS = TRUE
  DeferUnlock = TRUE
  Reloads = 0
INVARIANTS AtMostOneReply LocksFreeAtRest PrefixDisjoint
PROPERTIES Terminates
CHECK_DEADLOCK FALSE
