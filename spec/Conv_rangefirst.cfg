SPECIFICATION Spec
CONSTANTS
  Clients <- Cl
  N = 2
  MaxMsgs = 5
  Chain <- ChainRangeFirst
  Static <- StaticOutside
INVARIANTS OneAddressPerClient NoSharedAddress StaticWins RepliesCarryAddress StaticClientsSkipLaterPlugins DynamicClientsGetEverything OtherServerNeverAnswered
PROPERTIES OfferThenAckSameAddress
CHECK_DEADLOCK FALSE
