SPECIFICATION Spec
CONSTANTS
  D4 <- NoD
  D6 <- V6_D6
  N4 = 1
  N6 = 2
  PerMessage = FALSE
  PanicInCS = FALSE
  DeferUnlock = FALSE
  Reloads = 0
INVARIANTS SerialEquivalent6

CHECK_DEADLOCK FALSE
