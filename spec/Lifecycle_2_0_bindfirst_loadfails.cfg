SPECIFICATION Spec
CONSTANTS
  NL = 2
  FailAt = 0
  MaxRx = 2
  LoadOK = FALSE
  BindFirst = TRUE
  EmptyQuits = FALSE
INVARIANTS FailedLoadNeverListened
CHECK_DEADLOCK FALSE
