SPECIFICATION Spec
CONSTANTS
  Clients <- Cl
  N = 2
  MaxMsgs = 5
  Chain <- ChainNoLease
  Static <- StaticOutside
INVARIANTS OneAddressPerClient NoSharedAddress StaticWins StaticClientsSkipLaterPlugins DynamicClientsGetEverything OtherServerNeverAnswered
PROPERTIES OfferThenAckSameAddress
CHECK_DEADLOCK FALSE
