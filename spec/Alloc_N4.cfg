SPECIFICATION Spec
CONSTANTS
  N = 4
  Below = 2
  Above = 2
INVARIANTS TypeOK Disjoint HoldersAreOut
PROPERTIES CapacityExact FailureChangesNothing FreeExact HintHonoured
