SPECIFICATION Spec
CONSTANTS
  NL = 2
  FailAt = 0
  MaxRx = 2
  EmptyQuits = TRUE
INVARIANTS ServesWhileOpen CleanupOnError AllServing CollectsAll NoListenersNoReturn
PROPERTIES WaitReturns
CHECK_DEADLOCK FALSE
