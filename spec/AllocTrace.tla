----------------------------- MODULE AllocTrace -----------------------------
(***************************************************************************)
(* Leg C for C04 C05 C06 C07: validates recordings of the real             *)
(* bitmap.IPv4Allocator / bitmap.Allocator against the Alloc model.        *)
(* The monitor state is `out` (outstanding blocks, as block indices        *)
(* computed by the harness from the returned net.IPNet).  It is updated    *)
(* the same way under every lens; the guards are tagged with the property  *)
(* whose sentence they transcribe.                                         *)
(*                                                                         *)
(* sequential events (API level, one per call):                            *)
(*   reset {kind, N, page}                        a fresh allocator        *)
(*   alloc {hint{k,b,len,bits}, res{ok,b,len,bits,aligned,inpool,err}}     *)
(*   free  {arg{k,b,sub,side,d}, ok, err}                                  *)
(* concurrent events (observation points inside the critical sections, in  *)
(* the order the points were passed):                                      *)
(*   set {g, b, held}   clear {g, b, held}   ret {g, op, ok, b}            *)
(***************************************************************************)
EXTENDS Integers, FiniteSets, Sequences, TLC, Json

CONSTANTS Lens

Trace == ndJsonDeserialize("trace.ndjson")

VARIABLES l, kind, N, page, out, pend
tvars == <<l, kind, N, page, out, pend>>

Blocks == 0 .. (N - 1)
IsEvent(e) == l <= Len(Trace) /\ Trace[l].ev = e /\ l' = l + 1

TraceReset ==
  /\ IsEvent("reset")
  /\ kind' = Trace[l].kind /\ N' = Trace[l].N /\ page' = Trace[l].page
  /\ out' = {} /\ pend' = << >>

WantLen(h) == IF kind = "v4" THEN 32
              ELSE IF h.bits = 128 /\ h.len > page THEN h.len ELSE page
WantBits == IF kind = "v4" THEN 32 ELSE 128
NamesFree(h) == h.k = "blk" /\ h.b \notin out
Full == Cardinality(out) = N                        \* (out is a subset of Blocks; pools of a million blocks are not enumerated)

TraceAlloc ==
  /\ IsEvent("alloc")
  /\ LET e == Trace[l]  h == e.hint  r == e.res IN
     /\ ("C04" \in Lens) => (r.ok /\ r.inpool => r.b \notin out)
     /\ ("C05" \in Lens) =>
          /\ r.ok <=> ~Full
          /\ ~r.ok => r.err = "noaddr"
          /\ r.ok  => r.inpool /\ r.aligned /\ r.len = WantLen(h) /\ r.bits = WantBits
     /\ ("C06" \in Lens) =>
          /\ r.ok /\ r.inpool => r.b \notin out      \* nobody's block is handed out again
          /\ ~r.ok => Full                           \* what Free released is available again
     /\ ("C07" \in Lens) => (NamesFree(h) => r.ok /\ r.inpool /\ r.b = h.b)
     /\ out' = IF r.ok /\ r.inpool THEN out \cup {r.b} ELSE out
  /\ UNCHANGED <<kind, N, page, pend>>

TraceFree ==
  /\ IsEvent("free")
  /\ LET e == Trace[l]  a == e.arg IN
     /\ ("C06" \in Lens) =>
          /\ e.ok <=> (a.k = "blk" /\ a.b \in out)
          /\ ~e.ok => e.err # "none"
     /\ out' = IF e.ok /\ a.k = "blk" THEN out \ {a.b} ELSE out
  /\ UNCHANGED <<kind, N, page, pend>>

(* concurrent recordings: the observation points sit between the test and  *)
(* the set/clear of the bit, inside the critical section                   *)
ConcLens == Lens \cap {"C04", "C16"} # {}
TraceSet ==
  /\ IsEvent("set")
  /\ LET e == Trace[l] IN
     /\ ConcLens => (e.b \notin out /\ e.b \in Blocks)
     /\ ("DISC" \in Lens) => e.held                  \* lock discipline of the present design (drift detector only)
     /\ out' = out \cup {e.b}
     /\ pend' = [g \in DOMAIN pend \cup {e.g} |-> IF g = e.g THEN e.b ELSE pend[g]]
  /\ UNCHANGED <<kind, N, page>>
TraceClear ==
  /\ IsEvent("clear")
  /\ LET e == Trace[l] IN
     /\ ConcLens => e.b \in out
     /\ ("DISC" \in Lens) => e.held
     /\ out' = out \ {e.b}
  /\ UNCHANGED <<kind, N, page, pend>>
TraceRet ==
  /\ IsEvent("ret")
  /\ LET e == Trace[l] IN
     /\ ConcLens /\ e.op = "alloc" /\ e.ok => (e.g \in DOMAIN pend /\ pend[e.g] = e.b)
  /\ UNCHANGED <<kind, N, page, out, pend>>

TraceInit == l = 1 /\ kind = "v4" /\ N = 0 /\ page = 0 /\ out = {} /\ pend = << >>
\* pools of 2^64 blocks and more: refused by the constructor, or else an allocator that has blocks to give (C05: Allocate fails
\* iff all N blocks are outstanding - none is)
TraceHuge == /\ IsEvent("huge")
             /\ ("C05" \in Lens) => (Trace[l].ctor = "err" \/ (Trace[l].ctor = "ok" /\ Trace[l].alloc = "ok"))
             /\ UNCHANGED <<kind, N, page, out, pend>>
TraceNote == IsEvent("note") /\ UNCHANGED <<kind, N, page, out, pend>>
TraceNext == TraceReset \/ TraceAlloc \/ TraceFree \/ TraceSet \/ TraceClear \/ TraceRet \/ TraceHuge \/ TraceNote
TraceSpec == TraceInit /\ [][TraceNext]_tvars

\* harness-side sanity (a violation is a harness error, not a verdict)
PreOK == l <= Len(Trace) =>
  LET e == Trace[l] IN
    /\ e.ev = "alloc" => (e.hint.k = "blk" => e.hint.b \in Blocks)
    /\ e.ev = "free"  => (e.arg.k = "blk" => e.arg.b \in Blocks)
    /\ e.ev = "reset" => e.N >= 1

TraceAccepted ==
  LET d == TLCGet("stats").diameter
  IN  IF d - 1 = Len(Trace) THEN TRUE
      ELSE Print(<<"REJECT_AT", d, Len(Trace)>>, FALSE)
=============================================================================
