----------------------------- MODULE RangeTrace -----------------------------
(***************************************************************************)
(* Leg C for C02 / C03 (and the range part of C16): validates recordings   *)
(* of the real range plugin (handler obtained through Plugin.Setup4, a     *)
(* sqlite file per scenario) against the RangeLease model.                 *)
(* Monitor: bound (client -> address index, the model's mem/first),        *)
(* promise (client -> end of the lease most recently promised, lower       *)
(* bound t0 + lease), up (an instance is serving).                         *)
(*                                                                         *)
(*  reset {N, lease}            fresh database, fresh scenario             *)
(*  setup {restart, res}        Plugin.Setup4 on the scenario's database   *)
(*  req   {mac, res, idx, lease, stop, t0, t1}    one handled request      *)
(*  probe {res, bind, rows, fresh, freshdone}     crash point: Setup4 on a *)
(*        copy of the database + one DISCOVER per client seen so far +     *)
(*        fresh clients until refusal + the rows of leases4                *)
(*  tick                        2.1 s of real time passed                  *)
(*  fault {on}                  the environment holds / releases a write    *)
(*        transaction on the lease database: while it is held the plugin's  *)
(*        own writes fail (a transient storage fault).  C03 is stated for   *)
(*        request histories; a binding first handed out while the store     *)
(*        could not be written (nobind) or a lease promised then (noexp)    *)
(*        is exempt - everything before and AFTER the fault is not          *)
(*  creq {mac, known, res, idx, held}  linearized request (observation     *)
(*        point inside the plugin's critical section, concurrent runs)     *)
(*  cret {mac, res, idx, lease} what a concurrent caller got back          *)
(***************************************************************************)
EXTENDS Integers, FiniteSets, Sequences, TLC, Json

CONSTANTS Lens

Trace == ndJsonDeserialize("trace.ndjson")

VARIABLES l, N, lease, bound, promise, up, faulty, nobind, noexp
tvars == <<l, N, lease, bound, promise, up, faulty, nobind, noexp>>

IsEvent(e) == l <= Len(Trace) /\ Trace[l].ev = e /\ l' = l + 1
Ext(f, m, v) == [x \in DOMAIN f \cup {m} |-> IF x = m THEN v ELSE f[x]]
Ran(f) == {f[x] : x \in DOMAIN f}
Full == Cardinality(Ran(bound)) = N
C02on == Lens \cap {"C02", "C16"} # {}

TraceReset ==
  /\ IsEvent("reset")
  /\ N' = Trace[l].N /\ lease' = Trace[l].lease
  /\ bound' = << >> /\ promise' = << >> /\ up' = FALSE
  /\ faulty' = FALSE /\ nobind' = {} /\ noexp' = {}

TraceSetup ==
  /\ IsEvent("setup")
  /\ LET e == Trace[l] IN
     /\ ("C03" \in Lens) => e.res = "ok"          \* restart on its own database succeeds
     /\ ~e.restart => e.res = "ok"                \* first setup on an empty database (any lens)
     /\ up' = (e.res = "ok")
     /\ lease' = IF "lease" \in DOMAIN e THEN e.lease ELSE lease    \* the lease time configured for this instance (it may change between restarts)
     \* a binding that was handed out while the store could not be written may or may not have reached the store
     \* later: a restart keeps some subset K of those (the crash points that follow tell which)
     /\ \E K \in (IF e.restart THEN SUBSET (nobind \cap DOMAIN bound) ELSE {{}}) :
          /\ bound' = IF e.restart THEN [m \in (DOMAIN bound \ nobind) \cup K |-> bound[m]] ELSE bound
          /\ nobind' = IF e.restart THEN {} ELSE nobind
  /\ UNCHANGED <<N, promise, faulty, noexp>>

\* the guard of C02 for one linearized request of client m answered with res / idx
ReqOK(m, res, idx) ==
  /\ res \in {"reply", "drop"}                                        \* nothing else ever happens
  /\ res = "reply" =>
       /\ idx \in 0 .. (N - 1)                                        \* inside the range
       /\ \A o \in DOMAIN bound : o # m => bound[o] # idx              \* one client per address
       /\ m \in DOMAIN bound => idx = bound[m]                        \* the address first given
  /\ res = "drop" => m \notin DOMAIN bound                            \* already-bound clients keep being served
  /\ (m \notin DOMAIN bound /\ Full) => res = "drop"                   \* every address bound: unknown clients get no reply

TraceReq ==
  /\ IsEvent("req") /\ up
  /\ LET e == Trace[l] IN
     /\ e.res # "hang"                              \* whatever the lens: a request that never comes back (C01; C02 "keep being served")
     /\ ("C01" \in Lens) => e.res # "panic"
     /\ C02on => /\ ReqOK(e.mac, e.res, e.idx)
                 /\ e.res = "reply" => e.lease = lease
     /\ bound' = IF e.res = "reply" /\ e.mac \notin DOMAIN bound THEN Ext(bound, e.mac, e.idx) ELSE bound
     /\ promise' = IF e.res = "reply" THEN Ext(promise, e.mac, e.t0 + e.lease) ELSE promise     \* what THIS reply promised
     /\ nobind' = IF e.res = "reply" /\ e.mac \notin DOMAIN bound
                  THEN (IF faulty THEN nobind \cup {e.mac} ELSE nobind \ {e.mac})     \* a fresh binding is durable iff the store was writable
                  ELSE nobind
     /\ noexp' = IF faulty /\ e.res = "reply" THEN noexp \cup {e.mac} ELSE noexp
  /\ UNCHANGED <<N, lease, up, faulty>>

TraceFault ==
  /\ IsEvent("fault")
  /\ faulty' = Trace[l].on
  /\ UNCHANGED <<N, lease, bound, promise, up, nobind, noexp>>


TraceTick == IsEvent("tick") /\ UNCHANGED <<N, lease, bound, promise, up, faulty, nobind, noexp>>

Pairs(seq) == {<<seq[i].m, seq[i].idx>> : i \in 1..Len(seq)}
BoundPairs == {<<m, bound[m]>> : m \in DOMAIN bound}
SafePairs == {<<m, bound[m]>> : m \in DOMAIN bound \ nobind}

TraceProbe ==
  /\ IsEvent("probe")
  /\ LET e == Trace[l] IN
     ("C03" \in Lens) =>
       /\ e.res = "ok"                                                \* restart succeeds at this crash point
       \* exactly the bindings handed out so far: every bound client gets its address back ...
       /\ \A i \in 1..Len(e.bind) :
            e.bind[i].m \in DOMAIN bound \ nobind => (e.bind[i].res = "reply" /\ e.bind[i].idx = bound[e.bind[i].m])
       /\ \A m \in DOMAIN bound : \E i \in 1..Len(e.bind) : e.bind[i].m = m
       \* ... the table holds one row per bound client and nothing else (none lost, changed, duplicated) ...
       /\ SafePairs \subseteq Pairs(e.rows) /\ Pairs(e.rows) \subseteq BoundPairs
       /\ Len(e.rows) = Cardinality(Pairs(e.rows))
       \* ... the restored allocator has exactly the remaining capacity, on other addresses ...
       /\ (e.freshdone /\ nobind = {}) =>
                         \* (a client that was seen but holds nothing - dropped when full, or its binding never reached the
                         \* store - takes one address of the remaining capacity when the probe asks for it again)
                         /\ Len(e.fresh) = N - Cardinality(Ran(bound))
                                             - Cardinality({i \in 1..Len(e.bind) : e.bind[i].m \notin DOMAIN bound /\ e.bind[i].res = "reply"})
                         /\ \A i \in 1..Len(e.fresh) : e.fresh[i] \notin Ran(bound)
                         /\ \A i, j \in 1..Len(e.fresh) : i # j => e.fresh[i] # e.fresh[j]
       \* ... and the stored expiry is not earlier than the promise (one second of resolution)
       /\ \A i \in 1..Len(e.rows) :
            (e.rows[i].m \in DOMAIN promise /\ e.rows[i].m \notin noexp) => e.rows[i].expiry >= promise[e.rows[i].m] - 1
  /\ UNCHANGED <<N, lease, bound, promise, up, faulty, nobind, noexp>>

TraceCReq ==
  /\ IsEvent("creq") /\ up
  /\ LET e == Trace[l] IN
     /\ C02on => ReqOK(e.mac, e.res, e.idx)
     \* lock discipline of the present design (drift detector only): inside the critical section, and the
     \* lookup saw the current map
     /\ ("DISC" \in Lens) => (e.held /\ (e.known <=> (e.mac \in DOMAIN bound)))
     /\ bound' = IF e.res = "reply" /\ e.mac \notin DOMAIN bound THEN Ext(bound, e.mac, e.idx) ELSE bound
  /\ UNCHANGED <<N, lease, promise, up, faulty, nobind, noexp>>

TraceCRet ==
  /\ IsEvent("cret")
  /\ LET e == Trace[l] IN
     C02on => /\ e.res \in {"reply", "drop"}
              /\ e.res = "reply" => (e.mac \in DOMAIN bound /\ bound[e.mac] = e.idx /\ e.lease = lease)
  /\ UNCHANGED <<N, lease, bound, promise, up, faulty, nobind, noexp>>

TraceInit == l = 1 /\ N = 0 /\ lease = 0 /\ bound = << >> /\ promise = << >> /\ up = FALSE /\ faulty = FALSE /\ nobind = {} /\ noexp = {}
TraceNext == TraceFault \/ TraceReset \/ TraceSetup \/ TraceReq \/ TraceTick \/ TraceProbe \/ TraceCReq \/ TraceCRet
TraceSpec == TraceInit /\ [][TraceNext]_tvars

TraceAccepted ==
  LET d == TLCGet("stats").diameter
  IN  IF d - 1 = Len(Trace) THEN TRUE
      ELSE Print(<<"REJECT_AT", d, Len(Trace)>>, FALSE)
=============================================================================
