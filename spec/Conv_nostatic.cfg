SPECIFICATION Spec
CONSTANTS
  Clients <- Cl
  N = 2
  MaxMsgs = 5
  Chain <- ChainTypical
  Static <- StaticNone
INVARIANTS OneAddressPerClient NoSharedAddress StaticWins RepliesCarryAddress StaticClientsSkipLaterPlugins DynamicClientsGetEverything OtherServerNeverAnswered
PROPERTIES OfferThenAckSameAddress
CHECK_DEADLOCK FALSE
