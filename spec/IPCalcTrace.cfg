SPECIFICATION TraceSpec
CONSTANTS
  LB = 16
  NL = 8
  Lens = {"C20"}
INVARIANT PreOK
POSTCONDITION TraceAccepted
CHECK_DEADLOCK FALSE
