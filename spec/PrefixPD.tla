------------------------------ MODULE PrefixPD ------------------------------
(***************************************************************************)
(* The DHCPv6 prefix-delegation plugin (plugins/prefix/plugin.go):         *)
(*   recs[c]  the leases recorded for client c (a sequence, as in the      *)
(*            code's Records map), each lease a block and "long" (its      *)
(*            prefix is longer than the allocation length)                 *)
(*   out      blocks taken in the bitmap allocator (policy free, Alloc)    *)
(*   told[c]  history: every prefix a reply told c that it holds           *)
(* One message carries 0..k IA_PDs, each with 0..m hints.  Per IA_PD the   *)
(* code runs three passes: (1) hints that exactly match an own lease,      *)
(* (2) empty / length-only hints take the remaining own leases, (3) the    *)
(* remaining hints get new blocks.  Properties C08 and C09.                *)
(*                                                                         *)
(* Hint kinds (resolved against the state when the message is built):      *)
(*   nil            prefix-length 0 on the wire, or no IAPrefix at all     *)
(*   zero(long)     ::/l - a length-only hint                              *)
(*   own(p)         exactly a prefix told to this client                   *)
(*   other(p)       exactly a prefix told to another client                *)
(*   free(b, long)  an address in the free block b                         *)
(*   outside        an address outside the pool                            *)
(***************************************************************************)
EXTENDS Integers, FiniteSets, Sequences, TLC

CONSTANTS Clients, N, MaxMsgs, MaxIAs, MaxHints

Blocks == 0 .. (N - 1)
Lease  == [b : Blocks, long : BOOLEAN]

VARIABLES recs, out, told, msgs, last
vars == <<recs, out, told, msgs, last>>

Init == /\ recs = [c \in Clients |-> << >>]
        /\ out = {}
        /\ told = [c \in Clients |-> {}]
        /\ msgs = 0
        /\ last = [c |-> "none", ias |-> << >>, ans |-> << >>]

SeqSet(s) == {s[i] : i \in 1..Len(s)}
IsEmptyHint(h) == h.k \in {"nil", "zero"}
LenMatch(h, p) == h.k = "nil" \/ (h.k = "zero" /\ h.long = p.long)
HintLong(h) == CASE h.k = "zero"  -> h.long
                 [] h.k = "free"  -> h.long
                 [] h.k = "other" -> h.p.long
                 [] h.k = "own"   -> h.p.long
                 [] OTHER         -> FALSE

\* hints a client c can send in the current state
HintsFor(c) ==
  [k : {"nil"}] \cup [k : {"outside"}] \cup [k : {"zero"}, long : BOOLEAN]
  \cup [k : {"own"}, p : told[c]]
  \cup [k : {"other"}, p : UNION {told[o] : o \in Clients \ {c}}]
  \cup [k : {"free"}, b : Blocks \ out, long : BOOLEAN]

(* pass 2: in hint order, an unsatisfied empty hint takes every remaining  *)
(* own lease of a matching length.  st = [sat, given]                      *)
RECURSIVE Pass2(_, _, _, _)
Pass2(H, known, i, st) ==
  IF i > Len(H) THEN st
  ELSE IF i \in st.sat \/ ~IsEmptyHint(H[i]) THEN Pass2(H, known, i + 1, st)
  ELSE LET G == {j \in 1..Len(known) : j \notin st.given /\ LenMatch(H[i], known[j])}
       IN  Pass2(H, known, i + 1,
                 IF G = {} THEN st ELSE [sat |-> st.sat \cup {i}, given |-> st.given \cup G])

(* pass 3: in hint order, every unsatisfied hint gets a new block if one   *)
(* is free: the hinted block when it is free, otherwise ANY free block.    *)
(* choice is the block at which the search for "any free block" starts     *)
(* (the policy-free part); a nil hint of an IA_PD that was already served  *)
(* from existing leases does not allocate.                                 *)
RECURSIVE Pass3(_, _, _, _, _, _)
Pass3(H, sat, served, i, taken, choice) ==
  IF i > Len(H) THEN << >>
  ELSE IF i \in sat \/ (H[i].k = "nil" /\ served) \/ Blocks \ taken = {}
       THEN Pass3(H, sat, served, i + 1, taken, choice)
  ELSE LET want == IF H[i].k = "free" /\ H[i].b \notin taken THEN H[i].b ELSE choice
           blk  == IF want \in Blocks \ taken THEN want
                   ELSE CHOOSE x \in Blocks \ taken :
                          \A y \in Blocks \ taken : ((x - choice) % N) <= ((y - choice) % N)
       IN  << [b |-> blk, long |-> HintLong(H[i])] >>
           \o Pass3(H, sat, served, i + 1, taken \cup {blk}, choice)

(* one IA_PD of client c, given the recorded leases known and the bitmap   *)
IA(c, hints, known, taken, choice) ==
  LET H     == IF hints = << >> THEN << [k |-> "nil"] >> ELSE hints
      sat1  == {i \in 1..Len(H) : H[i].k = "own" /\ H[i].p \in SeqSet(known)}
      giv1  == {j \in 1..Len(known) : \E i \in 1..Len(H) : H[i].k = "own" /\ H[i].p = known[j]}
      st2   == Pass2(H, known, 1, [sat |-> sat1, given |-> giv1])
      old   == {known[j] : j \in st2.given}
      new   == Pass3(H, st2.sat, old # {}, 1, taken, choice)
  IN  [old |-> old, new |-> new]

RECURSIVE Fold(_, _, _, _, _, _)
Fold(c, ias, k, known, taken, choices) ==
  IF k > Len(ias) THEN [known |-> known, taken |-> taken, ans |-> << >>]
  ELSE LET r    == IA(c, ias[k], known, taken, choices)
           kn2  == known \o r.new
           tk2  == taken \cup {r.new[i].b : i \in 1..Len(r.new)}
           rest == Fold(c, ias, k + 1, kn2, tk2, choices)
       IN  [known |-> rest.known, taken |-> rest.taken,
            ans |-> << r.old \cup SeqSet(r.new) >> \o rest.ans]

HintSeqs(c) == UNION {[1..n -> HintsFor(c)] : n \in 0..MaxHints}
Message(c, ias, choices) ==
  /\ msgs < MaxMsgs
  /\ LET r == Fold(c, ias, 1, recs[c], out, choices) IN
       /\ recs' = [recs EXCEPT ![c] = r.known]
       /\ out' = r.taken
       /\ told' = [told EXCEPT ![c] = @ \cup UNION {r.ans[i] : i \in 1..Len(r.ans)}]
       /\ last' = [c |-> c, ias |-> ias, ans |-> r.ans]
  /\ msgs' = msgs + 1

TotalHints(ias) == LET RECURSIVE S(_) S(k) == IF k = 0 THEN 0 ELSE Len(ias[k]) + S(k - 1) IN S(Len(ias))
Next == \E c \in Clients : \E n \in 0..MaxIAs : \E ias \in [1..n -> HintSeqs(c)] :
          /\ TotalHints(ias) <= MaxHints
          /\ \E choice \in Blocks : Message(c, ias, choice)
Spec == Init /\ [][Next]_vars

----------------------------------------------------------------------------
BlocksOf(S) == {p.b : p \in S}

\* C08
DisjointAcrossClients ==
  \A c, d \in Clients : c # d => BlocksOf(told[c]) \cap BlocksOf(told[d]) = {}
AllocatorCoversTold == \A c \in Clients : BlocksOf(told[c]) \subseteq out
OneAnswerPerIA == [][Len(last'.ans) = Len(last'.ias)]_vars   \* an empty answer set is NoPrefixAvail
View == <<recs, out, told, msgs>>                            \* `last` is observation only

\* C09
Remembered == \A c \in Clients : told[c] \subseteq SeqSet(recs[c])
ToldNeverShrinks == [][\A c \in Clients : told[c] \subseteq told'[c]]_vars
IsHintless(ia) == \A i \in 1..Len(ia) : ia[i].k = "nil"
RenewAndRepeat ==
  [][msgs' = msgs + 1 =>
       LET c == last'.c IN
         \A k \in 1..Len(last'.ias) :
           LET ia == last'.ias[k] IN
             \* asks exactly P: answered with P
             /\ \A i \in 1..Len(ia) : ia[i].k = "own" => ia[i].p \in last'.ans[k]
             \* no hint at all: every held prefix again, and nothing else
             \* (prefixes an earlier IA_PD of the same message just got count as held)
             /\ (IsHintless(ia) /\ told[c] # {}) =>
                   /\ last'.ans[k] \subseteq told[c] \cup UNION {last'.ans[j] : j \in 1..(k-1)}
                   /\ told[c] \subseteq UNION {last'.ans[j] : j \in 1..Len(last'.ans)}]_vars
NoGrowthOnRepeat ==
  [][(msgs' = msgs + 1 /\ told[last'.c] # {}
      /\ \A k \in 1..Len(last'.ias) : \A i \in 1..Len(last'.ias[k]) : last'.ias[k][i].k \in {"nil", "own"})
       => out' = out]_vars
=============================================================================
