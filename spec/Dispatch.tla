------------------------------ MODULE Dispatch ------------------------------
(***************************************************************************)
(* The per-datagram pipeline of coredhcp (server/handle.go, plugins/       *)
(* plugin.go) as pure functions on abstract datagrams:                     *)
(*   Reply4    base reply + destination cascade of HandleMsg4 (C11, C15)   *)
(*   Reply6    base reply + relay mirroring + destination of HandleMsg6    *)
(*             (C12)                                                       *)
(*   RunChain  the ordered plugin chain with stop (C13)                    *)
(*   LoadPlugins  which handlers a configuration instantiates (C13)        *)
(* Each property is written a second time, declaratively, sentence by      *)
(* sentence (C11Says, C15Says, C12Says, C13Says); DispatchMC lets TLC      *)
(* show that the cascades satisfy them on the whole abstract input         *)
(* product; DispatchTrace applies the same sentences to what the real      *)
(* HandleMsg4/HandleMsg6 did with concrete datagrams.                      *)
(***************************************************************************)
EXTENDS Integers, Sequences, FiniteSets, TLC

NoReply == [sent |-> FALSE]

(***************************************************************************)
(* DHCPv4.  in = [parse, op, mt, gi, ci, bflag, final, bound, oobif]       *)
(*   parse  TRUE if the datagram parses                                    *)
(*   op     opcode 0..255;  mt  message type, -1 = option 53 absent        *)
(*   gi/ci  class of giaddr / ciaddr: "zero" "routable" "linklocal" "bcast"*)
(*   final  what the plugin chain returned: "offer" "ack" "nak" (a plugin  *)
(*          turned the reply into a NAK) or "nil"; "base" = chain left the *)
(*          type alone                                                     *)
(*   bound  interface index the listener is bound to (0 = unbound)         *)
(*   oobif  interface index the datagram arrived on (0 = not reported)     *)
(***************************************************************************)
AddrClasses == {"zero", "routable", "linklocal", "bcast"}
OFFER == 2  ACK == 5  NAK == 6  DISCOVER == 1  REQUEST == 3

BaseType4(mt) == IF mt = DISCOVER THEN OFFER ELSE ACK

Reply4(in) ==
  IF ~in.parse \/ in.op # 1 \/ in.mt \notin {DISCOVER, REQUEST} \/ in.final = "nil" THEN NoReply
  ELSE
  LET type == IF in.final = "nak" THEN NAK ELSE BaseType4(in.mt)
      dst  == IF in.gi # "zero"        THEN [to |-> "giaddr", class |-> in.gi,    port |-> 67, l2 |-> FALSE]
              ELSE IF type = NAK       THEN [to |-> "bcast",  class |-> "bcast",  port |-> 68, l2 |-> FALSE]
              ELSE IF in.ci # "zero"   THEN [to |-> "ciaddr", class |-> in.ci,    port |-> 68, l2 |-> FALSE]
              ELSE IF in.bflag         THEN [to |-> "bcast",  class |-> "bcast",  port |-> 68, l2 |-> FALSE]
              ELSE                          [to |-> "yiaddr", class |-> "any",    port |-> 68, l2 |-> TRUE]
      pinned == dst.class \in {"bcast", "linklocal"} \/ dst.l2
      ifx  == IF ~pinned THEN 0 ELSE IF in.bound # 0 THEN in.bound ELSE in.oobif
  IN [sent |-> TRUE, type |-> type, to |-> dst.to, port |-> dst.port, l2 |-> dst.l2, pinned |-> pinned, ifindex |-> ifx]

\* C11, as stated
C11Says(in, out) ==
  /\ out.sent => /\ in.parse /\ in.op = 1 /\ in.mt \in {DISCOVER, REQUEST}       \* answers a BOOTREQUEST DISCOVER/REQUEST
                 /\ in.mt = DISCOVER => out.type = OFFER                          \* OFFER for a DISCOVER
                 /\ in.mt = REQUEST  => out.type \in {ACK, NAK}                   \* ACK (or NAK) for a REQUEST
  /\ (~in.parse \/ in.op # 1 \/ in.mt \notin {DISCOVER, REQUEST}) => ~out.sent    \* everything else is never answered

\* C15, one conjunct per sentence
C15Says(in, out) ==
  out.sent =>
    /\ in.gi # "zero" => out.to = "giaddr" /\ out.port = 67                                    \* relayed: relay agent, server port
    /\ in.gi = "zero" =>
         /\ out.port = 68                                                                      \* always the client port when not relayed
         /\ out.type = NAK => out.to = "bcast"                                                 \* otherwise a NAK is broadcast
         /\ (out.type # NAK /\ in.ci # "zero") => out.to = "ciaddr"                            \* otherwise unicast to a non-zero ciaddr
         /\ (out.type # NAK /\ in.ci = "zero" /\ in.bflag) => out.to = "bcast"                 \* otherwise broadcast if the flag is set
         /\ (out.type # NAK /\ in.ci = "zero" /\ ~in.bflag) => out.to = "yiaddr" /\ out.l2     \* otherwise link-level unicast
    /\ out.l2 => out.to = "yiaddr"
    /\ LET class == CASE out.to = "giaddr" -> in.gi [] out.to = "ciaddr" -> in.ci
                      [] out.to = "bcast" -> "bcast" [] OTHER -> "any"
           pin   == class \in {"bcast", "linklocal"} \/ out.l2
       IN /\ pin  => out.ifindex = (IF in.bound # 0 THEN in.bound ELSE in.oobif)               \* bound interface, else arrival interface
          /\ ~pin => out.ifindex = 0                                                           \* routable: not pinned

(***************************************************************************)
(* DHCPv6.  in = [parse, depth, outer, itype, cid, rapid, src, final,      *)
(*                bound, oobif]                                            *)
(*   depth  relay nesting 0..4;  outer  type of the relay layers:          *)
(*          "forw" or "repl" (a Relay-Reply sent to a server)              *)
(*   itype  type byte of the innermost message 0..255                      *)
(*   src    "global" or "linklocal" source address                         *)
(*   final  "resp" or "nil" (what the chain returned)                      *)
(***************************************************************************)
SOLICIT == 1  ADVERTISE == 2  REPLY == 7
ReplyTypes6 == {3, 4, 5, 6, 8, 11}   \* REQUEST CONFIRM RENEW REBIND RELEASE INFORMATION-REQUEST
RelayTypes6 == {12, 13}

Reply6(in) ==
  IF ~in.parse \/ in.itype \notin ({SOLICIT} \cup ReplyTypes6) \/ ~in.cid \/ in.final = "nil"
     \/ (in.depth > 0 /\ in.outer # "forw")
  THEN NoReply
  ELSE [sent |-> TRUE,
        type |-> IF in.itype = SOLICIT /\ ~in.rapid THEN ADVERTISE ELSE REPLY,
        rapid |-> in.itype = SOLICIT /\ in.rapid,
        layers |-> in.depth,
        ifindex |-> IF in.src = "linklocal" THEN (IF in.bound # 0 THEN in.bound ELSE in.oobif) ELSE 0]

C12Says(in, out) ==
  /\ out.sent =>
       /\ in.parse /\ in.cid                                                   \* carries the client identifier it was sent
       /\ in.itype = SOLICIT /\ ~in.rapid => out.type = ADVERTISE /\ ~out.rapid
       /\ in.itype = SOLICIT /\ in.rapid  => out.type = REPLY /\ out.rapid      \* echoing Rapid Commit
       /\ in.itype \in ReplyTypes6 => out.type = REPLY /\ ~out.rapid
       /\ in.itype \in {SOLICIT} \cup ReplyTypes6                               \* all other types get no reply
       /\ out.layers = in.depth                                                \* n Relay-Forward layers -> n Relay-Reply layers
       /\ in.src = "linklocal" => out.ifindex = (IF in.bound # 0 THEN in.bound ELSE in.oobif)
       /\ in.src = "global" => out.ifindex = 0
  /\ (~in.parse \/ in.itype \notin ({SOLICIT} \cup ReplyTypes6)) => ~out.sent

(***************************************************************************)
(* The plugin chain.  A handler behaves as one of                          *)
(*   pass      returns the response it was given                           *)
(*   modify    changes it in place (adds its mark)                         *)
(*   replace   returns a new response object                               *)
(*   stop      returns the (marked) response and stops the chain           *)
(*   stopnil   returns nil and stops the chain                             *)
(*   nilpass   returns nil WITHOUT signalling stop: the chain goes on and  *)
(*             the next handler is handed nil (no built-in handler does    *)
(*             that; "modify"/"stop" leave a nil response nil)             *)
(* A response is [id, marks]: id 0 is the base reply, id i the object      *)
(* created by handler i.                                                   *)
(***************************************************************************)
Behaviours == {"pass", "modify", "replace", "stop", "stopnil", "nilpass"}
Nil == [id |-> -1, marks |-> << >>]
Base == [id |-> 0, marks |-> << >>]
Mark(r, i) == IF r = Nil THEN Nil ELSE [r EXCEPT !.marks = Append(@, i)]

RECURSIVE Run(_, _, _, _)
Run(bs, i, cur, saw) ==
  IF i > Len(bs) THEN [invoked |-> Len(bs), out |-> cur, saw |-> saw]
  ELSE LET b == bs[i]  s2 == Append(saw, cur) IN
    CASE b = "pass"    -> Run(bs, i + 1, cur, s2)
      [] b = "modify"  -> Run(bs, i + 1, Mark(cur, i), s2)
      [] b = "nilpass" -> Run(bs, i + 1, Nil, s2)
      [] b = "replace" -> Run(bs, i + 1, [id |-> i, marks |-> << >>], s2)
      [] b = "stop"    -> [invoked |-> i, out |-> Mark(cur, i), saw |-> s2]
      [] b = "stopnil" -> [invoked |-> i, out |-> Nil, saw |-> s2]
RunChain(bs) == Run(bs, 1, Base, << >>)

IsStop(b) == b \in {"stop", "stopnil"}
FirstStop(bs) == IF \E i \in 1..Len(bs) : IsStop(bs[i])
                 THEN CHOOSE i \in 1..Len(bs) : IsStop(bs[i]) /\ \A j \in 1..(i-1) : ~IsStop(bs[j])
                 ELSE Len(bs)
\* what handler i returns when given r
Returns(b, i, r) == CASE b = "pass" -> r
                      [] b \in {"modify", "stop"} -> Mark(r, i)
                      [] b = "replace" -> [id |-> i, marks |-> << >>]
                      [] b \in {"stopnil", "nilpass"} -> Nil

\* C13, as stated, about a run r of the chain bs
C13Says(bs, r) ==
  /\ r.invoked = FirstStop(bs)                                         \* in order, until the first that signals stop
  /\ Len(r.saw) = r.invoked                                            \* at most once each
  /\ r.invoked >= 1 => r.saw[1] = Base                                 \* the first receives the base reply ...
  /\ \A i \in 2..r.invoked : r.saw[i] = Returns(bs[i-1], i-1, r.saw[i-1])   \* ... each the response of its predecessor
  /\ r.out = IF r.invoked = 0 THEN Base ELSE Returns(bs[r.invoked], r.invoked, r.saw[r.invoked])   \* sent: the response returned last
\* nil means nothing is sent
Sent(r) == r.out # Nil

(***************************************************************************)
(* LoadPlugins.  A configuration lists, per protocol, plugin kinds:        *)
(*  "v4" "v6" "dual" (what the plugin supports), "unknown" (no such name), *)
(*  "fail" (setup returns an error), "nilh" (setup returns no handler)     *)
(***************************************************************************)
PluginKinds == {"v4", "v6", "dual", "unknown", "fail", "nilh"}
Supports(k, proto) == k \in {"dual", "fail", "nilh"} \/ (k = "v4" /\ proto = 4) \/ (k = "v6" /\ proto = 6)
RECURSIVE Keep(_, _, _)
Keep(list, proto, i) == IF i > Len(list) THEN << >>
                        ELSE (IF Supports(list[i], proto) THEN << i >> ELSE << >>) \o Keep(list, proto, i + 1)
Aborts(list, proto) == \E i \in 1..Len(list) : list[i] = "unknown" \/ (Supports(list[i], proto) /\ list[i] \in {"fail", "nilh"})
\* has6/has4: whether the configuration has a server6 / server4 section at all
LoadPlugins(has6, l6, has4, l4) ==
  IF ~has6 /\ ~has4 THEN [err |-> TRUE]
  ELSE IF (has6 /\ Aborts(l6, 6)) \/ (has4 /\ Aborts(l4, 4)) THEN [err |-> TRUE]
  ELSE [err |-> FALSE, h6 |-> IF has6 THEN Keep(l6, 6, 1) ELSE << >>, h4 |-> IF has4 THEN Keep(l4, 4, 1) ELSE << >>]
=============================================================================
