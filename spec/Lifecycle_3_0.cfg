SPECIFICATION Spec
CONSTANTS
  NL = 3
  FailAt = 0
  MaxRx = 2
  LoadOK = TRUE
  BindFirst = FALSE
  EmptyQuits = FALSE
INVARIANTS NeverServesBare FailedLoadNeverListened ServesWhileOpen CleanupOnError AllServing CollectsAll NoListenersNoReturn
PROPERTIES WaitReturns
CHECK_DEADLOCK FALSE
