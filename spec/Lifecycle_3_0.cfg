SPECIFICATION Spec
CONSTANTS
  NL = 3
  FailAt = 0
  MaxRx = 2
  EmptyQuits = FALSE
INVARIANTS ServesWhileOpen CleanupOnError AllServing CollectsAll NoListenersNoReturn
PROPERTIES WaitReturns
CHECK_DEADLOCK FALSE
