SPECIFICATION Spec
CONSTANTS
  LB = 6
  NL = 2
INVARIANTS RefIsMath AlgIsMath Inverse
CHECK_DEADLOCK FALSE
