SPECIFICATION Spec
CONSTANTS
  Macs = {m1, m2}
  Addrs = {a1, a2}
  MaxLines = 2
  MaxSteps = 2
INVARIANTS AllOrNothing Quiescent
PROPERTIES Isolation Eventually
CHECK_DEADLOCK FALSE
