SPECIFICATION GSpec
CONSTANTS
  Macs = {m1, m2, m3, m4}
  N = 3
  Lease = 2
  MaxTime = 2
  MaxRestarts = 4
  MaxOps = 40
  Depth = 14
INVARIANTS Export Unique Sticky DbMatchesMemWhenQuiet
CHECK_DEADLOCK FALSE
