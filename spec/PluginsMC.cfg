SPECIFICATION Spec
INVARIANTS NilStop C14Holds C17Holds
CHECK_DEADLOCK FALSE
