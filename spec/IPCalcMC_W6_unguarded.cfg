SPECIFICATION Spec
CONSTANTS
  LB = 3
  NL = 2
INVARIANTS AlgUnguardedIsMath
CHECK_DEADLOCK FALSE
