---- MODULE Lifecycle_TTrace_1791008925 ----
EXTENDS Sequences, TLCExt, Toolbox, Lifecycle, Naturals, TLC

_expression ==
    LET Lifecycle_TEExpression == INSTANCE Lifecycle_TEExpression
    IN Lifecycle_TEExpression!expression
----

_trace ==
    LET Lifecycle_TETrace == INSTANCE Lifecycle_TETrace
    IN Lifecycle_TETrace!trace
----

_inv ==
    ~(
        TLCGet("level") = Len(_TETrace)
        /\
        loaded = ("no")
        /\
        sock = (<<"open", "none">>)
        /\
        wait = ("no")
        /\
        nextl = (2)
        /\
        rx = (1)
        /\
        srv = (<<"reading", "none">>)
        /\
        start = ("opening")
        /\
        bare = (TRUE)
        /\
        got = (0)
    )
----

_init ==
    /\ sock = _TETrace[1].sock
    /\ rx = _TETrace[1].rx
    /\ nextl = _TETrace[1].nextl
    /\ bare = _TETrace[1].bare
    /\ wait = _TETrace[1].wait
    /\ loaded = _TETrace[1].loaded
    /\ srv = _TETrace[1].srv
    /\ start = _TETrace[1].start
    /\ got = _TETrace[1].got
----

_next ==
    /\ \E i,j \in DOMAIN _TETrace:
        /\ \/ /\ j = i + 1
              /\ i = TLCGet("level")
        /\ sock  = _TETrace[i].sock
        /\ sock' = _TETrace[j].sock
        /\ rx  = _TETrace[i].rx
        /\ rx' = _TETrace[j].rx
        /\ nextl  = _TETrace[i].nextl
        /\ nextl' = _TETrace[j].nextl
        /\ bare  = _TETrace[i].bare
        /\ bare' = _TETrace[j].bare
        /\ wait  = _TETrace[i].wait
        /\ wait' = _TETrace[j].wait
        /\ loaded  = _TETrace[i].loaded
        /\ loaded' = _TETrace[j].loaded
        /\ srv  = _TETrace[i].srv
        /\ srv' = _TETrace[j].srv
        /\ start  = _TETrace[i].start
        /\ start' = _TETrace[j].start
        /\ got  = _TETrace[i].got
        /\ got' = _TETrace[j].got

\* Uncomment the ASSUME below to write the states of the error trace
\* to the given file in Json format. Note that you can pass any tuple
\* to `JsonSerialize`. For example, a sub-sequence of _TETrace.
    \* ASSUME
    \*     LET J == INSTANCE Json
    \*         IN J!JsonSerialize("Lifecycle_TTrace_1791008925.json", _TETrace)

=============================================================================

 Note that you can extract this module `Lifecycle_TEExpression`
  to a dedicated file to reuse `expression` (the module in the 
  dedicated `Lifecycle_TEExpression.tla` file takes precedence 
  over the module `Lifecycle_TEExpression` below).

---- MODULE Lifecycle_TEExpression ----
EXTENDS Sequences, TLCExt, Toolbox, Lifecycle, Naturals, TLC

expression == 
    [
        \* To hide variables of the `Lifecycle` spec from the error trace,
        \* remove the variables below.  The trace will be written in the order
        \* of the fields of this record.
        sock |-> sock
        ,rx |-> rx
        ,nextl |-> nextl
        ,bare |-> bare
        ,wait |-> wait
        ,loaded |-> loaded
        ,srv |-> srv
        ,start |-> start
        ,got |-> got
        
        \* Put additional constant-, state-, and action-level expressions here:
        \* ,_stateNumber |-> _TEPosition
        \* ,_sockUnchanged |-> sock = sock'
        
        \* Format the `sock` variable as Json value.
        \* ,_sockJson |->
        \*     LET J == INSTANCE Json
        \*     IN J!ToJson(sock)
        
        \* Lastly, you may build expressions over arbitrary sets of states by
        \* leveraging the _TETrace operator.  For example, this is how to
        \* count the number of times a spec variable changed up to the current
        \* state in the trace.
        \* ,_sockModCount |->
        \*     LET F[s \in DOMAIN _TETrace] ==
        \*         IF s = 1 THEN 0
        \*         ELSE IF _TETrace[s].sock # _TETrace[s-1].sock
        \*             THEN 1 + F[s-1] ELSE F[s-1]
        \*     IN F[_TEPosition - 1]
    ]

=============================================================================



Parsing and semantic processing can take forever if the trace below is long.
 In this case, it is advised to uncomment the module below to deserialize the
 trace from a generated binary file.

\*
\*---- MODULE Lifecycle_TETrace ----
\*EXTENDS IOUtils, Lifecycle, TLC
\*
\*trace == IODeserialize("Lifecycle_TTrace_1791008925.bin", TRUE)
\*
\*=============================================================================
\*

---- MODULE Lifecycle_TETrace ----
EXTENDS Lifecycle, TLC

trace == 
    <<
    ([loaded |-> "no",sock |-> <<"none", "none">>,wait |-> "no",nextl |-> 1,rx |-> 0,srv |-> <<"none", "none">>,start |-> "opening",bare |-> FALSE,got |-> 0]),
    ([loaded |-> "no",sock |-> <<"open", "none">>,wait |-> "no",nextl |-> 2,rx |-> 0,srv |-> <<"reading", "none">>,start |-> "opening",bare |-> FALSE,got |-> 0]),
    ([loaded |-> "no",sock |-> <<"open", "none">>,wait |-> "no",nextl |-> 2,rx |-> 1,srv |-> <<"reading", "none">>,start |-> "opening",bare |-> TRUE,got |-> 0])
    >>
----


=============================================================================

---- CONFIG Lifecycle_TTrace_1791008925 ----
CONSTANTS
    NL = 2
    FailAt = 0
    MaxRx = 2
    LoadOK = FALSE
    BindFirst = TRUE
    EmptyQuits = FALSE

INVARIANT
    _inv

CHECK_DEADLOCK
    \* CHECK_DEADLOCK off because of PROPERTY or INVARIANT above.
    FALSE

INIT
    _init

NEXT
    _next

CONSTANT
    _TETrace <- _trace

ALIAS
    _expression
=============================================================================
\* Generated on Sat Oct 03 06:28:46 UTC 2026