SPECIFICATION Spec
CONSTANTS
  LB = 3
  NL = 2
INVARIANTS RefIsMath AlgIsMath Inverse
CHECK_DEADLOCK FALSE
