SPECIFICATION Spec
CONSTANTS
  Clients <- Cl
  N = 2
  MaxMsgs = 3
  Chain <- ChainPrefixFirst6
  Static <- Static6
INVARIANTS DeclineNeverAnswered OnePrefixPerClient NoSharedPrefix StaticAddress EveryPDAnswered ReleaseKeepsLease
CHECK_DEADLOCK FALSE
