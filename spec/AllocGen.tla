------------------------------ MODULE AllocGen ------------------------------
(* Behaviour generator (model -> code) for the allocators: Alloc with a     *)
(* history of the calls made.  `tlc -simulate` prints every behaviour that  *)
(* reaches Depth calls; `harness alloc -mode letters` replays the calls on  *)
(* both real allocators and AllocTrace validates the recording.  In the     *)
(* "outstanding" domain (C04 C05 C07) only outstanding blocks are freed.    *)
EXTENDS Alloc, Json

CONSTANTS Depth, OnlyOutstanding
VARIABLE hist
gvars == <<out, holders, result, hist>>

HintLetter(h) == [op |-> "alloc", k |-> h.k,
                  b |-> IF h.k = "blk" THEN h.b ELSE -1,
                  long |-> IF h.k \in {"blk", "outside"} THEN h.long ELSE FALSE,
                  sub |-> FALSE,
                  side |-> IF h.k = "outside" THEN h.side ELSE "",
                  d |-> IF h.k = "outside" THEN h.d ELSE 0]
FreeLetter(a) == [op |-> "free", k |-> a.k,
                  b |-> IF a.k = "blk" THEN a.b ELSE -1,
                  long |-> FALSE,
                  sub |-> IF a.k = "blk" THEN a.sub ELSE FALSE,
                  side |-> IF a.k = "outside" THEN a.side ELSE "",
                  d |-> IF a.k = "outside" THEN a.d ELSE 0]
GInit == Init /\ hist = << >>
GNext == /\ Len(hist) < Depth
         /\ \/ \E h \in Hints : Allocate(h) /\ hist' = Append(hist, HintLetter(h))
            \/ \E a \in FreeArgs : (OnlyOutstanding => NamesOutstanding(a)) /\ Free(a) /\ hist' = Append(hist, FreeLetter(a))
GSpec == GInit /\ [][GNext]_gvars
Export == (Len(hist) = Depth) => PrintT(<<"SCN", ToJson(hist)>>)
=============================================================================
