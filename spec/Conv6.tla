------------------------------- MODULE Conv6 -------------------------------
(***************************************************************************)
(* DHCPv6 conversations against a whole chain of built-in plugins (the      *)
(* DHCPv6 side of Conv): SOLICIT / ADVERTISE / REQUEST / REPLY, RENEW,       *)
(* REBIND, RELEASE, DECLINE, CONFIRM, INFORMATION-REQUEST of a few clients   *)
(* that may ask for an address (IA_NA, served by the static file) and for a  *)
(* prefix (IA_PD, served by the prefix plugin).  Facts about the code that   *)
(* the model states and TLC confirms:                                        *)
(*  - the prefix plugin does not look at the message type: a RELEASE is       *)
(*    answered with the lease, which is kept (ReleaseKeepsLease); a DECLINE   *)
(*    never reaches a handler (HandleMsg6 builds no reply for it);            *)
(*  - configured in FRONT of server_id it binds a block for a message that    *)
(*    server_id then discards (DiscardedMessagesBindNothing fails for         *)
(*    ChainPrefixFirst).                                                      *)
(***************************************************************************)
EXTENDS Conv6Core, TLC

CONSTANTS Clients, N, Chain, Static, MaxMsgs

VARIABLES held, told, msgs, last
vars == <<held, told, msgs, last>>

Init == /\ held = [c \in Clients |-> 0] /\ told = [c \in Clients |-> {}] /\ msgs = 0
        /\ last = [c |-> "none", m |-> [mt |-> "none", sid |-> "none", na |-> FALSE, pd |-> FALSE], resp |-> NoResp6, before |-> 0]

Msg(c, m) ==
  /\ msgs < MaxMsgs /\ msgs' = msgs + 1
  /\ \E choice \in 1..N :
       LET h == Handle6(Chain, Static, N, held, c, m, choice) IN
         /\ held' = h.held
         /\ last' = [c |-> c, m |-> m, resp |-> h.resp, before |-> held[c]]
         /\ told' = IF h.resp.sent /\ h.resp.pd \in 1..N THEN [told EXCEPT ![c] = @ \cup {h.resp.pd}] ELSE told

Next == \E c \in Clients, mt \in Types, sid \in {"none", "own", "other"}, na \in BOOLEAN, pd \in BOOLEAN :
          Msg(c, [mt |-> mt, sid |-> sid, na |-> na, pd |-> pd])
Spec == Init /\ [][Next]_vars
----------------------------------------------------------------------------
Pos(p) == IF \E i \in 1..Len(Chain) : Chain[i] = p THEN CHOOSE i \in 1..Len(Chain) : Chain[i] = p ELSE 0
Has(p) == Pos(p) # 0

OnePrefixPerClient == \A c \in Clients : Cardinality(told[c]) <= 1
NoSharedPrefix == \A c, d \in Clients : c # d => told[c] \cap told[d] = {}
\* RFC 8415 section 16, with server_id in front of everything that answers
DiscardRules ==
  (Has("server_id") /\ last.c # "none") =>
     LET m == last.m IN
       ((m.mt \in MustHaveNoSid /\ m.sid # "none") \/ (m.mt \in MustHaveSid /\ m.sid = "none") \/ m.sid = "other") => ~last.resp.sent
\* a listed client that asks for an address gets exactly the listed one; nobody else gets one
StaticAddress ==
  (last.resp.sent /\ Has("file")) => last.resp.na = (IF last.m.na /\ last.c \in DOMAIN Static THEN Static[last.c] ELSE 0)
\* every requested IA_PD is answered: a prefix or NoPrefixAvail
EveryPDAnswered == (last.resp.sent /\ Has("prefix")) => (last.m.pd <=> last.resp.pd # 0)
\* a fact about the code: RELEASE / DECLINE do not give anything back
ReleaseKeepsLease == (last.m.mt \in {"release", "decline"} /\ last.before # 0) => held[last.c] = last.before
DeclineNeverAnswered == last.m.mt = "decline" => ~last.resp.sent
\* a message that is discarded binds nothing (needs server_id in front of prefix)
DiscardedMessagesBindNothing == (last.c # "none" /\ ~last.resp.sent) => held[last.c] = last.before
=============================================================================
