------------------------------ MODULE ServerMC ------------------------------
(* constant definitions for the Server configurations (functions cannot be   *)
(* written in a .cfg file)                                                    *)
EXTENDS Server

\* three DHCPv4 datagrams: one client twice (a retransmission) and another client, one address: exhaustion
V4_D4 == [d1 |-> "m1", d2 |-> "m1", d3 |-> "m2"]
V4b_D4 == [d1 |-> "m1", d2 |-> "m2", d3 |-> "m3"]
NoD == << >>
\* two DHCPv6 messages of different clients with two hint-less IA_PDs each, two blocks: nearly exhausted
V6_D6 == [e1 |-> [c |-> "c1", ias |-> << "new", "new" >>], e2 |-> [c |-> "c2", ias |-> << "any", "new" >>]]
\* three messages, one client twice
V6b_D6 == [e1 |-> [c |-> "c1", ias |-> << "any", "any" >>], e2 |-> [c |-> "c2", ias |-> << "new" >>], e3 |-> [c |-> "c1", ias |-> << "any" >>]]
\* mixed
Mix_D4 == [d1 |-> "m1", d2 |-> "m2"]
Mix_D6 == [e1 |-> [c |-> "c1", ias |-> << "any", "new" >>]]
=============================================================================
