------------------------------ MODULE Lifecycle ------------------------------
(***************************************************************************)
(* Start / Serve / Wait / Close of server/serve.go (not one of the listed  *)
(* properties: the specification grows beyond them).  A configuration has  *)
(* n listen addresses; Start opens them one after the other and spawns a   *)
(* Serve goroutine for each; if opening number FailAt fails, Start closes  *)
(* what it opened and returns the error.  A Serve goroutine reads          *)
(* datagrams until its socket is closed and then delivers its result on    *)
(* an UNBUFFERED channel.  Wait takes the first result, closes every       *)
(* listener and takes the remaining n - 1 results.                         *)
(***************************************************************************)
EXTENDS Integers, FiniteSets, TLC

CONSTANTS NL,         \* number of listen addresses
          FailAt,     \* 0: every listen succeeds; k: the k-th listen fails
          MaxRx,      \* datagrams received in a behaviour (bound)
          EmptyQuits, \* FALSE: the code.  TRUE: the weakened design in which a 0-byte read ends Serve (stream-socket habit)
          LoadOK,     \* does plugins.LoadPlugins succeed for this configuration
          BindFirst   \* FALSE: the code (plugins are loaded BEFORE any socket is opened).  TRUE: the weakened design
                      \*        that binds and serves first and hands the handler chain to the listeners afterwards

L == 1 .. NL
VARIABLES sock,     \* per listener: "none" | "open" | "closed"
          srv,      \* per listener: "none" | "reading" | "sending" (blocked on the channel) | "returned"
          start,    \* "no" | "opening" | "ok" | "err"
          nextl,    \* next listener Start opens
          wait,     \* "no" | "first" | "rest" | "returned"
          got,      \* results Wait has taken
          rx,       \* datagrams received so far
          loaded,   \* plugins.LoadPlugins: "no" | "ok" | "failed"
          bare      \* history: a datagram was handled by a listener that had no handler chain yet
vars == <<sock, srv, start, nextl, wait, got, rx, loaded, bare>>

Init == /\ sock = [i \in L |-> "none"] /\ srv = [i \in L |-> "none"]
        /\ start = "opening" /\ nextl = 1 /\ wait = "no" /\ got = 0 /\ rx = 0
        /\ loaded = "no" /\ bare = FALSE

\* Start's first step in the code: the handler chains are built (every plugin's setup runs) before anything listens
Load == /\ start = "opening" /\ loaded = "no" /\ (BindFirst => nextl = NL + 1 \/ nextl = FailAt)
        /\ loaded' = IF LoadOK THEN "ok" ELSE "failed"
        /\ start' = IF LoadOK THEN start ELSE "err"
        /\ sock' = [i \in L |-> IF ~LoadOK /\ sock[i] = "open" THEN "closed" ELSE sock[i]]   \* cleanup
        /\ UNCHANGED <<srv, nextl, wait, got, rx, bare>>

Open == /\ start = "opening" /\ nextl <= NL /\ nextl # FailAt
        /\ (~BindFirst => loaded = "ok")
        /\ sock' = [sock EXCEPT ![nextl] = "open"] /\ srv' = [srv EXCEPT ![nextl] = "reading"]
        /\ nextl' = nextl + 1 /\ UNCHANGED <<start, wait, got, rx, loaded, bare>>
OpenFails == /\ start = "opening" /\ nextl = FailAt /\ (~BindFirst => loaded = "ok")
             /\ sock' = [i \in L |-> IF sock[i] = "open" THEN "closed" ELSE sock[i]]     \* cleanup: srv.Close()
             /\ start' = "err" /\ UNCHANGED <<srv, nextl, wait, got, rx, loaded, bare>>
Started == /\ start = "opening" /\ nextl = NL + 1 /\ loaded = "ok" /\ start' = "ok" /\ UNCHANGED <<sock, srv, nextl, wait, got, rx, loaded, bare>>

\* a Serve goroutine whose socket was closed stops reading and offers its result
ReadFails(i) == /\ srv[i] = "reading" /\ sock[i] = "closed" /\ srv' = [srv EXCEPT ![i] = "sending"]
                /\ UNCHANGED <<sock, start, nextl, wait, got, rx, loaded, bare>>

(* a datagram of ANY length - 0 bytes included: on UDP that is an empty datagram, not end of stream - is read, *)
(* handed to its own handler goroutine (Server.tla) and Serve keeps reading                                  *)
Datagram(i, empty) == /\ srv[i] = "reading" /\ sock[i] = "open" /\ rx < MaxRx
                      /\ rx' = rx + 1
                      /\ bare' = (bare \/ loaded # "ok")          \* the handler chain this listener runs is whatever it has NOW
                      /\ srv' = IF empty /\ EmptyQuits THEN [srv EXCEPT ![i] = "sending"] ELSE srv
                      /\ UNCHANGED <<sock, start, nextl, wait, got, loaded>>

CallWait == /\ start = "ok" /\ wait = "no" /\ wait' = "first" /\ UNCHANGED <<sock, srv, start, nextl, got, rx, loaded, bare>>
\* the environment closes the server (signal handler, test): Close()
CloseAll == /\ start = "ok" /\ \E i \in L : sock[i] = "open"
            /\ sock' = [i \in L |-> IF sock[i] = "open" THEN "closed" ELSE sock[i]]
            /\ UNCHANGED <<srv, start, nextl, wait, got, rx, loaded, bare>>
\* rendezvous on the unbuffered channel
TakeFirst(i) == /\ wait = "first" /\ srv[i] = "sending"
                /\ srv' = [srv EXCEPT ![i] = "returned"] /\ got' = 1
                /\ sock' = [j \in L |-> IF sock[j] = "open" THEN "closed" ELSE sock[j]]  \* Wait closes everything
                /\ wait' = IF NL = 1 THEN "returned" ELSE "rest"
                /\ UNCHANGED <<start, nextl, rx, loaded, bare>>
TakeRest(i) == /\ wait = "rest" /\ srv[i] = "sending"
               /\ srv' = [srv EXCEPT ![i] = "returned"] /\ got' = got + 1
               /\ wait' = IF got + 1 = NL THEN "returned" ELSE "rest"
               /\ UNCHANGED <<sock, start, nextl, rx, loaded, bare>>

Next == Load \/ Open \/ OpenFails \/ Started \/ CallWait \/ CloseAll \/ \E i \in L : ReadFails(i) \/ TakeFirst(i) \/ TakeRest(i)
        \/ \E k \in L, empty \in BOOLEAN : Datagram(k, empty)
Spec == Init /\ [][Next]_vars /\ WF_vars(Load \/ Open \/ OpenFails \/ Started) /\ WF_vars(CallWait)
             /\ \A i \in L : WF_vars(ReadFails(i)) /\ WF_vars(TakeFirst(i)) /\ WF_vars(TakeRest(i))

----------------------------------------------------------------------------
\* a failed Start leaves no socket open
CleanupOnError == start = "err" => \A i \in L : sock[i] # "open"
\* a successful Start has every address open and served
AllServing == (start = "ok" /\ wait = "no" /\ \A i \in L : sock[i] = "open") => \A i \in L : srv[i] = "reading"
\* no datagram ends a Serve loop: a listener whose socket is open keeps reading (C01's availability over real sockets)
ServesWhileOpen == \A i \in L : (sock[i] = "open" /\ srv[i] # "none") => srv[i] = "reading"
\* C13 at start-up: no datagram is ever handled by anything but the configured chain - in particular a configuration
\* whose plugin setup fails never answers a request
NeverServesBare == ~bare
FailedLoadNeverListened == loaded = "failed" => \A i \in L : srv[i] = "none"
\* once the sockets are closed, Wait returns, having collected every Serve result
WaitReturns == (start = "ok" /\ NL >= 1 /\ \A i \in L : sock[i] = "closed") ~> (wait = "returned")
CollectsAll == wait = "returned" => (got = NL /\ \A i \in L : srv[i] = "returned" /\ sock[i] = "closed")
\* (a fact about the code, not a wish) without listeners Wait has nothing to wait for and never returns
NoListenersNoReturn == NL = 0 => wait # "returned"
=============================================================================
