---------------------------- MODULE DispatchTrace ----------------------------
(***************************************************************************)
(* Leg C for C11 C12 C13 C15: validates what the real HandleMsg4 /         *)
(* HandleMsg6 / LoadPlugins did with concrete datagrams and configurations *)
(* against the functions of Dispatch.  Every line is independent.          *)
(*  d4 {in, parsed, panic, out{sent, n, type, opcode, eq*, pgi, pbc, pci,  *)
(*      pyi, port, woob, ifindex, l2, frame, fdmac, fdip, fsport, fdport,  *)
(*      fif, fsmac, fwire, fpay}}                                           *)
(*  d6 {in, parsed, panic, out{sent, n, type, eqxid, eqcid, rapid, layers, *)
(*      mirror, dstsame, woob, ifindex}}                                   *)
(*  chain {proto, bs, invoked, saw, reqsame, sent, n, out, panic}          *)
(*  load  {has6, l6, has4, l4, err, h4, h6, panic}                         *)
(* `parsed` is the harness's own verdict on the bytes it sent; it replaces *)
(* the intended in.parse.                                                  *)
(***************************************************************************)
EXTENDS Dispatch, Json

CONSTANTS Lens

Trace == ndJsonDeserialize("trace.ndjson")

VARIABLE l
tvars == <<l>>
IsEvent(e) == l <= Len(Trace) /\ Trace[l].ev = e /\ l' = l + 1

In4Of(e) == [parse |-> e.parsed, op |-> e.in.op, mt |-> e.in.mt, gi |-> e.in.gi, ci |-> e.in.ci, bflag |-> e.in.bflag,
             final |-> e.in.final, bound |-> e.in.bound, oobif |-> e.in.oobif]

TraceD4 ==
  /\ IsEvent("d4")
  /\ LET e == Trace[l]  in == In4Of(e)  o == e.out  exp == Reply4(in) IN
     /\ ("C11" \in Lens) =>
          /\ o.n <= 1
          /\ C11Says(in, [sent |-> o.sent, type |-> o.type])
          /\ o.sent => /\ o.opcode = 2                                            \* a BOOTREPLY ...
                       /\ o.eqxid /\ o.eqhtype /\ o.eqchaddr /\ o.eqflags /\ o.eqgiaddr   \* ... carrying the request's fields
                       /\ o.eqrai /\ o.eqcid                                      \* and echoing options 82 and 61
                       /\ o.frame => o.fecho                                      \* ... in the frame that leaves, on the link-level path
     /\ ("C13" \in Lens) => (o.sent <=> exp.sent) /\ o.n <= 1                      \* nil response: nothing is sent; otherwise it is
     /\ ("C15" \in Lens) =>
          ((o.sent /\ exp.sent /\ (in.bound # 0 \/ in.oobif # 0)) =>
            /\ o.type = exp.type
            /\ o.port = exp.port /\ o.l2 = exp.l2
            /\ exp.to = "giaddr" => o.pgi
            /\ exp.to = "bcast"  => o.pbc
            /\ exp.to = "ciaddr" => o.pci
            /\ exp.to = "yiaddr" => o.pyi
            /\ exp.pinned  => o.woob /\ o.ifindex = exp.ifindex                    \* bound interface, else arrival interface
            /\ ~exp.pinned => ~o.woob                                             \* routable destinations are not pinned
            /\ (o.l2 /\ o.fexpected) => o.frame                                       \* the link-level reply really leaves (whatever its size)
            /\ (o.l2 /\ o.frame) => /\ o.fdmac /\ o.fdip /\ o.fsport = 67 /\ o.fdport = 68
                                   /\ o.fif = exp.ifindex /\ o.fsmac                   \* the frame leaves on THAT interface, from its address
                                   /\ o.fwire /\ o.fpay)                               \* a frame a receiver accepts, carrying the reply

In6Of(e) == [parse |-> e.parsed, depth |-> e.in.depth, outer |-> e.in.outer, itype |-> e.in.itype, cid |-> e.in.cid,
             rapid |-> e.in.rapid, src |-> e.in.src, final |-> e.in.final, bound |-> e.in.bound, oobif |-> e.in.oobif]

TraceD6 ==
  /\ IsEvent("d6")
  /\ LET e == Trace[l]  in == In6Of(e)  o == e.out  exp == Reply6(in) IN
     /\ ("C12" \in Lens /\ in.cid) =>                   \* (a message without client identifier: nothing is stated)
          /\ o.n <= 1
          /\ o.sent <=> exp.sent
          /\ o.sent => /\ o.type = exp.type /\ o.rapid = exp.rapid
                       /\ o.eqxid /\ o.eqcid                                      \* transaction id and client identifier
                       /\ o.layers = in.depth /\ o.mirror                         \* n mirrored Relay-Reply layers
                       /\ o.dstsame                                               \* back to the source address and port
                       /\ (in.bound # 0 \/ in.oobif # 0) =>
                            /\ exp.ifindex # 0 => o.woob /\ o.ifindex = exp.ifindex    \* link-local: pinned
                            /\ exp.ifindex = 0 => ~o.woob
          /\ C12Says(in, IF o.sent THEN [sent |-> TRUE, type |-> o.type, rapid |-> o.rapid, layers |-> o.layers,
                                         ifindex |-> IF in.bound # 0 \/ in.oobif # 0 THEN o.ifindex ELSE exp.ifindex]
                         ELSE NoReply)
     /\ ("C13" \in Lens) => (o.sent <=> exp.sent) /\ o.n <= 1

TraceChain ==
  /\ IsEvent("chain")
  /\ LET e == Trace[l]
         r == [invoked |-> Len(e.invoked), out |-> IF e.sent THEN e.out ELSE Nil, saw |-> e.saw]
         exp == RunChain(e.bs)
     IN ("C13" \in Lens) =>
          /\ ~e.panic
          /\ \A i \in 1..Len(e.invoked) : e.invoked[i] = i          \* in configured order, at most once each
          /\ e.reqsame                                              \* each receives the original request
          /\ C13Says(e.bs, r)
          /\ e.sent <=> Sent(exp)                                   \* a nil response means nothing is sent
          /\ e.n <= 1

TraceLoad ==
  /\ IsEvent("load")
  /\ LET e == Trace[l]  exp == LoadPlugins(e.has6, e.l6, e.has4, e.l4) IN
     ("C13" \in Lens /\ (e.has6 \/ e.has4)) =>                     \* (nothing is stated about a configuration without any section)
        /\ ~e.panic
        /\ e.err = exp.err                                          \* unknown name / failing setup aborts start-up
        /\ ~e.err => e.h4 = exp.h4 /\ e.h6 = exp.h6                 \* exactly the supporting plugins, in file order

TraceNote == IsEvent("note")

TraceInit == l = 1
TraceNext == TraceD4 \/ TraceD6 \/ TraceChain \/ TraceLoad \/ TraceNote
TraceSpec == TraceInit /\ [][TraceNext]_tvars

TraceAccepted ==
  LET d == TLCGet("stats").diameter
  IN  IF d - 1 = Len(Trace) THEN TRUE
      ELSE Print(<<"REJECT_AT", d, Len(Trace)>>, FALSE)
=============================================================================
