----------------------------- MODULE PrefixTrace -----------------------------
(***************************************************************************)
(* Leg C for C08 / C09 (and the prefix part of C16): validates recordings  *)
(* of the real prefix-delegation plugin (handler from Plugin.Setup6; every *)
(* message went through the codec both ways) against PrefixPD.             *)
(* Monitor: told[c] (set of <<block, length>> any reply told c it holds),  *)
(* owner[b] (the client block b was delegated to), exp[<<c,b,len>>] (lower *)
(* bound of the promised end of that lease: t0 + valid lifetime).          *)
(*                                                                         *)
(*  reset {N, page}                                                        *)
(*  msg   {c, relay, t0, t1, res, stop, extra,                             *)
(*         ias [{iaid, hints [{nil, zero, b, base, len, bits}]}],          *)
(*         ans [{iaid, count, status, pfx [{b, base, inpool, len, bits,    *)
(*               pref, valid}]}]}     (ans[i] answers ias[i])              *)
(*  ia    {site, held}    observation point inside the critical section    *)
(***************************************************************************)
EXTENDS Integers, FiniteSets, Sequences, TLC, Json

CONSTANTS Lens

Trace == ndJsonDeserialize("trace.ndjson")

VARIABLES l, N, page, told, owner, exp
tvars == <<l, N, page, told, owner, exp>>

IsEvent(e) == l <= Len(Trace) /\ Trace[l].ev = e /\ l' = l + 1
ToldOf(c) == IF c \in DOMAIN told THEN told[c] ELSE {}
Idx(s) == 1 .. Len(s)
PfxSet(a) == {<<a.pfx[i].b, a.pfx[i].len>> : i \in Idx(a.pfx)}

TraceReset ==
  /\ IsEvent("reset")
  /\ N' = Trace[l].N /\ page' = Trace[l].page
  /\ told' = << >> /\ owner' = << >> /\ exp' = << >>

\* C08, one delegated prefix p in a reply to client c
PrefixOK(c, p) ==
  /\ p.inpool /\ p.b \in 0 .. (N - 1)                 \* inside the configured pool
  /\ p.base                                           \* aligned to the allocation size
  /\ p.bits = 128 /\ p.len >= page /\ p.len <= 128    \* no larger than the allocation size
  /\ 0 < p.pref /\ p.pref <= p.valid /\ p.valid <= 3600
  /\ p.b \in DOMAIN owner => owner[p.b] = c           \* never a block of another client

\* C08, the answer a to the IA_PD ia
AnswerOK(c, ia, a) ==
  /\ a.iaid = ia.iaid /\ a.count = 1                  \* exactly one IA_PD with the same IAID
  /\ \/ Len(a.pfx) >= 1 /\ a.status = "none"          \* at least one prefix ...
     \/ Len(a.pfx) = 0 /\ a.status = "noprefix"       \* ... or NoPrefixAvail
  /\ \A i \in Idx(a.pfx) : PrefixOK(c, a.pfx[i])

\* C09: the hint h asks exactly for the held prefix <<b, len>>
AsksExactly(c, h) == ~h.nil /\ h.b >= 0 /\ h.base /\ h.bits = 128 /\ <<h.b, h.len>> \in ToldOf(c)
Hintless(ia) == \A i \in Idx(ia.hints) : ia.hints[i].nil
StillValid(c, p, t1) ==
  <<c, p.b, p.len>> \in DOMAIN exp => p.valid >= exp[<<c, p.b, p.len>>] - t1 - 1

RenewOK(c, e) ==
  \A k \in Idx(e.ias) :
    LET ia == e.ias[k]  a == e.ans[k] IN
      \* asks exactly P: answered with P again, lifetime not shorter than what remained
      /\ \A i \in Idx(ia.hints) :
           AsksExactly(c, ia.hints[i]) =>
             \E j \in Idx(a.pfx) : /\ a.pfx[j].b = ia.hints[i].b /\ a.pfx[j].len = ia.hints[i].len
                                   /\ StillValid(c, a.pfx[j], e.t1)
      \* an IA_PD that only asks for held prefixes (and/or carries empty hints) consumes no further block:
      \* "answered with P again instead of a different prefix", "retransmitting ... does not consume additional blocks"
      /\ (ToldOf(c) # {} /\ \A i \in Idx(ia.hints) : ia.hints[i].nil \/ AsksExactly(c, ia.hints[i])) =>
           PfxSet(a) \subseteq ToldOf(c) \cup UNION {PfxSet(e.ans[j]) : j \in 1..(k-1)}
      \* no hint at all: the held prefixes again (all of them somewhere in the reply),
      \* and no different prefix (prefixes an earlier IA_PD of this message got count as held)
      /\ (Hintless(ia) /\ ToldOf(c) # {}) =>
           /\ PfxSet(a) \subseteq ToldOf(c) \cup UNION {PfxSet(e.ans[j]) : j \in 1..(k-1)}
           /\ ToldOf(c) \subseteq UNION {PfxSet(e.ans[j]) : j \in Idx(e.ans)}
           /\ \A j \in Idx(a.pfx) : StillValid(c, a.pfx[j], e.t1)

AllPfx(e) == {<<k, j>> \in (Idx(e.ans) \X (1..256)) : j <= Len(e.ans[k].pfx)}

TraceMsg ==
  /\ IsEvent("msg")
  /\ LET e == Trace[l]  c == e.c IN
     /\ ("C08" \in Lens) =>
          /\ e.res = "reply"
          /\ Len(e.ans) = Len(e.ias)
          /\ \A k \in Idx(e.ias) : AnswerOK(c, e.ias[k], e.ans[k])
     /\ ("C09" \in Lens) =>
          /\ e.res = "reply"
          /\ Len(e.ans) = Len(e.ias)
          /\ RenewOK(c, e)
     /\ ("C16" \in Lens) =>
          /\ e.res = "reply"
          /\ \A k \in Idx(e.ans) : \A j \in Idx(e.ans[k].pfx) :
               LET p == e.ans[k].pfx[j] IN p.inpool /\ (p.b \in DOMAIN owner => owner[p.b] = c)
     /\ LET got == IF e.res = "reply" THEN UNION {PfxSet(e.ans[k]) : k \in Idx(e.ans)} ELSE {}
            gotb == {p[1] : p \in got}
            pf(b, ln) == CHOOSE kj \in AllPfx(e) : e.ans[kj[1]].pfx[kj[2]].b = b /\ e.ans[kj[1]].pfx[kj[2]].len = ln
        IN
        /\ told' = [x \in DOMAIN told \cup {c} |-> IF x = c THEN ToldOf(c) \cup got ELSE told[x]]
        /\ owner' = [b \in DOMAIN owner \cup gotb |-> IF b \in DOMAIN owner THEN owner[b] ELSE c]
        /\ exp' = [k \in DOMAIN exp \cup {<<c, p[1], p[2]>> : p \in got} |->
                     IF k[1] = c /\ <<k[2], k[3]>> \in got
                     THEN e.t0 + e.ans[pf(k[2], k[3])[1]].pfx[pf(k[2], k[3])[2]].valid
                     ELSE exp[k]]
  /\ UNCHANGED <<N, page>>

TraceIA ==
  /\ IsEvent("ia")
  /\ ("DISC" \in Lens) => Trace[l].held            \* lock discipline of the present design (drift detector only)
  /\ UNCHANGED <<N, page, told, owner, exp>>

TraceNote == IsEvent("note") /\ UNCHANGED <<N, page, told, owner, exp>>

TraceInit == l = 1 /\ N = 0 /\ page = 0 /\ told = << >> /\ owner = << >> /\ exp = << >>
TraceNext == TraceReset \/ TraceMsg \/ TraceIA \/ TraceNote
TraceSpec == TraceInit /\ [][TraceNext]_tvars

TraceAccepted ==
  LET d == TLCGet("stats").diameter
  IN  IF d - 1 = Len(Trace) THEN TRUE
      ELSE Print(<<"REJECT_AT", d, Len(Trace)>>, FALSE)
=============================================================================
