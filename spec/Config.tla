------------------------------- MODULE Config -------------------------------
(***************************************************************************)
(* config.Load (config/config.go) as a function from an abstract YAML      *)
(* document and the host's interface list to an error or the listener and  *)
(* plugin lists per protocol.  Property C18.                               *)
(*                                                                         *)
(* document   [s4, s6], each  [present : BOOLEAN,                          *)
(*     listen : [k : "absent"] | [k : "scalar", specs : <<spec>>]          *)
(*              | [k : "list", specs : Seq(spec)],                         *)
(*     iface  : "" | interface name  (the deprecated `interface` keyword), *)
(*     plugins: [k : "absent"|"null"|"emptylist"|"scalar"|"map"] |         *)
(*              [k : "list", items : Seq(item)]]                           *)
(* spec  [ip : "none"|"v4"|"v6"|"v4mapped"|"mc4"|"mc6"|"garbage",          *)
(*        text : canonical text of the address, bracket : BOOLEAN,         *)
(*        zone : "" | name, port : -1 (none) | -2 (garbage) | the number]   *)
(* item  [k : "one", name, args : Seq(word)] | [k : "two"] | [k : "scalar"]*)
(* interfaces  Seq([name, mcast : BOOLEAN, bcast : BOOLEAN])               *)
(***************************************************************************)
EXTENDS Integers, Sequences, FiniteSets, TLC

Err == [err |-> TRUE]
DefaultPort(ver) == IF ver = 4 THEN 67 ELSE 547
Wildcard(ver) == IF ver = 4 THEN "0.0.0.0" ELSE "::"

RECURSIVE SelectIfs(_, _, _)
SelectIfs(ifs, ver, i) ==
  IF i > Len(ifs) THEN << >>
  ELSE (IF ifs[i].mcast /\ (ver = 6 \/ ifs[i].bcast) THEN << ifs[i].name >> ELSE << >>) \o SelectIfs(ifs, ver, i + 1)

\* one listen specification -> error, or the listeners it stands for
SpecAddrs(ver, s, ifs) ==
  LET colons == s.ip \in {"v6", "mc6", "v4mapped"}
      fam4   == s.ip \in {"v4", "mc4", "v4mapped"}
      fam6   == s.ip \in {"v6", "mc6"}
  IN
  IF colons /\ ~s.bracket THEN Err                       \* [address] needs brackets when it contains colons
  ELSE IF s.port = -2 THEN Err                           \* unparseable port
  ELSE IF s.ip = "garbage" THEN Err                      \* unparseable address
  ELSE IF (ver = 4 /\ fam6) \/ (ver = 6 /\ fam4) THEN Err  \* wrong family
  ELSE
  LET port == IF s.port = -1 THEN DefaultPort(ver) ELSE s.port
      text == IF s.ip = "none" THEN Wildcard(ver) ELSE s.text
      one(z) == [ip |-> text, port |-> port, zone |-> z]
  IN IF s.ip \in {"mc4", "mc6"} /\ s.zone = ""
     THEN LET names == SelectIfs(ifs, ver, 1) IN            \* link-local multicast without zone: one per suitable interface
          IF names = << >> THEN Err
          ELSE [err |-> FALSE, addrs |-> [i \in 1..Len(names) |-> one(names[i])]]
     ELSE [err |-> FALSE, addrs |-> << one(s.zone) >>]

RECURSIVE ListenAddrs(_, _, _, _)
ListenAddrs(ver, specs, ifs, i) ==
  IF i > Len(specs) THEN [err |-> FALSE, addrs |-> << >>]
  ELSE LET a == SpecAddrs(ver, specs[i], ifs) IN
       IF a.err THEN Err
       ELSE LET rest == ListenAddrs(ver, specs, ifs, i + 1) IN
            IF rest.err THEN Err ELSE [err |-> FALSE, addrs |-> a.addrs \o rest.addrs]

\* no `listen` at all
DefaultListen(ver, ifs) ==
  IF ver = 4 THEN [err |-> FALSE, addrs |-> << [ip |-> "", port |-> 67, zone |-> ""] >>]
  ELSE LET names == SelectIfs(ifs, 6, 1) IN
       IF names = << >> THEN Err
       ELSE [err |-> FALSE, addrs |-> [i \in 1..Len(names) |-> [ip |-> "ff02::1:2", port |-> 547, zone |-> names[i]]]
                                      \o << [ip |-> "ff05::1:3", port |-> 547, zone |-> ""] >>]

Listeners(ver, sec, ifs) ==
  IF sec.iface # "" /\ sec.listen.k # "absent" THEN Err          \* both `listen` and `interface`
  ELSE IF sec.iface # ""
       THEN ListenAddrs(ver, << [ip |-> "none", text |-> "", bracket |-> FALSE, zone |-> sec.iface, port |-> -1] >>, ifs, 1)
  ELSE IF sec.listen.k = "absent" THEN DefaultListen(ver, ifs)
  ELSE ListenAddrs(ver, sec.listen.specs, ifs, 1)

PluginList(sec) ==
  IF sec.plugins.k # "list" \/ Len(sec.plugins.items) = 0 THEN Err      \* missing, empty or non-list plugins section
  ELSE IF \E i \in 1..Len(sec.plugins.items) : sec.plugins.items[i].k # "one" THEN Err   \* an item naming several plugins / no plugin
  ELSE [err |-> FALSE,
        plugins |-> [i \in 1..Len(sec.plugins.items) |-> [name |-> sec.plugins.items[i].name, args |-> sec.plugins.items[i].args]]]

Section(ver, sec, ifs) ==
  IF ~sec.present THEN [err |-> FALSE, present |-> FALSE]
  ELSE LET p == PluginList(sec) IN
       IF p.err THEN Err
       ELSE LET a == Listeners(ver, sec, ifs) IN
            IF a.err THEN Err ELSE [err |-> FALSE, present |-> TRUE, addrs |-> a.addrs, plugins |-> p.plugins]

Load(doc, ifs) ==
  LET r6 == Section(6, doc.s6, ifs)
      r4 == Section(4, doc.s4, ifs)
  IN IF r6.err \/ r4.err THEN Err
     ELSE IF ~r6.present /\ ~r4.present THEN Err             \* neither protocol configured
     ELSE [err |-> FALSE, s4 |-> r4, s6 |-> r6]

----------------------------------------------------------------------------
\* C18, the sentences, about a document and the result r of loading it
C18Says(doc, ifs, r) ==
  LET bad(ver, sec) ==
        sec.present /\
        (\/ sec.plugins.k # "list" \/ (sec.plugins.k = "list" /\ Len(sec.plugins.items) = 0)
         \/ (sec.plugins.k = "list" /\ \E i \in 1..Len(sec.plugins.items) : sec.plugins.items[i].k = "two")
         \/ (sec.iface # "" /\ sec.listen.k # "absent")
         \/ (sec.listen.k # "absent" /\ \E i \in 1..Len(sec.listen.specs) :
               LET s == sec.listen.specs[i] IN
                 \/ s.port = -2 \/ s.ip = "garbage"
                 \/ (ver = 4 /\ s.ip \in {"v6", "mc6"}) \/ (ver = 6 /\ s.ip \in {"v4", "mc4", "v4mapped"})))
  IN
  /\ (bad(4, doc.s4) \/ bad(6, doc.s6)) => r.err
  /\ ~r.err =>
       \A ver \in {4, 6} :
         LET sec == IF ver = 4 THEN doc.s4 ELSE doc.s6
             res == IF ver = 4 THEN r.s4 ELSE r.s6
         IN sec.present =>
              /\ res.present
              /\ Len(res.plugins) = Len(sec.plugins.items)                             \* exactly the listed plugins ...
              /\ \A i \in 1..Len(res.plugins) : /\ res.plugins[i].name = sec.plugins.items[i].name     \* ... in file order
                                                /\ res.plugins[i].args = sec.plugins.items[i].args     \* with their arguments
              /\ \A i \in 1..Len(res.addrs) : res.addrs[i].port \in 0..65535
=============================================================================
