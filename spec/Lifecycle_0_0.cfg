SPECIFICATION Spec
CONSTANTS
  NL = 0
  FailAt = 0
INVARIANTS CleanupOnError AllServing CollectsAll NoListenersNoReturn
PROPERTIES WaitReturns
CHECK_DEADLOCK FALSE
