"""C11 C12 C13 C15 - the dispatch pipeline (spec/Dispatch.tla, DispatchMC.tla, DispatchTrace.tla)."""
import concurrent.futures
import json
import os

from . import core, runner
from .core import Infra


def _rerun(args, family="dispatch"):
    def f(ctx, scenario, out):
        core.run_harness(ctx.need_harness(), [family] + [str(a) for a in args] + ["-out", out], ctx.scratch.dir, timeout=1200)
    return f


def _job(ctx, name, trace, args):
    return runner.TraceJob(name, "DispatchTrace", trace, {"Lens": core.tla_set([ctx.prop])}, chunk=25000, replay=_rerun(args),
                           boundary=lambda e: True, meta={"rerun_args": [str(a) for a in args]})


def produce(ctx, name, base_args, shards):
    h = ctx.need_harness()
    wd = ctx.scratch.sub("dispatch-" + name)
    parts = []
    for i in range(shards):
        a = list(base_args) + (["-shard", i, "-shards", shards] if shards > 1 else [])
        parts.append(a)

    def one(i):
        out = os.path.join(wd, "%s-%02d.ndjson" % (name, i))
        core.run_harness(h, ["dispatch"] + [str(x) for x in parts[i]] + ["-out", out], wd, timeout=1800)
        return out

    with concurrent.futures.ThreadPoolExecutor(max_workers=max(1, shards)) as ex:
        outs = list(ex.map(one, range(len(parts))))
    return list(zip(outs, parts))


def _count(paths, pred):
    n = 0
    for p in paths:
        for line in open(p):
            if pred(json.loads(line)):
                n += 1
    return n


def selftest(ctx, trace, mutate):
    lines = open(trace).read().splitlines()[:5000]
    for i, line in enumerate(lines):
        e = json.loads(line)
        if mutate(e):
            lines[i] = json.dumps(e)
            wd = ctx.scratch.sub("selftest")
            p = os.path.join(wd, "corrupt.ndjson")
            open(p, "w").write("\n".join(lines[:i + 5]) + "\n")
            r = core.validate_trace(os.path.join(wd, "tlc"), "DispatchTrace", p, {"Lens": core.tla_set([ctx.prop])})
            if r["accepted"] or r["reject_line"] != i + 1:
                raise Infra("binding self-test failed: corrupted line %d not rejected (%s)" % (i + 1, r["reject_line"]))
            return {"corrupted_line": i + 1, "rejected_at": r["reject_line"]}
    return {"skipped": "no suitable line"}


def check(ctx):
    prop = ctx.prop
    full = [] if ctx.quick else ["-full"]
    shards = 8
    paths, extra = [], {}
    if prop == "C11":
        ctx.design("DispatchMC.tla", "DispatchMC_d4.cfg")
        for o, a in produce(ctx, "d4", ["-mode", "d4", "-seed", ctx.seed] + full, shards):
            runner.run_job(ctx, _job(ctx, "d4", o, a))
            paths.append(o)
        # whole DHCPv4 chains of real plugins (Conv): OFFER for DISCOVER, ACK/NAK for REQUEST, whatever address the client asks for
        from . import fam_conv
        extra.update(fam_conv.run(ctx, design=False))
        extra["replies"] = _count(paths, lambda e: e["ev"] == "d4" and e["out"]["sent"])
        extra["non_requests"] = _count(paths, lambda e: e["ev"] == "d4" and (e["in"]["op"] != 1 or e["in"]["mt"] not in (1, 3)))
        extra["unparseable"] = _count(paths, lambda e: e["ev"] == "d4" and not e["parsed"])

        def mut(e):
            if e["ev"] == "d4" and e["out"]["sent"]:
                e["out"]["eqxid"] = False
                return True
            return False
        nontriv = extra["replies"]
        rule = ("every (opcode 0..255, message type absent/0..255, parses or not, giaddr set or not, chain result) of the tier's product as a concrete "
                "datagram with all other fields randomised, fed as bytes to HandleMsg4; distinct_nontrivial = datagrams that were answered")
    elif prop == "C15":
        ctx.design("DispatchMC.tla", "DispatchMC_d4.cfg")
        reps = 3 if ctx.quick else 200
        for o, a in produce(ctx, "d4addr", ["-mode", "d4addr", "-seed", ctx.seed, "-reps", reps], 1):
            runner.run_job(ctx, _job(ctx, "d4addr", o, a))
            paths.append(o)
        # on the listener that the real server.Start makes for a plain unicast address of this host (unbound): replies are
        # pinned to the ARRIVAL interface (loopback for what this host sends to itself), not to the one that carries the address
        pargs = ["-mode", "pinning", "-seed", ctx.seed]
        pt = os.path.join(ctx.scratch.sub("pinning"), "pinning.ndjson")
        core.run_harness(ctx.need_harness(), ["lifecycle"] + [str(a) for a in pargs] + ["-out", pt], ctx.scratch.dir, timeout=600)
        runner.run_job(ctx, runner.TraceJob("pinning", "LifecycleTrace", pt, {"Lens": core.tla_set(["C15"])}, replay=_rerun(pargs, "lifecycle"),
                                            boundary=lambda e: False, meta={"rerun_args": [str(a) for a in pargs], "family": "lifecycle", "module": "LifecycleTrace"}))
        extra["start_listener_replies_checked"] = _count([pt], lambda e: e["ev"] == "pin4" and e["sent"])
        extra["start_listener_on_other_interface_than_arrival"] = _count([pt], lambda e: e["ev"] == "pin4" and e["sent"] and e["listenif"] != e["arrived"])
        extra["replies"] = _count(paths, lambda e: e["ev"] == "d4" and e["out"]["sent"])
        extra["l2_replies"] = _count(paths, lambda e: e["ev"] == "d4" and e["out"]["l2"])
        extra["l2_frames_checked"] = _count(paths, lambda e: e["ev"] == "d4" and e["out"]["frame"])
        extra["l2_frame_checked"] = extra["l2_frames_checked"] > 0

        def mut(e):
            if e["ev"] == "d4" and e["out"]["sent"] and e["out"]["port"] == 68:
                e["out"]["port"] = 67
                return True
            return False
        nontriv = extra["replies"]
        rule = ("the whole addressing product giaddr/ciaddr class (zero, routable, link-local, broadcast) x broadcast flag x DISCOVER/REQUEST x "
                "OFFER/ACK/NAK/nil x yiaddr assigned or not x listener bound / unbound x arrival interface, x %d seeds of the other fields; "
                "link-level replies run through sendEthernet up to the frame hook on an interface with a hardware address" % reps)
    elif prop == "C12":
        ctx.design("DispatchMC.tla", "DispatchMC_d6.cfg")
        for o, a in produce(ctx, "d6", ["-mode", "d6", "-seed", ctx.seed] + full, shards):
            runner.run_job(ctx, _job(ctx, "d6", o, a))
            paths.append(o)
        # the real receive loop under a burst of clients (real sockets): every reply goes back to ITS source address and port
        from . import fam_life
        extra.update(fam_life.sockets_job(ctx)[1])
        # whole DHCPv6 chains of real plugins (Conv6): ADVERTISE for SOLICIT, REPLY otherwise, nothing for DECLINE
        from . import fam_conv
        extra.update(fam_conv.run6(ctx))
        extra["replies"] = _count(paths, lambda e: e["ev"] == "d6" and e["out"]["sent"])
        extra["relayed_replies"] = _count(paths, lambda e: e["ev"] == "d6" and e["out"]["sent"] and e["in"]["depth"] > 0)

        def mut(e):
            if e["ev"] == "d6" and e["out"]["sent"] and e["in"]["depth"] > 0:
                e["out"]["mirror"] = False
                return True
            return False
        nontriv = extra["relayed_replies"]
        rule = ("type byte 0..255 x client-id present/absent x rapid commit x relay depth 0..4 (Relay-Forward or Relay-Reply layers, random per-layer "
                "addresses and Interface-IDs) x global/link-local source x bound/unbound listener x chain result, fed as bytes to HandleMsg6; "
                "distinct_nontrivial = relayed datagrams that were answered")
    elif prop == "C13":
        ctx.design("DispatchMC.tla", "DispatchMC_chain.cfg" if ctx.quick else "DispatchMC_chain6.cfg")
        ctx.design("DispatchMC.tla", "DispatchMC_load.cfg")
        for o, a in produce(ctx, "chain", ["-mode", "chain", "-seed", ctx.seed, "-maxlen", 5 if ctx.quick else 6], 1):
            runner.run_job(ctx, _job(ctx, "chain", o, a))
            paths.append(o)
        # the same chains (up to 3 / 4 handlers) with the server's log level at debug: what is logged changes nothing
        for o, a in produce(ctx, "chain-debug", ["-mode", "chain", "-seed", ctx.seed + 5, "-maxlen", 3 if ctx.quick else 4, "-loglevel=debug"], 1):
            runner.run_job(ctx, _job(ctx, "chain-debug", o, a))
            paths.append(o)
        for o, a in produce(ctx, "load", ["-mode", "load", "-seed", ctx.seed, "-maxlen", 3 if ctx.quick else 4], 1):
            runner.run_job(ctx, _job(ctx, "load", o, a))
            paths.append(o)
        for o, a in produce(ctx, "d4", ["-mode", "d4", "-seed", ctx.seed + 1], shards):
            runner.run_job(ctx, _job(ctx, "d4", o, a))
            paths.append(o)
        # C13 at start-up, on the real server.Start with real sockets: requests that arrive while the plugins are being set up
        # are answered by the configured chain or not at all, and a configuration whose setup fails never answers
        # (Lifecycle!Load before Open: NeverServesBare, FailedLoadNeverListened; the weakened design BindFirst must fail)
        ctx.design("Lifecycle.tla", "Lifecycle_2_0.cfg", workers=2)
        ctx.design("Lifecycle.tla", "Lifecycle_2_0_loadfails.cfg", workers=2)
        if not ctx.quick:
            ctx.design("Lifecycle.tla", "Lifecycle_2_0_bindfirst.cfg", expect_fail="NeverServesBare")
            ctx.design("Lifecycle.tla", "Lifecycle_2_0_bindfirst_loadfails.cfg", expect_fail="FailedLoadNeverListened")
        sargs = ["-mode", "startrace", "-seed", ctx.seed]
        sr = os.path.join(ctx.scratch.sub("startrace"), "startrace.ndjson")
        core.run_harness(ctx.need_harness(), ["lifecycle"] + [str(a) for a in sargs] + ["-out", sr], ctx.scratch.dir, timeout=600)
        if _count([sr], lambda e: e["ev"] == "startrace") == 0:
            raise Infra("the start-up race run produced no observation (no loopback socket on ::1?)")
        runner.run_job(ctx, runner.TraceJob("startrace", "LifecycleTrace", sr, {"Lens": core.tla_set(["C13"])}, replay=_rerun(sargs, "lifecycle"),
                                            boundary=lambda e: False, meta={"rerun_args": [str(a) for a in sargs], "family": "lifecycle", "module": "LifecycleTrace"}))
        extra["startup_race_rounds"] = _count([sr], lambda e: e["ev"] == "startrace")
        extra["startup_race_replies_checked"] = sum(json.loads(line).get("replies", 0) for line in open(sr))
        # last sentence of C13: built-in handlers only ever return nil together with stop
        from . import fam_plugins
        pa = ["-mode", "table", "-seed", ctx.seed]
        pt = fam_plugins.produce(ctx, "table", pa)
        runner.run_job(ctx, runner.TraceJob("builtin-nil-stop", "PluginsTrace", pt, {"Lens": core.tla_set(["C13"]), "Dev": core.tla_set([])},
                                            chunk=30000, replay=fam_plugins._rerun(pa), boundary=lambda e: True))
        extra["builtin_handler_calls"] = _count([pt], lambda e: e["ev"] == "h")
        extra["builtin_nil_results"] = _count([pt], lambda e: e["ev"] == "h" and e["obs"]["nil"])
        extra["chains"] = _count(paths, lambda e: e["ev"] == "chain")
        extra["chains_stopped_early"] = _count(paths, lambda e: e["ev"] == "chain" and len(e["invoked"]) < len(e["bs"]))
        extra["loads"] = _count(paths, lambda e: e["ev"] == "load")
        extra["loads_aborted"] = _count(paths, lambda e: e["ev"] == "load" and e["err"])

        def mut(e):
            if e["ev"] == "chain" and len(e["invoked"]) >= 2:
                e["invoked"] = e["invoked"][:-1]
                e["saw"] = e["saw"][:-1]
                return True
            return False
        nontriv = extra["chains_stopped_early"]
        rule = ("all chains of 0..%d synthetic plugins (pass, modify, replace, stop, stop-with-nil, nil-without-stop) for both protocols, and the chains of 0..%d again at log level debug, registered through "
                "plugins.RegisterPlugin, loaded through plugins.LoadPlugins and driven through HandleMsg4/6; all plugin-kind lists (v4-only, v6-only, dual, "
                "unknown, failing, nil handler) of the tier's length through LoadPlugins; server.Start with a slow (and a slow, failing) plugin setup under a "
                "stream of SOLICITs over a real socket; distinct_nontrivial = chains that stopped before their last handler") % ((5, 3) if ctx.quick else (6, 4))
    else:
        raise Infra("unknown property " + prop)
    extra["binding_selftest"] = selftest(ctx, paths[0], mut) if not ctx.violations else {"skipped": "violations reported"}
    ctx.trusted += ["harness/dispatch.go: datagram construction from the abstract input (codec ToBytes; raw bytes for the unparseable cases), the harness's own "
                    "FromBytes of what it sent, field comparison of the captured reply, gopacket decoding of the captured frame", "the server send/frame hooks",
                    "TLC evaluation of DispatchTrace guards"]
    ctx.assumptions += ["an unbound listener receives a control message with a non-zero interface index (listen4/listen6 enable it)",
                        "a NAK is only produced for a REQUEST (no built-in plugin produces one)",
                        "link-level frame content is checked only when the sandbox has an interface with a 6-byte hardware address (coverage key l2_frame_checked)"]
    return runner.finish(ctx, rule=rule, extra_cov=extra, distinct_nontrivial=nontriv, exhaustive=not ctx.quick or prop in ("C15", "C13"))


def replay(ctx, path):
    meta = json.load(open(os.path.join(path, "meta.json")))
    if meta.get("family") == "conv6":
        from . import fam_conv
        return fam_conv.replay6(ctx, path)
    if meta.get("family") == "lifecycle" and meta.get("job") == "sockets":
        def relife(ctx2, scenario, out):
            core.run_harness(ctx2.need_harness(), ["lifecycle", "-seed", meta.get("seed", 1), "-out", out], ctx2.scratch.sub("relife"), timeout=600)
        return runner.replay_dir(ctx, path, runner.TraceJob("replay", "LifecycleTrace", None, {"Lens": core.tla_set([ctx.prop])}, replay=relife, boundary=lambda e: False))
    if meta.get("family") == "conv":
        from . import fam_conv
        return fam_conv.replay(ctx, path)
    args = meta.get("rerun_args")
    if not args:
        raise Infra("replay meta has no rerun_args")
    j = runner.TraceJob("replay", meta.get("module", "DispatchTrace"), None, {"Lens": core.tla_set([ctx.prop])},
                        replay=_rerun(args, meta.get("family", "dispatch")), boundary=lambda e: True)
    return runner.replay_dir(ctx, path, j)
