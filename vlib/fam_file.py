"""C10 - static lease file plugin (spec/StaticFile.tla, FileTrace.tla)."""
import concurrent.futures
import json
import os

from . import core, runner
from .core import Infra


def _rerun(args):
    def f(ctx, scenario, out):
        d = ctx.scratch.sub("filedir")
        core.run_harness(ctx.need_harness(), ["file"] + [str(a) for a in args] + ["-out", out, "-dir", d], ctx.scratch.dir, timeout=600)
    return f


def _job(ctx, name, trace, args, lens=None):
    return runner.TraceJob(name, "FileTrace", trace, {"Lens": core.tla_set(lens or [ctx.prop])}, chunk=20000, replay=_rerun(args),
                           meta={"rerun_args": [str(a) for a in args]})


def run_parts(ctx, name, parts, parallel):
    """parts: list of harness arg lists, each run in its own process (autorefresh instances hold an
    inotify instance for the life of the process, and only 128 exist per user)."""
    h = ctx.need_harness()
    wd = ctx.scratch.sub("file-" + name)

    def one(i):
        out = os.path.join(wd, "part%03d.ndjson" % i)
        d = os.path.join(wd, "d%03d" % i)
        os.makedirs(d)
        core.run_harness(h, ["file"] + [str(a) for a in parts[i]] + ["-out", out, "-dir", d], wd, timeout=900)
        return out

    with concurrent.futures.ThreadPoolExecutor(max_workers=parallel) as ex:
        outs = list(ex.map(one, range(len(parts))))
    return outs


def _stats(paths):
    st = {"scenarios": 0, "setups_ok": 0, "setups_rejected": 0, "steps": 0, "reloads_ok": 0, "reloads_refused": 0, "noreload": 0,
          "queries": 0, "hits": 0, "dual_stack_scenarios": 0, "auto_scenarios": 0, "line_kinds": set(), "distinct_files": set()}
    protos, auto = set(), False
    for p in paths:
        for line in open(p):
            e = json.loads(line)
            ev = e["ev"]
            if ev == "reset":
                st["scenarios"] += 1
                if len(protos) == 2:
                    st["dual_stack_scenarios"] += 1
                if auto:
                    st["auto_scenarios"] += 1
                protos, auto = set(), False
            elif ev == "setup":
                st["setups_ok" if e["res"] == "ok" else "setups_rejected"] += 1
                protos.add(e["p"])
                auto = auto or e["auto"]
                st["distinct_files"].add((e["p"], json.dumps(e["file"])))
                for ln in e["file"]:
                    st["line_kinds"].add(ln["k"])
            elif ev == "step":
                st["steps"] += 1
            elif ev == "reload":
                st["reloads_ok" if e["res"] == "ok" else "reloads_refused"] += 1
            elif ev == "noreload":
                st["noreload"] += 1
            elif ev in ("q4", "q6"):
                st["queries"] += 1
                if e["res"] == "hit":
                    st["hits"] += 1
    if len(protos) == 2:
        st["dual_stack_scenarios"] += 1
    if auto:
        st["auto_scenarios"] += 1
    st["line_kinds"] = sorted(st["line_kinds"])
    st["distinct_files"] = len(st["distinct_files"])
    return st


def selftest(ctx, trace):
    lines = open(trace).read().splitlines()[:3000]
    for i, line in enumerate(lines):
        e = json.loads(line)
        if e["ev"] == "q4" and e["res"] == "hit":
            e["addr"] = 1 - e["addr"] if e["addr"] in (0, 1) else 0
            lines[i] = json.dumps(e)
            wd = ctx.scratch.sub("selftest")
            p = os.path.join(wd, "corrupt.ndjson")
            open(p, "w").write("\n".join(lines[:i + 10]) + "\n")
            r = core.validate_trace(os.path.join(wd, "tlc"), "FileTrace", p, {"Lens": core.tla_set([ctx.prop])})
            if r["accepted"] or r["reject_line"] != i + 1:
                raise Infra("binding self-test failed: corrupted line %d not rejected (%s)" % (i + 1, r["reject_line"]))
            return {"corrupted_line": i + 1, "rejected_at": r["reject_line"]}
    return {"skipped": "no suitable line"}


def check(ctx):
    ctx.design("StaticFile.tla", "StaticFile.cfg", workers=8)
    paths = []
    shards = 8
    lines = 3
    # (A) every file of <= 3 lines over the 12-letter alphabet, both protocols, served mapping read back
    parts = [["-mode", "parse", "-lines", lines, "-seed", ctx.seed, "-shard", i, "-shards", shards] for i in range(shards)]
    outs = run_parts(ctx, "parse", parts, shards)
    for o, a in zip(outs, parts):
        runner.run_job(ctx, _job(ctx, "parse", o, a))
        paths.append(o)
    # (B) dual stack, static
    n = 60 if ctx.quick else 600
    a = ["-mode", "dual", "-count", n, "-seed", ctx.seed]
    outs = run_parts(ctx, "dual", [a], 1)
    runner.run_job(ctx, _job(ctx, "dual", outs[0], a))
    paths += outs
    # (C) autorefresh edit sequences; 12 scenarios (<= 24 inotify instances) per process, 4 processes at a time
    nproc = 8 if ctx.quick else 40
    parts = [["-mode", "auto", "-count", 12, "-seed", ctx.seed * 100 + i] for i in range(nproc)]
    outs = run_parts(ctx, "auto", parts, 4)
    for o, a in zip(outs, parts):
        runner.run_job(ctx, _job(ctx, "auto", o, a))
        paths.append(o)
    # (C2) the configured name is a symbolic link: in-place updates through it, then one update published by re-pointing the
    # link and deleting the old generation (the way configuration managers publish a file)
    la = ["-mode", "link", "-count", 12 if ctx.quick else 48, "-seed", ctx.seed]
    louts = run_parts(ctx, "link", [la], 1)
    runner.run_job(ctx, _job(ctx, "link", louts[0], la))
    paths += louts
    # (D) two generations in quick succession: a big table, and a small one while the big one is still being parsed
    ga = ["-mode", "gen2", "-count", 1 if ctx.quick else 4]
    gouts = run_parts(ctx, "gen2", [ga], 1)
    runner.run_job(ctx, _job(ctx, "gen2", gouts[0], ga))
    st = _stats(paths)
    st["overlapping_generations_settled"] = sum(1 for line in open(gouts[0]) if '"ev":"gen2"' in line)
    # in composition: a listed client is answered with its address by the file plugin, which ENDS the chain (whole chains, Conv)
    from . import fam_conv
    st.update(fam_conv.run(ctx))
    st.update(fam_conv.run6(ctx))
    st["binding_selftest"] = selftest(ctx, paths[0]) if not ctx.violations else {"skipped": "violations reported"}
    ctx.trusted += ["harness/file.go: rendering of abstract lines to text (seeded MAC/IP spellings), single-syscall edits, "
                    "reading the served mapping back through the handlers, address -> id", "fsnotify delivering one event per write syscall",
                    "TLC evaluation of FileTrace guards"]
    ctx.assumptions += ["updates are in-place single-syscall writes (truncate, append, pwrite); rename-over is outside the property's wording",
                        "the harness waits for the watcher's reload (observation point) after every step: the trace is quiescent between steps",
                        "'eventually' = a reload within 20 s of a changed file (2 s once a process has missed one)"]
    return runner.finish(
        ctx,
        rule="all lease files of <= 3 lines over {blank, comment, ok(m,a) x 2x2, whitespace-only, 1 field, 3 fields, bad MAC, bad IP, wrong family} for both "
             "protocols loaded through Setup4/Setup6 and read back through the handlers (every client id + an unlisted one; DHCPv6 with/without IA_NA); "
             "dual-stack set-ups in both orders; autorefresh sequences of truncate/append/overwrite steps with good and malformed contents, v4-only, "
             "v6-only and dual stack; distinct_nontrivial = distinct (protocol, file) contents set up",
        extra_cov=st, distinct_nontrivial=st["distinct_files"], exhaustive=False)


def replay(ctx, path):
    meta = json.load(open(os.path.join(path, "meta.json")))
    if meta.get("family") == "conv6":
        from . import fam_conv
        return fam_conv.replay6(ctx, path)
    if meta.get("family") == "conv":
        from . import fam_conv
        return fam_conv.replay(ctx, path)
    j = runner.TraceJob("replay", "FileTrace", None, {"Lens": core.tla_set([ctx.prop])}, replay=_rerun(meta.get("rerun_args", ["-mode", "dual", "-count", 60])))
    return runner.replay_dir(ctx, path, j)
