"""C02 C03 - DHCPv4 range plugin (spec/RangeLease.tla, RangeTrace.tla)."""
import concurrent.futures
import json
import os

from . import core, runner
from .core import Infra


def _replay(ctx, scenario, out):
    d = ctx.scratch.sub("rangedb")
    core.run_harness(ctx.need_harness(), ["range", "-replay", scenario, "-out", out, "-dir", d], ctx.scratch.dir)


def _rerun(args):
    def f(ctx, scenario, out):
        d = ctx.scratch.sub("rangedb")
        core.run_harness(ctx.need_harness(), ["range"] + args + ["-out", out, "-dir", d], ctx.scratch.dir)
    return f


def _job(ctx, name, trace, replay, lens=None):
    return runner.TraceJob(name, "RangeTrace", trace, {"Lens": core.tla_set(lens or [ctx.prop])}, chunk=20000, replay=replay,
                           attempts=6)     # behaviour that depends on the wall clock (which half of a second) needs several re-executions to show again


def sharded(ctx, name, args, shards, scenarios=None, per_process=2500):
    """Run the harness in `shards` processes (the plugin never closes its database handle, so the
    set-ups are spread over processes: at most per_process scenarios each) and concatenate the traces."""
    h = ctx.need_harness()
    wd = ctx.scratch.sub("range-" + name)
    par = shards
    if scenarios:
        shards = max(shards, -(-scenarios // per_process))

    def one(i):
        out = os.path.join(wd, "shard%02d.ndjson" % i)
        d = os.path.join(wd, "db%02d" % i)
        os.makedirs(d)
        core.run_harness(h, ["range"] + args + ["-shard", i, "-shards", shards, "-out", out, "-dir", d], wd, timeout=3000)
        return out

    with concurrent.futures.ThreadPoolExecutor(max_workers=par) as ex:
        outs = list(ex.map(one, range(shards)))
    trace = os.path.join(wd, name + ".ndjson")
    with open(trace, "w") as f:
        for o in outs:
            with open(o) as g:
                for line in g:
                    f.write(line)
            os.remove(o)
    return trace


def _stats(paths):
    st = {"scenarios": 0, "requests": 0, "replies": 0, "drops_when_full": 0, "renewals": 0, "restarts": 0, "probes": 0,
          "probes_with_bindings": 0, "ticks": 0, "maclens": set(), "hosts": set(), "exhausted_scenarios": 0, "max_N": 0,
          "restarts_with_leases": 0}
    bound, exhausted = set(), False
    for p in paths:
        for line in open(p):
            e = json.loads(line)
            ev = e["ev"]
            if ev == "reset":
                st["scenarios"] += 1
                st["max_N"] = max(st["max_N"], e["N"])
                if exhausted:
                    st["exhausted_scenarios"] += 1
                bound, exhausted = set(), False
            elif ev == "req":
                st["requests"] += 1
                st["maclens"].add(e["maclen"])
                st["hosts"].add(e["host"])
                if e["res"] == "reply":
                    st["replies"] += 1
                    if e["mac"] in bound:
                        st["renewals"] += 1
                    bound.add(e["mac"])
                elif e["res"] == "drop":
                    st["drops_when_full"] += 1
                    exhausted = True
            elif ev == "setup" and e["restart"]:
                st["restarts"] += 1
                if bound:
                    st["restarts_with_leases"] += 1
            elif ev == "probe":
                st["probes"] += 1
                if e["rows"]:
                    st["probes_with_bindings"] += 1
            elif ev == "tick":
                st["ticks"] += 1
    if exhausted:
        st["exhausted_scenarios"] += 1
    st["maclens"] = sorted(st["maclens"])
    st["hosts"] = sorted(st["hosts"])
    return st


def selftest(ctx, trace):
    lines = open(trace).read().splitlines()[:4000]
    for i, line in enumerate(lines):
        e = json.loads(line)
        hit = False
        if ctx.prop == "C02" and e["ev"] == "req" and e["res"] == "reply":
            # renewals must be sticky: corrupt the address of a renewal
            prev = [json.loads(x) for x in lines[:i]]
            seen = False
            for p in reversed(prev):
                if p["ev"] == "reset":
                    break
                if p["ev"] == "req" and p["res"] == "reply" and p["mac"] == e["mac"]:
                    seen = True
            if seen:
                e["idx"] = (e["idx"] + 1) % 2
                hit = True
        elif ctx.prop == "C03" and e["ev"] == "probe" and e["rows"]:
            e["rows"] = e["rows"][1:]   # a lost row
            hit = True
        if hit:
            lines[i] = json.dumps(e)
            wd = ctx.scratch.sub("selftest")
            p = os.path.join(wd, "corrupt.ndjson")
            open(p, "w").write("\n".join(lines[:i + 50]) + "\n")
            r = core.validate_trace(os.path.join(wd, "tlc"), "RangeTrace", p, {"Lens": core.tla_set([ctx.prop])})
            if r["accepted"] or r["reject_line"] != i + 1:
                raise Infra("binding self-test failed: corrupted line %d not rejected (%s)" % (i + 1, r["reject_line"]))
            return {"corrupted_line": i + 1, "rejected_at": r["reject_line"]}
    return {"skipped": "no suitable line"}


def check(ctx):
    prop = ctx.prop
    ctx.design("RangeLease.tla", "RangeLease.cfg")
    if not ctx.quick:
        ctx.proof("RangeLeaseProof")     # every number of clients / addresses / restarts: unique, sticky, table restores what was replied (design only)
    probe = ["-probe"] if prop == "C03" else []
    shards = min(core.NCPU - 2, 14)
    paths = []
    if ctx.quick:
        depth = 4 if prop == "C03" else 5
        t = sharded(ctx, "bfs", ["-mode", "bfs", "-depth", depth, "-macs", 3, "-n", 2, "-seed", ctx.seed] + probe, shards,
                    scenarios=7 ** depth, per_process=800 if probe else 2500)
        runner.run_job(ctx, _job(ctx, "bfs", t, _replay))
        paths.append(t)
        t = sharded(ctx, "sim", ["-mode", "sim", "-count", 36, "-ticks", "-seed", ctx.seed] + probe, 6)
        runner.run_job(ctx, _job(ctx, "sim", t, _replay))
        paths.append(t)
    else:
        depth = 5 if prop == "C03" else 6
        t = sharded(ctx, "bfs", ["-mode", "bfs", "-depth", depth, "-macs", 3, "-n", 2, "-seed", ctx.seed] + probe, shards,
                    scenarios=7 ** depth, per_process=800 if probe else 2500)
        runner.run_job(ctx, _job(ctx, "bfs", t, _replay))
        paths.append(t)
        t = sharded(ctx, "bfs3", ["-mode", "bfs", "-depth", 4, "-macs", 4, "-n", 3, "-seed", ctx.seed + 1] + probe, shards,
                    scenarios=9 ** 4, per_process=800 if probe else 2500)
        runner.run_job(ctx, _job(ctx, "bfs3", t, _replay))
        paths.append(t)
        t = sharded(ctx, "sim", ["-mode", "sim", "-count", 300, "-ticks", "-seed", ctx.seed] + probe, shards, scenarios=300, per_process=12)
        runner.run_job(ctx, _job(ctx, "sim", t, _replay))
        paths.append(t)
    # model -> code: behaviours simulated by TLC from RangeGen.tla, replayed on the real plugin
    scns = core.simulate_scenarios(ctx.scratch, "RangeGen", "RangeGen.cfg", 80 if ctx.quick else 1500, 60, ctx.seed)
    if len(scns) < 5:
        raise Infra("TLC simulation produced only %d behaviours" % len(scns))
    wd = ctx.scratch.sub("range-letters")
    jf = os.path.join(wd, "behaviours.json")
    json.dump(scns, open(jf, "w"))
    t = sharded(ctx, "letters", ["-mode", "letters", "-in", jf, "-n", 3, "-seed", ctx.seed] + probe, shards, scenarios=len(scns), per_process=150)
    runner.run_job(ctx, _job(ctx, "letters", t, _replay))
    paths.append(t)
    # histories with a window in which the lease database cannot be written (somebody else's write transaction): what
    # was handed out before and AFTER the window is restored by a restart; bindings made inside the window are exempt
    fargs = ["-mode", "fault", "-count", 30 if ctx.quick else 400, "-seed", ctx.seed]
    wd = ctx.scratch.sub("range-fault")
    ft = os.path.join(wd, "fault.ndjson")
    core.run_harness(ctx.need_harness(), ["range"] + [str(a) for a in fargs] + ["-out", ft, "-dir", wd], wd, timeout=1200)
    runner.run_job(ctx, _job(ctx, "fault", ft, _rerun([str(a) for a in fargs])))
    paths.append(ft)
    # leases that expire (1 s) before a restart: still bindings, restored, their addresses nobody else's
    eargs = ["-mode", "expiry", "-count", 1 if ctx.quick else 2, "-seed", ctx.seed]
    et = os.path.join(ctx.scratch.sub("range-expiry"), "expiry.ndjson")
    core.run_harness(ctx.need_harness(), ["range"] + [str(a) for a in eargs] + ["-out", et, "-dir", os.path.dirname(et)], os.path.dirname(et), timeout=600)
    runner.run_job(ctx, _job(ctx, "expiry", et, _rerun([str(a) for a in eargs])))
    paths.append(et)
    st = _stats(paths)
    # vacuity guard: the window must really have made writes fail (a binding handed out inside it is missing from the
    # rows of the first crash point after it, on the code as it is)
    lost, window = 0, None
    for line in open(ft):
        e = json.loads(line)
        if e["ev"] == "reset":
            window, inside = None, set()
        elif e["ev"] == "fault":
            window = e["on"]
            if e["on"]:
                inside = set()
        elif e["ev"] == "req" and window and e["res"] == "reply":
            inside.add(e["mac"])
        elif e["ev"] == "req" and window and e["res"] == "drop":
            lost += 1      # refusing to answer while the store cannot be written is a visible effect of the window too
        elif e["ev"] == "probe" and window is False and inside:
            rows = {r["m"] for r in e["rows"]}
            lost += len([m for m in inside if m not in rows])
            inside = set()
    st["fault_windows_bindings_not_persisted"] = lost
    if lost == 0 and not ctx.violations:
        raise Infra("the storage-fault window never made a lease write fail: the fault scenarios are vacuous")
    st["tlc_generated_behaviours_replayed"] = len(scns)
    if prop == "C02":
        # in composition (whole chains, Conv): dynamic clients behind server_id / file / option plugins
        from . import fam_conv
        st.update(fam_conv.run(ctx))
        h = ctx.need_harness()
        wd = ctx.scratch.sub("range-conc")
        t = os.path.join(wd, "probe.ndjson")
        core.run_harness(h, ["range", "-mode", "probe", "-out", t, "-dir", wd], wd)
        pj = _job(ctx, "probe", t, _rerun(["-mode", "probe"]))
        runner.run_job(ctx, pj)
        runner.run_disc(ctx, pj)
        rounds = 4 if ctx.quick else 40
        args = ["-mode", "conc", "-rounds", rounds, "-seed", ctx.seed]
        t = os.path.join(wd, "conc.ndjson")
        core.run_harness(h, ["range"] + args + ["-out", t, "-dir", wd], wd)
        cj = _job(ctx, "conc", t, _rerun(args))
        runner.run_job(ctx, cj)
        runner.run_disc(ctx, cj)
        st["concurrent_rounds_16_goroutines"] = rounds
        st["exclusion_probes"] = 2
    st["binding_selftest"] = selftest(ctx, paths[0]) if not ctx.violations else {"skipped": "violations reported"}
    ctx.trusted += ["harness/range.go: request construction through the codec (ToBytes/FromBytes), yiaddr -> index, option 51 decoding, "
                    "lenient parser for the stored mac column used only to attribute rows to client ids", "TLC evaluation of RangeTrace guards"]
    ctx.assumptions += ["lease times are whole seconds", "the database is copied at quiescent points (between handler calls)",
                        "hardware addresses of length 0,1,2,5,6,7,8,16; hostname classes none/ascii/007/1e3/NUL/invalid UTF-8/255 bytes/SQL text"]
    nontriv = st["renewals"] + st["drops_when_full"] if prop == "C02" else st["probes_with_bindings"]
    return runner.finish(
        ctx,
        rule="every request history of the tier's depth over {DISCOVER,REQUEST} x 3 clients + restart on a 2-address range "
             "(so exhaustion and a third client are reachable), plus seeded depth-16+ histories on ranges of 2,3,5,63,64,65 addresses "
             "(some ending at 255.255.255.255) with restarts and 2.1 s ticks; C03 additionally takes EVERY prefix as a crash point "
             "(database copied, fresh Setup4 on the copy, all clients re-queried, remaining capacity counted, rows read); histories with one "
             "window of a foreign write transaction on the database (transient storage fault), crash points before and after it; "
             "distinct_nontrivial = " + ("renewals + drops at exhaustion" if prop == "C02" else "crash points with at least one binding"),
        extra_cov=st, distinct_nontrivial=nontriv, exhaustive=False)


def replay(ctx, path):
    meta = json.load(open(os.path.join(path, "meta.json")))
    if meta.get("family") == "conv":
        from . import fam_conv
        return fam_conv.replay(ctx, path)
    if meta.get("job") == "expiry":
        j = _job(ctx, "replay", None, _rerun(["-mode", "expiry", "-count", 2, "-seed", str(meta.get("seed", 1))]))
    elif meta.get("job") == "fault":
        j = _job(ctx, "replay", None, _rerun(["-mode", "fault", "-count", 30, "-seed", str(meta.get("seed", 1))]))
    elif meta.get("job") == "probe":
        j = _job(ctx, "replay", None, _rerun(["-mode", "probe"]))
    elif meta.get("job") == "conc":
        j = _job(ctx, "replay", None, _rerun(["-mode", "conc", "-rounds", 4, "-seed", meta.get("seed", 1)]))
    else:
        j = _job(ctx, "replay", None, _replay)
    return runner.replay_dir(ctx, path, j)
