"""Real-socket runs of the lifecycle harness (server.Start on loopback), validated with LifecycleTrace under the lens of the
property that calls it: C01 (hostile datagrams, bursts), C12 (a burst: every reply goes back to ITS source), C16 (a burst: the
replies are those of some one-at-a-time order)."""
import os

from . import core, runner
from .core import Infra


def sockets_job(ctx, name="sockets"):
    wd = ctx.scratch.sub("lifecycle-" + name)
    lt = os.path.join(wd, "life.ndjson")

    def relife(ctx2, scenario, out):
        core.run_harness(ctx2.need_harness(), ["lifecycle", "-seed", ctx2.seed, "-out", out], ctx2.scratch.sub("relife"), timeout=600)

    core.run_harness(ctx.need_harness(), ["lifecycle", "-seed", ctx.seed, "-out", lt], wd, timeout=600)
    n_dgs = sum(1 for line in open(lt) if '"ev":"dgs"' in line)
    n_burst = sum(1 for line in open(lt) if '"ev":"burst"' in line)
    unanswered = sum(1 for line in open(lt) if '"ev":"dgs"' in line and '"res":"reply"' not in line)
    if n_dgs == 0 or (n_burst == 0 and unanswered == 0):
        raise Infra("the real-socket run delivered no datagram / no burst (no loopback sockets?)")
    runner.run_job(ctx, runner.TraceJob(name, "LifecycleTrace", lt, {"Lens": core.tla_set([ctx.prop])}, boundary=lambda e: False, replay=relife, attempts=4,
                                        meta={"family": "lifecycle"}))
    return lt, {"datagrams_over_real_sockets": n_dgs, "bursts_over_real_sockets": n_burst}
