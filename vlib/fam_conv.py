"""Whole DHCPv4 chains (spec/Conv.tla, ConvCore.tla, ConvMC.tla, ConvTrace.tla): the composition of file, range, server_id,
lease_time and the option plugins, driven as conversations through LoadPlugins + HandleMsg4.  Not a listed property of its own:
each of C02 C10 C14 C17 validates the recording under ITS lens (the sentences of that property, in composition); lens CONV (the
whole composition) is a drift detector."""
import concurrent.futures
import json
import os

from . import core, runner
from .core import Infra

CHAINS = 8
DESIGN = [("Conv_typical.cfg", None), ("Conv_filefirst.cfg", None), ("Conv_filebeforesid.cfg", None), ("Conv_rangefirst.cfg", None),
          ("Conv_nostatic.cfg", None), ("Conv_nolease.cfg", None)]
WEAK = [("Conv_staticinside.cfg", "NoSharedAddress"), ("Conv_rangefirst_leak.cfg", "ListedClientsUseNoRangeAddress")]


def _args(ctx, chain):
    if ctx.quick:
        return ["-chain", chain, "-depth", 2, "-walks", 30, "-seed", ctx.seed]
    return ["-chain", chain, "-depth", 3, "-reduced", "-walks", 400, "-seed", ctx.seed]


def produce(ctx):
    h = ctx.need_harness()
    wd = ctx.scratch.sub("conv")
    jobs = []
    for c in range(CHAINS):
        shards = 1 if ctx.quick else 12        # the range plugin never closes its database: bounded scenarios per process
        for s in range(shards):
            jobs.append((c, s, shards))

    def one(j):
        c, s, n = j
        out = os.path.join(wd, "conv-%d-%02d.ndjson" % (c, s))
        core.run_harness(h, ["conv"] + [str(a) for a in _args(ctx, c)] + ["-shard", s, "-shards", n, "-out", out, "-dir", os.path.join(wd, "d-%d-%d" % (c, s))],
                         wd, timeout=1800)
        return out

    with concurrent.futures.ThreadPoolExecutor(max_workers=max(2, core.NCPU - 2)) as ex:
        outs = list(ex.map(one, jobs))
    trace = os.path.join(wd, "conv.ndjson")
    with open(trace, "w") as f:
        for o in outs:
            f.write(open(o).read())
            os.remove(o)
    return trace


def _rerun(ctx0):
    def f(ctx, scenario, out):
        # re-execute the saved conversation: its first line names the chain, its messages are played again
        evs = [json.loads(line) for line in open(scenario)]
        names = ["typical", "rangefirst", "filefirst", "filebeforesid", "nolease", "nostatic", "staticinside", "leaseafter"]
        c = names.index(evs[0].get("name", "typical"))
        letters = [{"C": e["c"], "Mt": e["mt"], "Sid": e["sid"], "Want": e.get("want", "none")} for e in evs if e["ev"] == "cmsg"]
        wd = ctx.scratch.sub("conv-rerun")
        jf = os.path.join(wd, "one.json")
        json.dump([letters], open(jf, "w"))
        core.run_harness(ctx.need_harness(), ["conv", "-chain", c, "-in", jf, "-out", out, "-dir", os.path.join(wd, "d")], wd, timeout=600)
    return f


def run(ctx, design=True):
    """design checks + conformance under the property's lens (verdict) and under CONV (drift)."""
    if design:
        for cfg, _ in DESIGN[:2] if ctx.quick else DESIGN:
            ctx.design("ConvMC.tla", cfg, workers=4)
        if not ctx.quick:
            for cfg, inv in WEAK:
                ctx.design("ConvMC.tla", cfg, expect_fail=inv)
    t = produce(ctx)
    # model -> code: conversations of RFC 2131 clients simulated by TLC from ConvGen, played to the real chains
    gen = 0
    h = ctx.need_harness()
    wd = ctx.scratch.sub("conv-gen")
    with open(t, "a") as f:
        for ci, name in ((0, "typical"), (1, "rangefirst"), (2, "filefirst"), (3, "filebeforesid")):
            scns = core.simulate_scenarios(ctx.scratch, "ConvGen", "ConvGen_%s.cfg" % name, 60 if ctx.quick else 1200, 12, ctx.seed + ci)
            if len(scns) < 5:
                raise Infra("TLC simulation of ConvGen (%s) produced only %d behaviours" % (name, len(scns)))
            for part in range(0, len(scns), 250):      # bounded scenarios per process (the range plugin keeps its databases open)
                jf = os.path.join(wd, "gen-%s-%d.json" % (name, part))
                json.dump(scns[part:part + 250], open(jf, "w"))
                out = os.path.join(wd, "gen-%s-%d.ndjson" % (name, part))
                core.run_harness(h, ["conv", "-chain", ci, "-in", jf, "-seed", ctx.seed, "-out", out, "-dir", os.path.join(wd, "d-%s-%d" % (name, part))], wd, timeout=1800)
                f.write(open(out).read())
            gen += len(scns)
    msgs = sum(1 for line in open(t) if '"ev":"cmsg"' in line)
    if msgs == 0:
        raise Infra("the conversation run recorded no message")
    job = runner.TraceJob("conv", "ConvTrace", t, {"Lens": core.tla_set([ctx.prop])}, chunk=20000, replay=_rerun(ctx),
                          boundary=lambda e: e.get("ev") == "creset", meta={"family": "conv"})
    runner.run_job(ctx, job)
    ev, tr = ctx.events, ctx.traces_ok
    drift = runner.TraceJob("conv-all", "ConvTrace", t, {"Lens": core.tla_set(["CONV"])}, chunk=20000, boundary=lambda e: e.get("ev") == "creset", drift=True)
    runner.run_job(ctx, drift)
    ctx.events, ctx.traces_ok = ev, tr
    return {"conversation_messages_through_whole_chains": msgs, "chains": CHAINS, "tlc_generated_conversations_replayed": gen}


def replay(ctx, path):
    j = runner.TraceJob("replay", "ConvTrace", None, {"Lens": core.tla_set([ctx.prop])}, replay=_rerun(ctx), boundary=lambda e: e.get("ev") == "creset")
    return runner.replay_dir(ctx, path, j)


# ---- DHCPv6 ------------------------------------------------------------------------------------------------
CHAINS6 = 4
DESIGN6 = ["Conv6_typical.cfg", "Conv6_nosid.cfg", "Conv6_prefixfirst.cfg"]
NAMES6 = ["typical6", "nosid6", "prefixfirst6", "filelast6"]


def _walk6(ctx, wd, c, out):
    """The conversations of chain c: a few hundred per PROCESS (plugins keep what they were configured with in package-level
    variables - the dns plugin appends to its server list at every set-up - and a server sets a chain up once)."""
    parts = 1 if ctx.quick else 10
    with open(out, "w") as f:
        for part in range(parts):
            tmp = os.path.join(wd, "walk6-%d-%d.ndjson" % (c, part))
            core.run_harness(ctx.need_harness(), ["conv6", "-chain", c, "-seed", ctx.seed if parts == 1 else ctx.seed * 1000 + part, "-walks", 300 if ctx.quick else 400,
                                                  "-out", tmp, "-dir", os.path.join(wd, "d%d-%d" % (c, part))], wd, timeout=1800)
            f.write(open(tmp).read())
            os.remove(tmp)


def _rerun6(ctx0):
    def f(ctx, scenario, out):
        evs = [json.loads(line) for line in open(scenario)]
        c = NAMES6.index(evs[0].get("name", "typical6"))
        want = [(e["c"], e["mt"], e["sid"], e["na"], e["pd"]) for e in evs if e["ev"] == "c6msg"]
        wd = ctx.scratch.sub("conv6-rerun")
        tmp = os.path.join(wd, "all.ndjson")
        _walk6(ctx, wd, c, tmp)
        cur, keep = [], None
        for line in list(open(tmp)) + ['{"ev": "c6reset"}']:
            e = json.loads(line)
            if e["ev"] == "c6reset":
                if keep is None and cur and [(x["c"], x["mt"], x["sid"], x["na"], x["pd"]) for x in cur[1:]][:len(want)] == want:
                    keep = cur
                cur = [e]
            else:
                cur.append(e)
        if keep is None:
            raise Infra("the saved DHCPv6 conversation was not found in the re-run")
        with open(out, "w") as g:
            for e in keep:
                g.write(json.dumps(e) + "\n")
    return f


def run6(ctx, design=True):
    """DHCPv6 whole chains: design checks + conformance under the property's lens (verdict) and CONV6 (drift)."""
    if design:
        for cfg in DESIGN6[:1] if ctx.quick else DESIGN6:
            ctx.design("Conv6MC.tla", cfg, workers=4)
        if not ctx.quick:
            ctx.design("Conv6MC.tla", "Conv6_prefixfirst_binds.cfg", expect_fail="DiscardedMessagesBindNothing")
    h = ctx.need_harness()
    wd = ctx.scratch.sub("conv6")

    def one(c):
        out = os.path.join(wd, "conv6-%d.ndjson" % c)
        _walk6(ctx, wd, c, out)
        return out

    with concurrent.futures.ThreadPoolExecutor(max_workers=CHAINS6) as ex:
        outs = list(ex.map(one, range(CHAINS6)))
    t = os.path.join(wd, "conv6.ndjson")
    with open(t, "w") as f:
        for o in outs:
            f.write(open(o).read())
            os.remove(o)
    msgs = sum(1 for line in open(t) if '"ev":"c6msg"' in line)
    if msgs == 0:
        raise Infra("the DHCPv6 conversation run recorded no message")
    job = runner.TraceJob("conv6", "Conv6Trace", t, {"Lens": core.tla_set([ctx.prop])}, chunk=20000, replay=_rerun6(ctx),
                          boundary=lambda e: e.get("ev") == "c6reset", meta={"family": "conv6"})
    runner.run_job(ctx, job)
    ev, tr = ctx.events, ctx.traces_ok
    drift = runner.TraceJob("conv6-all", "Conv6Trace", t, {"Lens": core.tla_set(["CONV6"])}, chunk=20000, boundary=lambda e: e.get("ev") == "c6reset", drift=True)
    runner.run_job(ctx, drift)
    ctx.events, ctx.traces_ok = ev, tr
    return {"dhcpv6_conversation_messages_through_whole_chains": msgs, "dhcpv6_chains": CHAINS6}


def replay6(ctx, path):
    j = runner.TraceJob("replay", "Conv6Trace", None, {"Lens": core.tla_set([ctx.prop])}, replay=_rerun6(ctx), boundary=lambda e: e.get("ev") == "c6reset")
    return runner.replay_dir(ctx, path, j)
