"""Whole DHCPv4 chains (spec/Conv.tla, ConvCore.tla, ConvMC.tla, ConvTrace.tla): the composition of file, range, server_id,
lease_time and the option plugins, driven as conversations through LoadPlugins + HandleMsg4.  Not a listed property of its own:
each of C02 C10 C14 C17 validates the recording under ITS lens (the sentences of that property, in composition); lens CONV (the
whole composition) is a drift detector."""
import concurrent.futures
import json
import os

from . import core, runner
from .core import Infra

CHAINS = 8
DESIGN = [("Conv_typical.cfg", None), ("Conv_filefirst.cfg", None), ("Conv_filebeforesid.cfg", None), ("Conv_rangefirst.cfg", None),
          ("Conv_nostatic.cfg", None), ("Conv_nolease.cfg", None)]
WEAK = [("Conv_staticinside.cfg", "NoSharedAddress"), ("Conv_rangefirst_leak.cfg", "ListedClientsUseNoRangeAddress")]


def _args(ctx, chain):
    if ctx.quick:
        return ["-chain", chain, "-depth", 2, "-walks", 30, "-seed", ctx.seed]
    return ["-chain", chain, "-depth", 3, "-reduced", "-walks", 400, "-seed", ctx.seed]


def produce(ctx):
    h = ctx.need_harness()
    wd = ctx.scratch.sub("conv")
    jobs = []
    for c in range(CHAINS):
        shards = 1 if ctx.quick else 12        # the range plugin never closes its database: bounded scenarios per process
        for s in range(shards):
            jobs.append((c, s, shards))

    def one(j):
        c, s, n = j
        out = os.path.join(wd, "conv-%d-%02d.ndjson" % (c, s))
        core.run_harness(h, ["conv"] + [str(a) for a in _args(ctx, c)] + ["-shard", s, "-shards", n, "-out", out, "-dir", os.path.join(wd, "d-%d-%d" % (c, s))],
                         wd, timeout=1800)
        return out

    with concurrent.futures.ThreadPoolExecutor(max_workers=max(2, core.NCPU - 2)) as ex:
        outs = list(ex.map(one, jobs))
    trace = os.path.join(wd, "conv.ndjson")
    with open(trace, "w") as f:
        for o in outs:
            f.write(open(o).read())
            os.remove(o)
    return trace


def _rerun(ctx0):
    def f(ctx, scenario, out):
        # re-execute the saved conversation: its first line names the chain, its messages are played again
        evs = [json.loads(line) for line in open(scenario)]
        names = ["typical", "rangefirst", "filefirst", "filebeforesid", "nolease", "nostatic", "staticinside", "leaseafter"]
        c = names.index(evs[0].get("name", "typical"))
        letters = [{"C": e["c"], "Mt": e["mt"], "Sid": e["sid"]} for e in evs if e["ev"] == "cmsg"]
        wd = ctx.scratch.sub("conv-rerun")
        jf = os.path.join(wd, "one.json")
        json.dump([letters], open(jf, "w"))
        core.run_harness(ctx.need_harness(), ["conv", "-chain", c, "-in", jf, "-out", out, "-dir", os.path.join(wd, "d")], wd, timeout=600)
    return f


def run(ctx, design=True):
    """design checks + conformance under the property's lens (verdict) and under CONV (drift)."""
    if design:
        for cfg, _ in DESIGN[:2] if ctx.quick else DESIGN:
            ctx.design("ConvMC.tla", cfg, workers=4)
        if not ctx.quick:
            for cfg, inv in WEAK:
                ctx.design("ConvMC.tla", cfg, expect_fail=inv)
    t = produce(ctx)
    # model -> code: conversations of RFC 2131 clients simulated by TLC from ConvGen, played to the real chains
    gen = 0
    h = ctx.need_harness()
    wd = ctx.scratch.sub("conv-gen")
    with open(t, "a") as f:
        for ci, name in ((0, "typical"), (1, "rangefirst"), (2, "filefirst"), (3, "filebeforesid")):
            scns = core.simulate_scenarios(ctx.scratch, "ConvGen", "ConvGen_%s.cfg" % name, 60 if ctx.quick else 1200, 12, ctx.seed + ci)
            if len(scns) < 5:
                raise Infra("TLC simulation of ConvGen (%s) produced only %d behaviours" % (name, len(scns)))
            for part in range(0, len(scns), 250):      # bounded scenarios per process (the range plugin keeps its databases open)
                jf = os.path.join(wd, "gen-%s-%d.json" % (name, part))
                json.dump(scns[part:part + 250], open(jf, "w"))
                out = os.path.join(wd, "gen-%s-%d.ndjson" % (name, part))
                core.run_harness(h, ["conv", "-chain", ci, "-in", jf, "-seed", ctx.seed, "-out", out, "-dir", os.path.join(wd, "d-%s-%d" % (name, part))], wd, timeout=1800)
                f.write(open(out).read())
            gen += len(scns)
    msgs = sum(1 for line in open(t) if '"ev":"cmsg"' in line)
    if msgs == 0:
        raise Infra("the conversation run recorded no message")
    job = runner.TraceJob("conv", "ConvTrace", t, {"Lens": core.tla_set([ctx.prop])}, chunk=20000, replay=_rerun(ctx),
                          boundary=lambda e: e.get("ev") == "creset", meta={"family": "conv"})
    runner.run_job(ctx, job)
    ev, tr = ctx.events, ctx.traces_ok
    drift = runner.TraceJob("conv-all", "ConvTrace", t, {"Lens": core.tla_set(["CONV"])}, chunk=20000, boundary=lambda e: e.get("ev") == "creset", drift=True)
    runner.run_job(ctx, drift)
    ctx.events, ctx.traces_ok = ev, tr
    return {"conversation_messages_through_whole_chains": msgs, "chains": CHAINS, "tlc_generated_conversations_replayed": gen}


def replay(ctx, path):
    j = runner.TraceJob("replay", "ConvTrace", None, {"Lens": core.tla_set([ctx.prop])}, replay=_rerun(ctx), boundary=lambda e: e.get("ev") == "creset")
    return runner.replay_dir(ctx, path, j)
