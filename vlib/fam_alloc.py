"""C04 C05 C06 C07 - the two bitmap allocators (spec/Alloc.tla, AllocConc.tla, AllocTrace.tla)."""
import json
import os

from . import core, runner
from .core import Infra

DOMAIN = {"C04": "outstanding", "C05": "outstanding", "C07": "outstanding", "C06": "any"}


def _replay_seq(ctx, scenario, out):
    core.run_harness(ctx.need_harness(), ["alloc", "-replay", scenario, "-out", out], ctx.scratch.dir)


def _rerun(mode_args):
    def f(ctx, scenario, out):
        core.run_harness(ctx.need_harness(), ["alloc"] + mode_args + ["-out", out], ctx.scratch.dir)
    return f


def _job(ctx, name, trace, replay, inv=("PreOK",), attempts=1, rerun=None):
    return runner.TraceJob(name, "AllocTrace", trace, {"Lens": core.tla_set([ctx.prop])}, invariants=inv,
                           chunk=40000, replay=replay, attempts=attempts, rerun=rerun)


def _stats(paths):
    """Coverage measured from the validated traces: (out-state, letter) pairs of the N<=4 pools,
    and counts of the interesting situations."""
    pairs = set()
    st = {"scenarios": 0, "alloc_ok": 0, "alloc_fail_full": 0, "free_ok": 0, "free_err": 0, "hint_free_honoured": 0,
          "hint_taken": 0, "long_hint": 0, "exhausted_scenarios": 0, "sub_free_ok": 0, "outside_free": 0,
          "geometries": set(), "max_N": 0}
    out, n, geom, exhausted = set(), 0, None, False
    for p in paths:
        for line in open(p):
            e = json.loads(line)
            ev = e["ev"]
            if ev == "reset":
                if exhausted:
                    st["exhausted_scenarios"] += 1
                out, n, geom, exhausted = set(), e["N"], e["geom"], False
                st["scenarios"] += 1
                st["geometries"].add(geom)
                st["max_N"] = max(st["max_N"], n)
            elif ev == "alloc":
                h, r = e["hint"], e["res"]
                if n <= 4:
                    pairs.add((geom, frozenset(out), "a:%s:%s:%s:%s:%s" % (h["k"], h["b"], h["long"], h["side"], h["d"])))
                if r["ok"]:
                    st["alloc_ok"] += 1
                    if h["k"] == "blk":
                        if h["b"] not in out:
                            st["hint_free_honoured"] += 1
                        else:
                            st["hint_taken"] += 1
                    if h["long"]:
                        st["long_hint"] += 1
                    if r["inpool"]:
                        out.add(r["b"])
                else:
                    st["alloc_fail_full"] += 1
                    exhausted = True
            elif ev == "free":
                a = e["arg"]
                if n <= 4:
                    pairs.add((geom, frozenset(out), "f:%s:%s:%s:%s:%s" % (a["k"], a["b"], a["sub"], a["side"], a["d"])))
                if a["k"] == "outside":
                    st["outside_free"] += 1
                if e["ok"]:
                    st["free_ok"] += 1
                    if a["sub"]:
                        st["sub_free_ok"] += 1
                    if a["k"] == "blk":
                        out.discard(a["b"])
                else:
                    st["free_err"] += 1
    if exhausted:
        st["exhausted_scenarios"] += 1
    st["geometries"] = len(st["geometries"])
    st["state_letter_pairs_covered"] = len(pairs)
    return st


def selftest(ctx, trace):
    """Binding self-test: corrupt one recorded result in a copy of an accepted trace; TLC must reject."""
    lines = open(trace).read().splitlines()[:3000]
    prop = ctx.prop
    done = False
    for i, line in enumerate(lines):
        e = json.loads(line)
        if prop in ("C04", "C07") and e["ev"] == "alloc" and e["res"]["ok"] and e["hint"]["k"] == "blk" and e["res"]["b"] == e["hint"]["b"]:
            # pretend the allocator returned a block that is already outstanding / not the hinted one
            prev = [json.loads(x) for x in lines[:i]]
            taken = None
            for p in reversed(prev):
                if p["ev"] == "reset":
                    break
                if p["ev"] == "alloc" and p["res"]["ok"]:
                    taken = p["res"]["b"]
                    break
            if taken is None or taken == e["res"]["b"]:
                continue
            e["res"]["b"] = taken
            done = True
        elif prop == "C05" and e["ev"] == "alloc" and not e["res"]["ok"]:
            e["res"]["err"] = "other"
            done = True
        elif prop == "C06" and e["ev"] == "free" and not e["ok"]:
            e["ok"], e["err"] = True, "none"
            done = True
        if done:
            lines[i] = json.dumps(e)
            cut = lines[:i + 200]
            wd = ctx.scratch.sub("selftest")
            p = os.path.join(wd, "corrupt.ndjson")
            open(p, "w").write("\n".join(cut) + "\n")
            r = core.validate_trace(os.path.join(wd, "tlc"), "AllocTrace", p, {"Lens": core.tla_set([prop])}, ("PreOK",))
            if r["accepted"] or r["reject_line"] != i + 1:
                raise Infra("binding self-test failed: corrupted line %d was not rejected (%s)" % (i + 1, r["reject_line"]))
            return {"corrupted_line": i + 1, "rejected_at": r["reject_line"]}
    return {"skipped": "no suitable line"}


def check(ctx):
    prop = ctx.prop
    dom = DOMAIN[prop]
    # Leg A
    ctx.design("Alloc.tla", "Alloc_N3.cfg")
    if not ctx.quick:
        ctx.design("Alloc.tla", "Alloc_N4.cfg")
        ctx.proof("AllocProof")          # every N: out inside the pool, no block held twice, failure iff full (design only)
    if prop == "C04":
        ctx.design("AllocConc.tla", "AllocConc_lock.cfg")
        if not ctx.quick:
            ctx.design("AllocConc.tla", "AllocConc_nolock.cfg", expect_fail="Disjoint")
    # Leg B
    h = ctx.need_harness()
    wd = ctx.scratch.sub("alloc")
    runs = []
    if ctx.quick:
        runs.append(("seq", ["-mode", "seq", "-domain", dom, "-maxn", 3, "-suffix", 2, "-seed", ctx.seed]))
        runs.append(("seq4", ["-mode", "seq", "-domain", dom, "-maxn", 4, "-suffix", 1, "-seed", ctx.seed + 7]))
        runs.append(("walk", ["-mode", "walk", "-domain", dom, "-walks", 28, "-seed", ctx.seed]))
        runs.append(("dense", ["-mode", "dense", "-domain", dom, "-walks", 8, "-seed", ctx.seed]))
    else:
        runs.append(("seq42", ["-mode", "seq", "-domain", dom, "-maxn", 4, "-suffix", 2, "-seed", ctx.seed]))
        runs.append(("seq33", ["-mode", "seq", "-domain", dom, "-maxn", 3, "-suffix", 3, "-seed", ctx.seed + 1]))
        runs.append(("seq24", ["-mode", "seq", "-domain", dom, "-maxn", 2, "-suffix", 4, "-seed", ctx.seed + 2]))
        runs.append(("walk", ["-mode", "walk", "-domain", dom, "-walks", 280, "-seed", ctx.seed]))
        runs.append(("dense", ["-mode", "dense", "-domain", dom, "-walks", 64, "-seed", ctx.seed]))
    paths = []
    for name, args in runs:
        t = os.path.join(wd, name + ".ndjson")
        core.run_harness(h, ["alloc"] + args + ["-out", t], wd)
        runner.run_job(ctx, _job(ctx, name, t, _replay_seq, rerun=_rerun([str(a) for a in args])))
        paths.append(t)
    # model -> code: call sequences simulated by TLC from AllocGen.tla, replayed on both allocators
    scns = core.simulate_scenarios(ctx.scratch, "AllocGen", "AllocGen_out.cfg" if dom == "outstanding" else "AllocGen_any.cfg",
                                   100 if ctx.quick else 3000, 40, ctx.seed)
    if len(scns) < 5:
        raise Infra("TLC simulation produced only %d behaviours" % len(scns))
    jf = os.path.join(wd, "behaviours.json")
    json.dump(scns, open(jf, "w"))
    t = os.path.join(wd, "letters.ndjson")
    largs = ["-mode", "letters", "-in", jf, "-domain", dom, "-seed", ctx.seed]
    core.run_harness(h, ["alloc"] + largs + ["-out", t], wd)
    runner.run_job(ctx, _job(ctx, "letters", t, _replay_seq, rerun=_rerun([str(a) for a in largs])))
    paths.append(t)
    if prop == "C05":
        # pools of 2^64 blocks and more: refused, or else able to allocate
        t = os.path.join(wd, "huge.ndjson")
        hargs = ["-mode", "huge"]
        core.run_harness(h, ["alloc"] + hargs + ["-out", t], wd)
        runner.run_job(ctx, _job(ctx, "huge", t, _rerun(hargs), inv=()))
    st = _stats(paths)
    st["tlc_generated_behaviours_replayed"] = len(scns)
    conc = {}
    if prop == "C04":
        # schedules: exclusion probes (counterexample of AllocConc with UseLock = FALSE) and stress
        t = os.path.join(wd, "probe.ndjson")
        core.run_harness(h, ["alloc", "-mode", "probe", "-out", t], wd)
        pj = _job(ctx, "probe", t, _rerun(["-mode", "probe"]), inv=())
        runner.run_job(ctx, pj)
        runner.run_disc(ctx, pj)
        rounds = 8 if ctx.quick else 60
        t = os.path.join(wd, "conc.ndjson")
        args = ["-mode", "conc", "-rounds", rounds, "-seed", ctx.seed]
        core.run_harness(h, ["alloc"] + args + ["-out", t], wd)
        cj = _job(ctx, "conc", t, _rerun(args), inv=(), attempts=6)
        runner.run_job(ctx, cj)
        runner.run_disc(ctx, cj)
        conc = {"concurrent_rounds_16_goroutines": rounds, "exclusion_probes": 4}
    st.update(conc)
    st["binding_selftest"] = selftest(ctx, paths[0]) if not ctx.violations else {"skipped": "violations reported"}
    ctx.trusted += ["harness/alloc.go: net.IPNet -> block index / alignment / containment with math/big",
                    "TLC evaluation of AllocTrace guards"]
    ctx.assumptions += ["histories are exhaustive on pools of 1..4 blocks and random on pools of up to 1000 blocks; pools of 8192 .. 2^20 blocks are driven densely at their low end and around one far cluster (mode dense); a 2^32-address IPv4 range is outside the bounds used",
                        "C04 C05 C07: only outstanding blocks are freed (the quantifier of those properties); C06: any well-formed block / sub-prefix / outside prefix"]
    nontriv = {"C04": st["hint_taken"] + st["free_ok"], "C05": st["exhausted_scenarios"], "C06": st["free_ok"] + st["outside_free"],
               "C07": st["hint_free_honoured"]}[prop]
    return runner.finish(
        ctx,
        rule="every out-state of every 1..4-block pool of the geometry table followed by every letter sequence of the tier's suffix length "
             "over the alphabet of Alloc.tla (concretised with seeded address forms), plus seeded random walks with an exhaustion bias on "
             "word-boundary pools (63/64/65/127/128/129/1000 blocks; ranges ending at 255.255.255.255); every call validated by TLC under lens %s. "
             "distinct_nontrivial = %s" % (prop, {"C04": "calls that hint at a taken block or successfully free one",
                                                  "C05": "scenarios that reached exhaustion (an Allocate failed)",
                                                  "C06": "successful frees plus frees outside the pool",
                                                  "C07": "calls whose hint names a free block"}[prop]),
        extra_cov=st, distinct_nontrivial=nontriv, exhaustive=False)


def replay(ctx, path):
    meta = json.load(open(os.path.join(path, "meta.json")))
    if meta.get("job") in ("probe", "conc"):
        args = ["-mode", "probe"] if meta["job"] == "probe" else ["-mode", "conc", "-rounds", 8, "-seed", meta.get("seed", 1)]
        j = _job(ctx, "replay", None, _rerun(args), inv=())
    else:
        j = _job(ctx, "replay", None, _replay_seq)
    return runner.replay_dir(ctx, path, j)
