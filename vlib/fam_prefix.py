"""C08 C09 - DHCPv6 prefix delegation plugin (spec/PrefixPD.tla, PrefixTrace.tla)."""
import concurrent.futures
import glob
import json
import os

from . import core, runner
from .core import Infra


def _replay(ctx, scenario, out):
    core.run_harness(ctx.need_harness(), ["prefix", "-replay", scenario, "-out", out], ctx.scratch.dir, timeout=300)


def _job(ctx, name, trace, lens=None):
    return runner.TraceJob(name, "PrefixTrace", trace, {"Lens": core.tla_set(lens or [ctx.prop])}, chunk=15000, replay=_replay)


def sharded(ctx, name, args, shards):
    h = ctx.need_harness()
    wd = ctx.scratch.sub("prefix-" + name)

    def one(i):
        out = os.path.join(wd, "shard%02d.ndjson" % i)
        core.run_harness(h, ["prefix"] + args + ["-shard", i, "-shards", shards, "-out", out], wd, timeout=3000)
        return out

    with concurrent.futures.ThreadPoolExecutor(max_workers=shards) as ex:
        outs = list(ex.map(one, range(shards)))
    trace = os.path.join(wd, name + ".ndjson")
    with open(trace, "w") as f:
        for o in outs:
            with open(o) as g:
                for line in g:
                    f.write(line)
            os.remove(o)
    return trace


def _stats(paths):
    st = {"scenarios": 0, "messages": 0, "relayed": 0, "ia_pds": 0, "noprefix_answers": 0, "renew_exact": 0, "hintless_known": 0,
          "multi_prefix_answers": 0, "long_prefixes": 0, "nil_hints": 0, "exhausted_scenarios": 0, "kinds": set(), "max_N": 0,
          "panics": 0, "alphabet_realised": {}}
    told, exhausted = {}, False
    poollen = 0
    real = st["alphabet_realised"]

    def realised(kind, h, mine):
        """does the hint, as the plugin saw it after the wire, have the shape its letter claims?"""
        if kind == "nil":
            return h["nil"]
        if h["nil"]:
            return False
        if kind == "zero":
            return h["zero"] and h["len"] == page
        if kind == "zerol":
            return h["zero"] and h["len"] > page
        if kind.startswith("ownlen"):
            return h["b"] >= 0 and any(b == h["b"] and ln != h["len"] for (b, ln) in mine)
        if kind.startswith("own"):
            return (h["b"], h["len"]) in mine and h["base"]
        if kind == "other":
            return h["b"] >= 0 and h["base"] and (h["b"], h["len"]) not in mine
        if kind == "free":
            return h["b"] >= 0 and h["base"] and h["len"] == page and h["bits"] == 128
        if kind == "freel":
            return h["b"] >= 0 and h["base"] and h["len"] > page
        if kind == "inside":
            return h["b"] >= 0 and h["len"] == 128
        if kind == "outside":
            return h["b"] < 0 and not h["zero"]
        if kind == "biglen":
            return h["b"] >= 0 and h["bits"] == 0          # no mask of that length exists: Mask is nil, Size() = 0, 0
        if kind == "shortlen":
            return h["b"] >= 0 and 0 < h["len"] < poollen
        return True
    for p in paths:
        for line in open(p):
            e = json.loads(line)
            if e["ev"] == "reset":
                st["scenarios"] += 1
                st["max_N"] = max(st["max_N"], e["N"])
                if exhausted:
                    st["exhausted_scenarios"] += 1
                told, exhausted, page = {}, False, e["page"]
                poollen = int(e["pool"].split("/")[1]) if "pool" in e else 0
            elif e["ev"] == "msg":
                st["messages"] += 1
                if e["relay"]:
                    st["relayed"] += 1
                if e["res"] == "panic":
                    st["panics"] += 1
                mine = told.setdefault(e["c"], set())
                for ia in e["ias"]:
                    st["ia_pds"] += 1
                    for k in ia["kinds"]:
                        st["kinds"].add(k)
                    if len(ia["kinds"]) == len(ia["hints"]):
                        for k, h in zip(ia["kinds"], ia["hints"]):
                            kk = k.rstrip("0123456789")
                            real.setdefault(kk, [0, 0])
                            real[kk][0] += 1
                            real[kk][1] += 1 if realised(k, h, mine) else 0
                    if all(h["nil"] for h in ia["hints"]) and mine:
                        st["hintless_known"] += 1
                    for h in ia["hints"]:
                        if h["nil"]:
                            st["nil_hints"] += 1
                        elif (h["b"], h["len"]) in mine and h["base"]:
                            st["renew_exact"] += 1
                for a in e["ans"]:
                    if a["status"] == "noprefix":
                        st["noprefix_answers"] += 1
                        exhausted = True
                    if len(a["pfx"]) > 1:
                        st["multi_prefix_answers"] += 1
                    for q in a["pfx"]:
                        mine.add((q["b"], q["len"]))
                        if q["len"] > page:
                            st["long_prefixes"] += 1
    if exhausted:
        st["exhausted_scenarios"] += 1
    st["kinds"] = sorted(st["kinds"])
    st["alphabet_realised"] = {k: {"sent": v[0], "in_claimed_shape": v[1]} for k, v in sorted(real.items())}
    return st


def selftest(ctx, trace):
    lines = open(trace).read().splitlines()[:6000]
    told = {}
    for i, line in enumerate(lines):
        e = json.loads(line)
        if e["ev"] == "reset":
            told = {}
            continue
        if e["ev"] != "msg":
            continue
        hit = False
        if ctx.prop == "C08" and e["ans"] and e["ans"][0]["pfx"]:
            e["ans"][0]["pfx"][0]["valid"] = 3601
            hit = True
        elif ctx.prop == "C09":
            mine = told.setdefault(e["c"], set())
            if mine and e["ias"] and not e["ias"][0]["hints"] and e["ans"] and e["ans"][0]["pfx"]:
                gone = e["ans"][0]["pfx"][0]                     # a forgotten prefix
                for a in e["ans"]:
                    a["pfx"] = [q for q in a["pfx"] if (q["b"], q["len"]) != (gone["b"], gone["len"])]
                    if not a["pfx"]:
                        a["status"] = "noprefix"
                hit = True
            for a in e["ans"]:
                for q in a["pfx"]:
                    mine.add((q["b"], q["len"]))
        if hit:
            lines[i] = json.dumps(e)
            wd = ctx.scratch.sub("selftest")
            p = os.path.join(wd, "corrupt.ndjson")
            open(p, "w").write("\n".join(lines[:i + 20]) + "\n")
            r = core.validate_trace(os.path.join(wd, "tlc"), "PrefixTrace", p, {"Lens": core.tla_set([ctx.prop])})
            if r["accepted"] or r["reject_line"] != i + 1:
                raise Infra("binding self-test failed: corrupted line %d not rejected (%s)" % (i + 1, r["reject_line"]))
            return {"corrupted_line": i + 1, "rejected_at": r["reject_line"]}
    return {"skipped": "no suitable line"}


def regress(ctx):
    """Scenarios of repaired defects (known-findings.json, status fixed) are replayed in every run."""
    wd = ctx.scratch.sub("prefix-regress")
    out = os.path.join(wd, "regress.ndjson")
    with open(out, "w") as f:
        for sc in sorted(glob.glob(os.path.join(core.VERIF, "regress", "prefix-*.ndjson"))):
            o = os.path.join(wd, "one.ndjson")
            core.run_harness(ctx.need_harness(), ["prefix", "-replay", sc, "-out", o], wd, timeout=300)
            f.write(open(o).read())
    return out


def check(ctx):
    prop = ctx.prop
    ctx.design("PrefixPD.tla", "PrefixPD.cfg" if ctx.quick else "PrefixPD_3.cfg", workers=8)
    shards = min(core.NCPU - 2, 14)
    paths = []
    t = regress(ctx)
    runner.run_job(ctx, _job(ctx, "regress", t))
    paths.append(t)
    if ctx.quick:
        plan = [("bfs2", ["-mode", "bfs", "-depth", 2, "-level", 2, "-seed", ctx.seed], shards),
                ("bfs3", ["-mode", "bfs", "-depth", 3, "-level", 1, "-seed", ctx.seed + 1], shards),
                ("sim", ["-mode", "sim", "-count", 400, "-seed", ctx.seed], 4),
                ("long", ["-mode", "long", "-level", 1, "-seed", ctx.seed], 4)]
    else:
        plan = [("bfs2", ["-mode", "bfs", "-depth", 2, "-level", 2, "-seed", ctx.seed], shards),
                ("bfs3", ["-mode", "bfs", "-depth", 3, "-level", 1, "-seed", ctx.seed + 1], shards),
                ("bfs3b", ["-mode", "bfs", "-depth", 3, "-level", 1, "-seed", ctx.seed + 2], shards),
                ("bfs3full", ["-mode", "bfs", "-depth", 3, "-level", 2, "-seed", ctx.seed + 3], shards),
                ("sim", ["-mode", "sim", "-count", 6000, "-seed", ctx.seed], shards),
                ("long", ["-mode", "long", "-level", 1, "-seed", ctx.seed], 4),
                ("long2", ["-mode", "long", "-level", 2, "-seed", ctx.seed], 13),
                ("long3", ["-mode", "long", "-level", 3, "-seed", ctx.seed], 4)]
    for name, args, sh in plan:
        t = sharded(ctx, name, args, sh)
        runner.run_job(ctx, _job(ctx, name, t))
        paths.append(t)
    st = _stats(paths)
    # in composition (whole DHCPv6 chains, Conv6): the prefix plugin behind / in front of server_id, file and dns
    from . import fam_conv
    st.update(fam_conv.run6(ctx))
    hollow = [k for k, v in st["alphabet_realised"].items() if v["sent"] > 0 and v["in_claimed_shape"] == 0]
    if hollow:
        raise Infra("letters of the hint alphabet that never reached the plugin in the shape they claim: %s" % hollow)
    st["binding_selftest"] = selftest(ctx, paths[1]) if not ctx.violations else {"skipped": "violations reported"}
    ctx.trusted += ["harness/prefix.go: message construction through the codec (ToBytes/FromBytes both ways), prefix -> block index / base / length (math/big)",
                    "TLC evaluation of PrefixTrace guards"]
    ctx.assumptions += ["messages carry a client identifier and distinct IAIDs", "leases never expire within a run (the code has no expiry/GC; one hour lifetimes)",
                        "'asks exactly P' = same 128-bit address and same length; 'no hint' = no IAPrefix option or prefix-length 0 on the wire; "
                        "length-only hints (::/l, l>0) are constrained by C08 only"]
    nontriv = st["noprefix_answers"] + st["multi_prefix_answers"] if prop == "C08" else st["renew_exact"] + st["hintless_known"]
    return runner.finish(
        ctx,
        rule="every message sequence of length 2 (full alphabet) and 3 (reduced alphabet) over (client, IA_PD list) letters whose hints are "
             "nil / ::/len / exactly-own / own-address-other-length / another client's prefix / free block (=, longer, inside) / outside / length>128, "
             "hint kinds resolved against what the client was told so far, on 4..16-block pools (page 48/60/64/72/128), direct and through 1-3 relay layers, "
             "plus seeded long histories running into exhaustion, long-running instances (a holder asking again after a neighbour renewed exactly g times, "
             "g swept over 1..16 and 250..262 - thorough: 1..300, 500..520 and 65534..65537 - and 300 distinct clients on one 512-block pool) and the replays of the repaired defects; "
             "distinct_nontrivial = " + ("NoPrefixAvail answers + answers with several prefixes" if prop == "C08" else "exact renewals + hint-less IA_PDs of clients that hold a prefix"),
        extra_cov=st, distinct_nontrivial=nontriv, exhaustive=False)


def replay(ctx, path):
    meta = json.load(open(os.path.join(path, "meta.json")))
    if meta.get("family") == "conv6":
        from . import fam_conv
        return fam_conv.replay6(ctx, path)
    return runner.replay_dir(ctx, path, _job(ctx, "replay", None))
