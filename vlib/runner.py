"""Generic per-property check flow: Leg A -> Leg B (harness) -> Leg C (TLC trace validation),
rejection handling (replay + reproduce), known findings, evidence."""
import json
import os
import sys
import time

from . import core
from .core import Infra, log


class Ctx:
    def __init__(self, prop, tier, seed):
        self.prop, self.tier, self.seed = prop, tier, seed
        self.t0 = time.time()
        self.scratch = core.Scratch(prop)
        self.harness = None
        self.harness_race = None
        self.violations = []       # replay paths
        self.known_seen = []       # deviation names that fired
        self.legA = []             # TLC stats of design checks
        self.cov = {}              # coverage keys accumulated by the family
        self.samples = []
        self.traces_ok = 0
        self.events = 0
        self.assumptions = []
        self.trusted = []
        self.notes = []

    @property
    def quick(self):
        return self.tier == "quick"

    def need_harness(self, race=False):
        if race:
            if not self.harness_race:
                self.harness_race = core.build_harness(True)
            return self.harness_race
        if not self.harness:
            self.harness = core.build_harness(False)
        return self.harness

    def design(self, module, cfg, **kw):
        r = core.leg_a(self.scratch, module, cfg, **kw)
        self.legA.append({"module": module, "cfg": cfg, "states": r["distinct"], "transitions": r["generated"],
                          "depth": r["depth"], "wall_s": round(r["wall"], 1)})
        return r


    def proof(self, module):
        r = core.proof(self.scratch, module)
        self.cov.setdefault("design_proofs_tlaps", []).append(r)
        if not r["proved"]:
            self.notes.append("NOTE design proof %s not re-established by tlapm (%s): advisory, about the specification only" % (module, r.get("detail")))
            print("NOTE proof: %s not re-established (advisory; no verdict depends on it)" % module, flush=True)
        return r


class TraceJob:
    """A recorded trace (possibly big) to validate with one trace module under the property's lens.
    replay(ctx, scenario_path, out_path) re-executes the inputs of the saved scenario lines."""

    def __init__(self, name, module, trace_path, consts, invariants=(), chunk=4000, replay=None,
                 boundary=None, scenario_count=None, heap="3g", meta=None, attempts=3, rerun=None, drift=False):
        self.name, self.module, self.trace_path = name, module, trace_path
        self.consts, self.invariants, self.chunk = consts, invariants, chunk
        self.replay = replay
        self.boundary = boundary or (lambda e: e.get("ev") == "reset")
        self.scenario_count = scenario_count
        self.heap = heap
        self.meta = meta or {}
        self.drift = drift         # drift detector: behaviour outside the listed properties; a rejection is a NOTE, never a violation
        self.rerun = rerun         # re-runs the original harness command (used when the process died: the fatal call was never recorded)
        self.attempts = attempts   # how often a (schedule-dependent) rejection may be re-run to reproduce it


def count_scenarios(path, boundary):
    n = 0
    lines = 0
    with open(path) as f:
        for line in f:
            lines += 1
            try:
                if boundary(json.loads(line)):
                    n += 1
            except ValueError:
                pass
    return max(n, 1 if lines else 0), lines


def run_job(ctx, job):
    """Validate one trace; handle rejections. Returns number of accepted scenarios."""
    consts = dict(job.consts)
    chunks = core.split_trace(job.trace_path, os.path.join(ctx.scratch.sub("chunks-" + job.name)),
                              job.chunk, job.boundary)
    if not chunks:
        raise Infra("job %s produced an empty trace" % job.name)
    results = core.validate_chunks(ctx.scratch, job.module, chunks, consts, job.invariants, heap=job.heap)
    nscn, nlines = count_scenarios(job.trace_path, job.boundary)
    ctx.events += nlines
    rejected = 0
    for r in results:
        for d in r["known"]:
            if d not in ctx.known_seen:
                ctx.known_seen.append(d)
        for k, v in r.get("counts", {}).items():
            ctx.cov[k] = ctx.cov.get(k, 0) + v
        if r["pre_violated"]:
            raise Infra("trace %s violates the harness-side precondition %s (harness error, not a verdict):\n%s"
                        % (job.name, r["pre_violated"], r["out"][-2500:]))
        if r["accepted"]:
            continue
        rejected += 1
        handle_rejection(ctx, job, r)
    if not ctx.samples:
        ctx.samples = core.sample_lines(job.trace_path, 3)
    ok = nscn - rejected
    ctx.traces_ok += max(ok, 0)
    log("[legC] %s: %d lines, %d scenarios, %d chunks, %d rejected" % (job.name, nlines, nscn, len(chunks), rejected))
    return ok


def run_disc(ctx, job):
    """Validate the same recording once more under lens DISC (lock discipline of the PRESENT design: observation
    points passed with the guarding mutex held, lookups consistent with the monitor). A different but correct
    locking design would fail this without breaking any property, so it is a drift detector, never a verdict."""
    import copy
    j = copy.copy(job)
    j.name = job.name + "-disc"
    j.consts = dict(job.consts)
    j.consts["Lens"] = core.tla_set(["DISC"])
    j.drift = True
    ev, tr = ctx.events, ctx.traces_ok
    run_job(ctx, j)
    ctx.events, ctx.traces_ok = ev, tr     # not counted as coverage of the property


def handle_rejection(ctx, job, r):
    if job.drift:
        msg = "spec-drift: %s no longer conforms to %s at trace line %s (not one of the listed properties)" % (job.name, job.module, r["reject_line"])
        ctx.notes.append(msg)
        print("NOTE " + msg, flush=True)
        return
    if len(ctx.violations) >= 5:
        ctx.notes.append("further rejection in job %s at chunk line %s not replayed (5 violations already reported)" % (job.name, r["reject_line"]))
        return
    line = r["reject_line"]
    scen, rel = core.scenario_of_line(r["chunk"], line, job.boundary)
    stamp = "%s-%d-%d" % (job.name, ctx.seed, len(ctx.violations) + len(ctx.notes))
    failing = scen[rel - 1] if 0 < rel <= len(scen) else ""
    meta = {"property": ctx.prop, "job": job.name, "module": job.module, "consts": job.consts,
            "invariants": list(job.invariants), "failing_line_index": rel, "failing_line": failing,
            "tier": ctx.tier, "seed": ctx.seed,
            "explain": "TLC found no action of %s that explains line %d of scenario.ndjson under lens %s"
                       % (job.module, rel, job.consts.get("Lens"))}
    meta.update(job.meta)
    d = core.save_replay(ctx.prop, stamp, {"scenario.ndjson": "\n".join(scen) + "\n"}, meta)
    log("[legC] %s rejected at line %d: %s" % (job.name, line, failing[:300]))
    # reproduce by re-executing the saved scenario on the real code
    again = None
    crashed = '"ev": "crash"' in failing or '"ev":"crash"' in failing
    for _ in range(max(1, job.attempts)):
        again = replay_dir(ctx, d, job, use_rerun=crashed and job.rerun is not None)
        if again is None or not again["accepted"]:
            break
    if again is None:
        raise Infra("rejection of %s could not be re-executed (no replay function); saved %s" % (job.name, d))
    if again["accepted"]:
        raise Infra("rejection of %s at line %d was NOT reproduced when the saved scenario %s was re-executed"
                    % (job.name, line, d))
    ctx.violations.append(d)
    print("VIOLATION property=%s replay=%s" % (ctx.prop, d), flush=True)


def replay_dir(ctx, d, job, use_rerun=False):
    """Re-execute the scenario saved in replay dir d and validate it. Returns validate result."""
    if job.replay is None and not use_rerun:
        return None
    wd = ctx.scratch.sub("replay")
    out = os.path.join(wd, "trace.ndjson")
    (job.rerun if use_rerun else job.replay)(ctx, os.path.join(d, "scenario.ndjson"), out)
    r = core.validate_trace(os.path.join(wd, "tlc"), job.module, out, job.consts, job.invariants, heap=job.heap)
    if r["pre_violated"]:
        raise Infra("replayed trace violates precondition %s" % r["pre_violated"])
    for k in r["known"]:
        if k not in ctx.known_seen:
            ctx.known_seen.append(k)
    return r


def finish(ctx, rule, extra_cov=None, exhaustive=False, distinct_nontrivial=None):
    states = sum(a["states"] for a in ctx.legA)
    trans = sum(a["transitions"] for a in ctx.legA)
    cov = {
        "states": states,
        "transitions": trans,
        "traces_validated_against_impl": ctx.traces_ok,
        "samples": ctx.samples or [{"note": "no trace sample"}],
        "evaluations": ctx.events,
        "rule": rule,
        "exhaustive": exhaustive,
        "design_checks": ctx.legA,
        "trusted_base": ctx.trusted,
        "known_findings_seen": ctx.known_seen,
        "notes": ctx.notes,
        "checker_cmd": "./check %s --tier %s" % (ctx.prop, ctx.tier),
    }
    if distinct_nontrivial is not None:
        cov["distinct_nontrivial"] = distinct_nontrivial
    cov.update(ctx.cov)
    if extra_cov:
        cov.update(extra_cov)
    for dname in ctx.known_seen:
        print("KNOWN-FINDING: property=%s %s" % (ctx.prop, core.known_what(ctx.prop, dname)), flush=True)
    p = core.write_evidence(ctx.prop, ctx.tier, ctx.seed, cov, ctx.assumptions, time.time() - ctx.t0,
                            len(ctx.violations))
    log("[done] %s %s: %d violations, evidence %s, %.1fs" % (ctx.prop, ctx.tier, len(ctx.violations), p,
                                                           time.time() - ctx.t0))
    return 1 if ctx.violations else 0
