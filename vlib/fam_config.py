"""C18 - configuration loading (spec/Config.tla, ConfigMC.tla, ConfigTrace.tla)."""
import json
import os

from . import core, runner
from .core import Infra


def _rerun(args):
    def f(ctx, scenario, out):
        d = ctx.scratch.sub("confdir")
        core.run_harness(ctx.need_harness(), ["config"] + [str(a) for a in args] + ["-out", out, "-dir", d], ctx.scratch.dir, timeout=1200)
    return f


def _job(ctx, name, trace, args):
    return runner.TraceJob(name, "ConfigTrace", trace, {"Lens": core.tla_set([ctx.prop])}, chunk=20000, replay=_rerun(args),
                           boundary=lambda e: True, meta={"rerun_args": [str(a) for a in args]})


def check(ctx):
    ctx.design("ConfigMC.tla", "ConfigMC.cfg")
    paths = []
    seeds = [ctx.seed] if ctx.quick else [ctx.seed + i for i in range(8)]
    for sd in seeds:
        args = ["-seed", sd, "-mutations", 2 if ctx.quick else 6, "-random", 600 if ctx.quick else 3000]
        wd = ctx.scratch.sub("config")
        out = os.path.join(wd, "config.ndjson")
        core.run_harness(ctx.need_harness(), ["config"] + [str(a) for a in args] + ["-out", out, "-dir", os.path.join(wd, "d")], wd, timeout=1800)
        runner.run_job(ctx, _job(ctx, "config", out, args))
        paths.append(out)
    st = {"documents": 0, "accepted": 0, "rejected": 0, "mutated_texts": 0, "mutated_accepted": 0, "multicast_expansions": 0, "both_protocols": 0,
          "listeners_total": 0}
    for p in paths:
        for line in open(p):
            e = json.loads(line)
            if e["ev"] == "load":
                st["documents"] += 1
                st["rejected" if e["res"]["err"] else "accepted"] += 1
                if e["doc"]["s4"]["present"] and e["doc"]["s6"]["present"]:
                    st["both_protocols"] += 1
                for s in ("s4", "s6"):
                    st["listeners_total"] += len(e["res"][s]["addrs"])
                    for sp in e["doc"][s]["listen"]["specs"]:
                        if sp["ip"] in ("mc4", "mc6") and sp["zone"] == "" and not e["res"]["err"]:
                            st["multicast_expansions"] += 1
            elif e["ev"] == "fuzz":
                st["mutated_texts"] += 1
                if e["res"] == "ok":
                    st["mutated_accepted"] += 1
    # binding self-test
    if not ctx.violations:
        lines = open(paths[0]).read().splitlines()[:3000]
        done = {"skipped": "no suitable line"}
        for i, line in enumerate(lines):
            e = json.loads(line)
            if e["ev"] == "load" and not e["res"]["err"] and e["res"]["s4"]["addrs"]:
                e["res"]["s4"]["addrs"][0]["port"] += 1
                lines[i] = json.dumps(e)
                wd = ctx.scratch.sub("selftest")
                p = os.path.join(wd, "corrupt.ndjson")
                open(p, "w").write("\n".join(lines[:i + 3]) + "\n")
                r = core.validate_trace(os.path.join(wd, "tlc"), "ConfigTrace", p, {"Lens": core.tla_set([ctx.prop])})
                if r["accepted"] or r["reject_line"] != i + 1:
                    raise Infra("binding self-test failed: corrupted line %d not rejected (%s)" % (i + 1, r["reject_line"]))
                done = {"corrupted_line": i + 1, "rejected_at": r["reject_line"]}
                break
        st["binding_selftest"] = done
    ctx.trusted += ["harness/config.go: rendering abstract documents to YAML (quoting so that YAML reads the written strings back), abstraction of the "
                    "returned net.UDPAddr / PluginConfig lists, net.Interfaces() flags", "TLC evaluation of ConfigTrace guards"]
    ctx.assumptions += ["ports inside 0..65535 (config.Load does not range-check ports)", "listen specifications of the form [ip6]%zone:port (documented as "
                        "unsupported in config.go) are not generated", "plugin names are lower case (viper lower-cases keys)",
                        "plugin arguments are words that YAML reads back as the same text; exotic numeric spellings only occur in the mutated texts",
                        "a scalar `listen` is a whitespace-separated list (the empty string lists no address)",
                        "arbitrary mutated text is SAMPLED (seeded byte/line mutations of the rendered documents); for it only 'error or success, never panic' is checked"]
    return runner.finish(
        ctx,
        rule="every single listen specification (7 address classes x bracketed or not x no/existing/unknown zone x no/garbage/numeric/empty port, scalar and "
             "list form, both protocols), every shape of the plugins section (absent, null, empty list, scalar, map, lists of 0..3 items that are one plugin / "
             "two plugins / a scalar), the deprecated `interface` keyword, and seeded random documents with both protocols and lists of 0..3 specifications; "
             "plus mutated texts; distinct_nontrivial = documents that were accepted",
        extra_cov=st, distinct_nontrivial=st["accepted"], exhaustive=False)


def replay(ctx, path):
    meta = json.load(open(os.path.join(path, "meta.json")))
    args = meta.get("rerun_args")
    if not args:
        raise Infra("replay meta has no rerun_args")
    return runner.replay_dir(ctx, path, _job(ctx, "replay", None, args))
