"""C14 C17 C19 - plugin decision tables (spec/Plugins.tla, PluginsMC.tla, PluginsTrace.tla)."""
import json
import os

from . import core, runner
from .core import Infra


def _rerun(args):
    def f(ctx, scenario, out):
        d = ctx.scratch.sub("plugdir")
        core.run_harness(ctx.need_harness(), ["plugins"] + [str(a) for a in args] + ["-out", out, "-dir", d], ctx.scratch.dir, timeout=1800)
    return f


def job(ctx, name, trace, args, lens=None):
    prop = ctx.prop
    consts = {"Lens": core.tla_set(lens or [prop]), "Dev": core.tla_set(core.known_devs(prop))}
    return runner.TraceJob(name, "PluginsTrace", trace, consts, chunk=30000, replay=_rerun(args), boundary=lambda e: True,
                           meta={"rerun_args": [str(a) for a in args]})


def produce(ctx, name, args):
    wd = ctx.scratch.sub("plugins-" + name)
    out = os.path.join(wd, name + ".ndjson")
    core.run_harness(ctx.need_harness(), ["plugins"] + [str(a) for a in args] + ["-out", out, "-dir", os.path.join(wd, "d"), "-par", max(4, core.NCPU - 2)],
                     wd, timeout=3000)
    return out


def _stats(path):
    st = {"configurations": 0, "accepted": 0, "rejected_at_setup": 0, "handler_calls": 0, "drops": 0, "stops": 0, "plugins": set(), "child_crashes": 0}
    for line in open(path):
        e = json.loads(line)
        if e["ev"] == "setup":
            st["configurations"] += 1
            st["plugins"].add("%s/%d" % (e["pl"], e["proto"]))
            st["accepted" if e["res"] == "ok" else "rejected_at_setup"] += 1
        elif e["ev"] == "h":
            st["handler_calls"] += 1
            if e["obs"]["nil"]:
                st["drops"] += 1
            if e["obs"]["stop"]:
                st["stops"] += 1
        elif e["ev"] == "crash":
            st["child_crashes"] += 1
    st["plugins"] = sorted(st["plugins"])
    return st


def selftest(ctx, trace):
    lines = open(trace).read().splitlines()[:4000]
    for i, line in enumerate(lines):
        e = json.loads(line)
        if e["ev"] != "h" or e["obs"]["nil"]:
            continue
        hit = False
        if ctx.prop == "C19":
            e["obs"]["roundtrip"] = False
            hit = True
        elif ctx.prop == "C17" and e["pl"] != "server_id":
            for o in e["obs"]["opts"]:
                if o["own"] and o["present"] and o["valueok"]:
                    o["valueok"] = False
                    hit = True
                    break
        elif ctx.prop == "C14" and e["pl"] == "server_id":
            for o in e["obs"]["opts"]:
                if o["own"] and o["present"]:
                    o["present"], o["count"] = False, 0
                    hit = True
                    break
        if hit:
            lines[i] = json.dumps(e)
            wd = ctx.scratch.sub("selftest")
            p = os.path.join(wd, "corrupt.ndjson")
            open(p, "w").write("\n".join(lines[:i + 5]) + "\n")
            r = core.validate_trace(os.path.join(wd, "tlc"), "PluginsTrace", p,
                                    {"Lens": core.tla_set([ctx.prop]), "Dev": core.tla_set([])})
            if r["accepted"] or r["reject_line"] != i + 1:
                raise Infra("binding self-test failed: corrupted line %d not rejected (%s)" % (i + 1, r["reject_line"]))
            return {"corrupted_line": i + 1, "rejected_at": r["reject_line"]}
    return {"skipped": "no suitable line"}


def check(ctx):
    prop = ctx.prop
    ctx.design("PluginsMC.tla", "PluginsMC.cfg")
    if prop in ("C14", "C17"):
        args = ["-mode", "table", "-seed", ctx.seed]
        t = produce(ctx, "table", args)
        runner.run_job(ctx, job(ctx, "table", t, args))
        if prop == "C14":
            # every reply: server_id followed by each other built-in plugin must still leave the identifier in place
            a3 = ["-mode", "sidchain", "-seed", ctx.seed]
            t3 = produce(ctx, "sidchain", a3)
            runner.run_job(ctx, job(ctx, "sidchain", t3, a3))
        if not ctx.quick:
            for k in range(1, 6):
                a2 = ["-mode", "table", "-seed", ctx.seed + 100 * k]
                t2 = produce(ctx, "table%d" % k, a2)
                runner.run_job(ctx, job(ctx, "table%d" % k, t2, a2))
        rule = ("every accepted configuration of a table of %s x the request product its decision table depends on (all 33 parameter request lists "
                "incl. an absent one x OFFER/ACK x yiaddr assigned or not x lease time set or not x option 116; DHCPv6: types x ORO subsets x relay depth; "
                "server_id: siaddr x option 54 x type, DHCPv6 type 1..11 x server-id relation x depth), one fresh process per configuration; the serialised "
                "reply is decoded and compared with the configured arguments" % ("server_id argument vectors" if prop == "C14" else "argument vectors per option plugin"))
    else:
        args = ["-mode", "args", "-arity", 2, "-pairkinds", 16 if ctx.quick else 1000, "-seed", ctx.seed]
        if not ctx.quick:
            args = ["-mode", "args", "-arity", 3, "-seed", ctx.seed]
        t = produce(ctx, "args", args)
        runner.run_job(ctx, job(ctx, "args", t, args))
        rule = ("every argument vector of arity 0..2 (thorough: all pairs + 4000 seeded triples/quadruples) over ~40 argument kinds (addresses of both families, "
                "v4-mapped, CIDRs, route pairs, durations good/negative/garbage, integers in and out of range, URLs, DUID types, MACs, netmasks, existing / "
                "missing / malformed lease files, domains incl. over-long labels, empty string) for all 15 built-in plugins and both protocols, one process per "
                "vector; accepted handlers run a battery of 8-16 requests; replies must serialise and parse back identically")
    st = _stats(t)
    if prop in ("C14", "C17"):
        # in composition (whole chains, Conv): identifiers / options of exactly the plugins that ran, default lease time only when none is set
        from . import fam_conv
        st.update(fam_conv.run(ctx))
        if prop == "C14":
            st.update(fam_conv.run6(ctx))
    st["binding_selftest"] = selftest(ctx, t) if not ctx.violations else {"skipped": "violations reported"}
    ctx.trusted += ["harness/plugins.go: request construction through the codec, this file's own encoders of the configured values (addresses, uint16/uint32, "
                    "RFC 1035 labels, RFC 3442 routes, DUIDs, RFC 5970 parameters) and byte comparison with the serialised reply", "TLC evaluation of PluginsTrace guards"]
    ctx.assumptions += ["C17: accepted = in-range argument vectors as listed in tableConfigs (1..k addresses, MTU <= 65535, non-negative durations, ...)",
                        "sleep durations of a few milliseconds", "one configuration per process (production calls each setup once per process)"]
    nontriv = st["accepted"] if prop != "C19" else st["rejected_at_setup"]
    return runner.finish(ctx, rule=rule + "; distinct_nontrivial = " + ("configurations accepted" if prop != "C19" else "argument vectors rejected at setup"),
                         extra_cov=st, distinct_nontrivial=nontriv, exhaustive=False)


def replay(ctx, path):
    meta = json.load(open(os.path.join(path, "meta.json")))
    if meta.get("family") == "conv6":
        from . import fam_conv
        return fam_conv.replay6(ctx, path)
    if meta.get("family") == "conv":
        from . import fam_conv
        return fam_conv.replay(ctx, path)
    args = meta.get("rerun_args")
    if not args:
        raise Infra("replay meta has no rerun_args")
    return runner.replay_dir(ctx, path, job(ctx, "replay", None, args))
