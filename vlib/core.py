"""Shared machinery of ./check: scratch space, harness build, TLC runs (Leg A design
checks, Leg C trace validation), replays, known findings, evidence files.

Verdict rules (DESIGN.md section 2.3 / 2.8):
  * exit 1 + "VIOLATION property=<id> replay=<path>" only when TLC rejects a trace that was
    recorded from the real code under that property's lens AND re-executing the saved scenario
    is rejected again;
  * everything else that goes wrong (build failure, TLC crash, timeout, an irreproducible
    rejection, a Leg-A counterexample that the code does not reproduce) is exit 2.
"""
import concurrent.futures
import json
import os
import re
import shutil
import subprocess
import sys
import tempfile
import time

VERIF = os.path.dirname(os.path.dirname(os.path.abspath(__file__)))
REPO = os.environ.get("VERIF_REPO", "/repo")
SPEC = os.path.join(VERIF, "spec")
HARNESS_SRC = os.path.join(VERIF, "harness")
BUILD = os.environ.get("VERIF_BUILD", os.path.join(VERIF, ".build"))
NCPU = os.cpu_count() or 4


class Infra(Exception):
    """Infrastructure trouble: exit code 2, never a violation."""


def goenv():
    e = dict(os.environ)
    e.update(GOFLAGS="-mod=mod", GOPROXY="off", GOSUMDB="off", GOTOOLCHAIN="local")
    return e


def log(*a):
    print(*a, file=sys.stderr, flush=True)


class Scratch:
    def __init__(self, tag):
        base = "/dev/shm" if os.path.isdir("/dev/shm") and os.access("/dev/shm", os.W_OK) else None
        self.dir = tempfile.mkdtemp(prefix="verif-%s-" % tag, dir=base)
        self.n = 0

    def sub(self, name):
        self.n += 1
        d = os.path.join(self.dir, "%03d-%s" % (self.n, name))
        os.makedirs(d)
        return d

    def cleanup(self):
        shutil.rmtree(self.dir, ignore_errors=True)


def build_harness(race=False):
    """(Re)build the harness against /repo's current working tree, hooks on."""
    os.makedirs(BUILD, exist_ok=True)
    src = HARNESS_SRC
    if os.path.abspath(REPO) != "/repo":
        # VERIF_REPO points at another checkout (e.g. a snapshot for a background run): build a copy of
        # the harness whose go.mod replaces the module with that checkout
        src = os.path.join(BUILD, "src-" + str(abs(hash(os.path.abspath(REPO)))))
        shutil.rmtree(src, ignore_errors=True)
        shutil.copytree(HARNESS_SRC, src)
        gm = open(os.path.join(src, "go.mod")).read().replace("=> /repo", "=> " + os.path.abspath(REPO))
        open(os.path.join(src, "go.mod"), "w").write(gm)
    shutil.copyfile(os.path.join(REPO, "go.sum"), os.path.join(src, "go.sum"))
    out = os.path.join(BUILD, "harness-race" if race else "harness")
    tmp = out + ".%d.tmp" % os.getpid()
    cmd = ["go", "build", "-tags", "verif"] + (["-race"] if race else []) + ["-o", tmp, "."]
    t0 = time.time()
    p = subprocess.run(cmd, cwd=src, env=goenv(), stdout=subprocess.PIPE,
                       stderr=subprocess.STDOUT, text=True)
    if p.returncode != 0:
        raise Infra("harness build failed:\n" + p.stdout[-4000:])
    os.replace(tmp, out)
    log("[build] harness%s built in %.1fs" % (" (-race)" if race else "", time.time() - t0))
    return out


def run_harness(binary, args, cwd, timeout=3600, env=None, ok_codes=(0,)):
    e = goenv()
    if env:
        e.update(env)
    t0 = time.time()
    try:
        p = subprocess.run([binary] + [str(a) for a in args], cwd=cwd, env=e, stdout=subprocess.PIPE,
                           stderr=subprocess.PIPE, text=True, timeout=timeout, errors="replace")
    except subprocess.TimeoutExpired:
        raise Infra("harness %s timed out after %ds" % (args[0], timeout))
    if p.returncode not in ok_codes:
        crash = crash_in_code_under_test(p.stderr or "")
        outs = [str(args[i + 1]) for i, a in enumerate(args[:-1]) if str(a) == "-out"]
        if crash and outs and os.path.exists(outs[0]):
            # the code under test took the process down: that is an observation, not harness trouble.
            # It is appended to the recording; no action of any trace specification explains it.
            ev = {"ev": "crash", "what": crash, "exit": p.returncode}
            if os.path.exists(outs[0] + ".pending"):
                # the input the harness was handing over when the process died (it is in no recorded line)
                try:
                    ev["pending"] = json.load(open(outs[0] + ".pending"))
                except ValueError:
                    pass
            with open(outs[0], "a") as f:
                f.write(json.dumps(ev) + "\n")
            log("[harness] %s: process died inside the code under test: %s" % (args[0], crash[:200]))
            return p
        raise Infra("harness %s exited %d:\n%s" % (" ".join(map(str, args[:3])), p.returncode,
                                                  (p.stderr or "")[-3000:]))
    log("[harness] %s: %.1fs" % (args[0], time.time() - t0))
    return p


def crash_in_code_under_test(stderr):
    """If the process died of a Go panic / fatal error whose crashing goroutine was executing code of
    /repo (github.com/coredhcp/coredhcp/...), return a one-line description, else None."""
    m = re.search(r"^(fatal error: .*|panic: .*)$", stderr, re.M)
    if not m:
        return None
    rest = stderr[m.start():]
    blocks = re.split(r"\n\s*\n", rest)
    # the first goroutine block printed is the one that crashed
    first = "\n".join(blocks[:3])
    if "github.com/coredhcp/coredhcp/" in first:
        fr = re.findall(r"(github.com/coredhcp/coredhcp/[^\s(]+)", first)
        return "%s in %s" % (m.group(1)[:160], fr[0] if fr else "?")
    return None


# ------------------------------------------------------------------------------------------
# TLC

_TLC_CP = "/opt/veriftools/tla/tla2tools.jar:/opt/veriftools/tla/CommunityModules-deps.jar"


def stage_spec(workdir):
    for f in os.listdir(SPEC):
        if f.endswith(".tla"):
            shutil.copyfile(os.path.join(SPEC, f), os.path.join(workdir, f))


def tlc(workdir, module, cfg, workers=1, timeout=1800, heap="4g", extra=(), dfs=False):
    """Run TLC in workdir (spec files staged there). Returns dict with rc, out and parsed stats."""
    java = ["java", "-XX:+UseSerialGC" if workers == 1 else "-XX:+UseParallelGC", "-Xmx" + heap, "-Xss64m",
            "-Djava.io.tmpdir=" + workdir]       # TLC leaves an empty tlc-* directory per run in java.io.tmpdir: keep it in the scratch space
    if dfs:
        java.append("-Dtlc2.tool.queue.IStateQueue=StateDeque")
    cmd = java + ["-cp", _TLC_CP, "tlc2.TLC", "-workers", str(workers), "-noGenerateSpecTE",
                  "-metadir", os.path.join(workdir, "meta"), "-config", cfg] + list(extra) + [module]
    t0 = time.time()
    try:
        p = subprocess.run(cmd, cwd=workdir, stdout=subprocess.PIPE, stderr=subprocess.STDOUT,
                           text=True, timeout=timeout, errors="replace")
    except subprocess.TimeoutExpired:
        raise Infra("TLC timed out after %ds on %s/%s" % (timeout, module, cfg))
    out = p.stdout
    r = {"rc": p.returncode, "out": out, "wall": time.time() - t0, "generated": 0, "distinct": 0,
         "depth": 0}
    m = re.search(r"(\d+) states generated, (\d+) distinct states found", out)
    if m:
        r["generated"], r["distinct"] = int(m.group(1)), int(m.group(2))
    m = re.search(r"depth of the complete state graph search is (\d+)", out)
    if m:
        r["depth"] = int(m.group(1))
    m = re.search(r"Invariant (\S+) is violated", out)
    r["invariant_violated"] = m.group(1) if m else None
    m = re.search(r"Temporal properties were violated|Action property (\S+).* is violated", out)
    r["property_violated"] = bool(m)
    r["postcondition_failed"] = "Postcondition" in out and "is false" in out
    r["deadlock"] = "Deadlock reached" in out
    r["completed"] = "Model checking completed. No error has been found." in out
    r["parse_error"] = ("Parsing or semantic analysis failed" in out) or ("TLC threw an unexpected exception" in out) \
        or ("Error: TLC" in out and not r["invariant_violated"])
    return r


def leg_a(scratch, module, cfg, workers=None, timeout=1800, heap="8g", expect_fail=None):
    """Design check. Returns stats. A counterexample here is never a violation by itself."""
    wd = scratch.sub("legA-" + cfg.replace(".cfg", ""))
    stage_spec(wd)
    shutil.copyfile(os.path.join(SPEC, cfg), os.path.join(wd, cfg))
    r = tlc(wd, module, cfg, workers=workers or min(NCPU, 8), timeout=timeout, heap=heap)
    if expect_fail:
        if r["invariant_violated"] != expect_fail and not (expect_fail == "*" and (r["invariant_violated"] or r["property_violated"])):
            raise Infra("Leg A %s/%s: expected %s to fail (weakened model), TLC said:\n%s"
                        % (module, cfg, expect_fail, r["out"][-2000:]))
    elif not r["completed"]:
        raise Infra("Leg A %s/%s did not complete cleanly (design model problem, not a code violation):\n%s"
                    % (module, cfg, r["out"][-3000:]))
    log("[legA] %s/%s: %d generated, %d distinct, depth %d, %.1fs" %
        (module, cfg, r["generated"], r["distinct"], r["depth"], r["wall"]))
    return r


def proof(scratch, module, timeout=900):
    """Unbounded argument about the DESIGN: run the TLA+ proof system on <module>.tla (a hierarchical proof of an
    inductive invariant of the design module it EXTENDS).  Advisory - it says nothing about the code, so it can
    neither raise nor clear a violation: the result goes into the evidence."""
    wd = scratch.sub("proof-" + module)
    stage_spec(wd)
    t0 = time.time()
    try:
        p = subprocess.run(["tlapm", "--threads", str(min(NCPU, 8)), module + ".tla"], cwd=wd, stdout=subprocess.PIPE,
                           stderr=subprocess.STDOUT, text=True, timeout=timeout, errors="replace")
        out = p.stdout
    except (subprocess.TimeoutExpired, OSError) as e:
        out = "tlapm: %s" % e
    m = re.search(r"All (\d+) obligations? proved", out)
    r = {"module": module, "proved": bool(m), "obligations": int(m.group(1)) if m else 0, "wall_s": round(time.time() - t0, 1)}
    if not m:
        f = re.search(r"(\d+)/(\d+) obligations failed", out)
        r["detail"] = f.group(0) if f else out[-300:]
    log("[proof] %s: %s" % (module, "all %d obligations proved" % r["obligations"] if r["proved"] else "NOT proved (%s)" % r["detail"]))
    return r


def simulate_scenarios(scratch, module, cfg, num, depth, seed, timeout=600):
    """Model -> code: let TLC simulate `num` behaviours of a generator module and collect the histories it
    prints as <<"SCN", json>> (de-duplicated, in order of first appearance)."""
    wd = scratch.sub("sim-" + module)
    stage_spec(wd)
    shutil.copyfile(os.path.join(SPEC, cfg), os.path.join(wd, cfg))
    r = tlc(wd, module + ".tla", cfg, workers=1, timeout=timeout, heap="2g",
            extra=["-simulate", "num=%d" % num, "-depth", str(depth), "-seed", str(seed)])
    if "rror" in r["out"] and "SCN" not in r["out"]:
        raise Infra("TLC simulation of %s failed:\n%s" % (module, r["out"][-2000:]))
    seen, out = set(), []
    for m in re.finditer(r'<<"SCN", ("(?:[^"\\]|\\.)*")>>', r["out"]):
        try:
            txt = json.loads(m.group(1))
            if txt in seen:
                continue
            seen.add(txt)
            out.append(json.loads(txt))
        except ValueError:
            continue
    if r["invariant_violated"]:
        raise Infra("generator model %s violates its own invariant %s (design problem, not a code violation)" % (module, r["invariant_violated"]))
    return out


def cfg_text(spec="TraceSpec", consts=None, invariants=(), post="TraceAccepted", extra=""):
    lines = ["SPECIFICATION " + spec]
    if consts:
        lines.append("CONSTANTS")
        for k, v in consts.items():
            lines.append("  %s = %s" % (k, v))
    for i in invariants:
        lines.append("INVARIANT " + i)
    if post:
        lines.append("POSTCONDITION " + post)
    lines.append("CHECK_DEADLOCK FALSE")
    if extra:
        lines.append(extra)
    return "\n".join(lines) + "\n"


def tla_set(items):
    return "{" + ", ".join('"%s"' % i for i in items) + "}"


def validate_trace(workdir, module, trace_path, consts, invariants=(), timeout=1800, heap="3g"):
    """Leg C on one trace file. Returns dict(accepted, reject_line, n, pre_violated, known, out)."""
    os.makedirs(workdir, exist_ok=True)
    stage_spec(workdir)
    dst = os.path.join(workdir, "trace.ndjson")
    if os.path.abspath(trace_path) != dst:
        shutil.copyfile(trace_path, dst)
    n = sum(1 for _ in open(dst))
    with open(os.path.join(workdir, "MC.cfg"), "w") as f:
        f.write(cfg_text(consts=consts, invariants=invariants))
    r = tlc(workdir, module + ".tla", "MC.cfg", workers=1, timeout=timeout, heap=heap)
    res = {"n": n, "accepted": False, "reject_line": None, "pre_violated": None, "out": r["out"],
           "states": r["distinct"], "wall": r["wall"], "known": []}
    res["known"] = sorted(set(re.findall(r'"KNOWNDEV",\s*"([^"]+)"', r["out"])))
    res["counts"] = {}
    for k, v in re.findall(r'"COUNT",\s*"([^"]+)",\s*(\d+)', r["out"]):
        res["counts"][k] = int(v)
    if r["invariant_violated"]:
        res["pre_violated"] = r["invariant_violated"]
        return res
    m = re.search(r'"REJECT_AT",\s*(\d+),\s*(\d+)', r["out"])
    if m:
        res["reject_line"] = int(m.group(1))
        return res
    if r["completed"] and r["depth"] == n + 1:
        res["accepted"] = True
        return res
    if n == 0 and r["completed"]:
        res["accepted"] = True
        return res
    raise Infra("trace validation of %s with %s ended unexpectedly:\n%s" % (trace_path, module, r["out"][-3000:]))


def split_trace(path, outdir, max_lines, boundary=lambda e: e.get("ev") == "reset"):
    """Split an ndjson trace into chunk files of about max_lines lines, cutting only in front of
    scenario boundaries (lines for which boundary(e) holds). Returns the list of chunk paths."""
    os.makedirs(outdir, exist_ok=True)
    chunks, cur, k = [], [], 0

    def flush():
        nonlocal cur, k
        if cur:
            p = os.path.join(outdir, "chunk%04d.ndjson" % k)
            with open(p, "w") as f:
                f.writelines(cur)
            chunks.append(p)
            k += 1
            cur = []

    with open(path) as f:
        for line in f:
            if len(cur) >= max_lines:
                try:
                    e = json.loads(line)
                except ValueError:
                    raise Infra("bad trace line in %s" % path)
                if boundary(e):
                    flush()
            cur.append(line)
    flush()
    return chunks


def validate_chunks(scratch, module, chunks, consts, invariants=(), jobs=None, timeout=1800, heap="3g"):
    """Validate chunk files in parallel. Returns list of results in chunk order (each with 'chunk')."""
    jobs = jobs or max(1, min(NCPU - 2, len(chunks)))
    results = [None] * len(chunks)

    def one(i):
        wd = scratch.sub("legC-%s-%d" % (module, i))
        r = validate_trace(wd, module, chunks[i], consts, invariants, timeout=timeout, heap=heap)
        r["chunk"] = chunks[i]
        return i, r

    with concurrent.futures.ThreadPoolExecutor(max_workers=jobs) as ex:
        for i, r in ex.map(one, range(len(chunks))):
            results[i] = r
    return results


def scenario_of_line(chunk_path, line_no, boundary=lambda e: e.get("ev") == "reset"):
    """Lines of the scenario that contains 1-based line_no (from the preceding boundary up to and
    including the failing line)."""
    lines = open(chunk_path).read().splitlines()
    start = 0
    for i in range(min(line_no, len(lines)) - 1, -1, -1):
        try:
            if boundary(json.loads(lines[i])):
                start = i
                break
        except ValueError:
            pass
    end = line_no
    # extend to the end of the scenario, so that a replay re-executes it completely
    for j in range(line_no, len(lines)):
        try:
            if boundary(json.loads(lines[j])):
                break
        except ValueError:
            pass
        end = j + 1
    return lines[start:end], line_no - start


# ------------------------------------------------------------------------------------------
# known findings

def load_known():
    p = os.path.join(VERIF, "known-findings.json")
    if not os.path.exists(p):
        return []
    return json.load(open(p))


def known_devs(prop):
    """Names of deviation actions enabled for this property (status == known)."""
    return [k["deviation"] for k in load_known() if k.get("status") == "known" and k["property"] == prop]


def known_what(prop, dev):
    for k in load_known():
        if k.get("status") == "known" and k["property"] == prop and k["deviation"] == dev:
            return k["what"]
    return dev


# ------------------------------------------------------------------------------------------
# evidence, replays

def save_replay(prop, name, files, meta):
    d = os.path.join(VERIF, "replays", "%s-%s" % (prop, name))
    os.makedirs(d, exist_ok=True)
    for fn, content in files.items():
        with open(os.path.join(d, fn), "w") as f:
            f.write(content)
    with open(os.path.join(d, "meta.json"), "w") as f:
        json.dump(meta, f, indent=1)
    return d


def write_evidence(prop, tier, seed, coverage, assumptions, wall, violations, level="model_checking"):
    os.makedirs(os.path.join(VERIF, "evidence"), exist_ok=True)
    ev = {"property_id": prop, "tier": tier, "seed": seed, "level": level, "coverage": coverage,
          "assumptions": assumptions, "wall_s": round(wall, 2), "violations": violations}
    p = os.path.join(VERIF, "evidence", prop + ".json")
    with open(p + ".tmp", "w") as f:
        json.dump(ev, f, indent=1)
    os.replace(p + ".tmp", p)
    return p


def sample_lines(path, k=3):
    out = []
    try:
        with open(path) as f:
            lines = f.readlines()
        if not lines:
            return out
        step = max(1, len(lines) // k)
        for i in range(0, len(lines), step):
            out.append(json.loads(lines[i]))
            if len(out) >= k:
                break
    except (OSError, ValueError):
        pass
    return out
