"""C20 - prefix arithmetic (spec/IPCalc.tla, IPCalcMC.tla, IPCalcTrace.tla)."""
import os

from . import core, runner

CONSTS = {"LB": "16", "NL": "8"}


def _replay(ctx, scenario, out):
    core.run_harness(ctx.need_harness(), ["ipcalc", "-replay", scenario, "-out", out], ctx.scratch.dir)


def job(ctx, name, trace):
    c = dict(CONSTS)
    c["Lens"] = core.tla_set([ctx.prop])
    return runner.TraceJob(name, "IPCalcTrace", trace, c, invariants=("PreOK",), chunk=2500,
                           replay=_replay, boundary=lambda e: True)


def check(ctx):
    # Leg A: limb reference = algorithm transcription = mathematical statement, small worlds
    ctx.design("IPCalcMC.tla", "IPCalcMC_W6.cfg")
    ctx.design("IPCalcMC.tla", "IPCalcMC_W10.cfg", workers=8)
    if not ctx.quick:
        ctx.design("IPCalcMC.tla", "IPCalcMC_W8.cfg", workers=8)          # four limbs: carries across several limbs of the reference
        ctx.design("IPCalcMC.tla", "IPCalcMC_W12.cfg", workers=12, timeout=2400)
        ctx.design("IPCalcMC.tla", "IPCalcMC_W6_unguarded.cfg", expect_fail="AlgUnguardedIsMath")
    # Leg B: small world embedded into 128 bit + seeded random/boundary cases on the real functions
    h = ctx.need_harness()
    wd = ctx.scratch.sub("ipcalc")
    trace = os.path.join(wd, "trace.ndjson")
    w, n = (6, 12000) if ctx.quick else (10, 300000)
    core.run_harness(h, ["ipcalc", "-out", trace, "-seed", ctx.seed, "-w", w, "-n", n], wd)
    # Leg C
    runner.run_job(ctx, job(ctx, "ipcalc", trace))
    small = rand = ov = 0
    import json
    for line in open(trace):
        e = json.loads(line)
        if e["src"] == "small":
            small += 1
        else:
            rand += 1
        if e["err"] == "overflow":
            ov += 1
    ctx.trusted += ["harness/ipcalc.go: 128-bit values <-> sixteen-bit limbs; small-world embedding (checked by PreOK)",
                    "TLC evaluation of IPCalc!RefOffset/RefAdd at 128 bit"]
    ctx.assumptions += ["preconditions of C20: base aligned to /p, x >= base, 0 <= p <= 128, n < 2^64 (re-checked by TLC invariant PreOK on every record)"]
    return runner.finish(
        ctx,
        rule="every case of the W=%d small world of IPCalcMC (all p, aligned bases, x >= base in both argument orders, all n) "
             "embedded into 128 bit, plus %d seeded random/boundary 128-bit cases; each record compared by TLC with the limb reference; "
             "non-trivial = record whose expected result is an overflow" % (w, n),
        extra_cov={"small_world_records": small, "random_records": rand, "small_world_bits": w},
        distinct_nontrivial=ov,
        exhaustive=False)


def replay(ctx, path):
    j = job(ctx, "replay", None)
    r = runner.replay_dir(ctx, path, j)
    return r
