"""C01 C16 - the whole server (spec/Server.tla, ServerMC.tla, ServerTrace.tla; C16 also re-validates the
lease families' concurrent recordings with RangeTrace / PrefixTrace / AllocTrace under lens C16)."""
import json
import os

from . import core, runner
from .core import Infra, log


def _rerun(args, race=False, split=None):
    def f(ctx, scenario, out):
        d = ctx.scratch.sub("srvdir")
        tmp = out if split is None else os.path.join(d, "all.ndjson")
        p = core.run_harness(ctx.need_harness(race), ["server"] + [str(a) for a in args] + ["-out", tmp, "-dir", os.path.join(d, "w")], ctx.scratch.dir,
                             timeout=3000, env={"GORACE": "halt_on_error=0 exitcode=66"}, ok_codes=(0, 66))
        _note_race(p, tmp)
        if split is not None:
            _split(tmp, {split: out})
    return f


def _note_race(p, trace):
    if "DATA RACE" in (p.stderr or ""):
        first = (p.stderr.split("WARNING: DATA RACE", 1)[1])[:1500]
        with open(trace, "a") as f:
            f.write(json.dumps({"fam": "server", "ev": "race", "report": first}) + "\n")
        return True
    return False


def _split(path, outs):
    """outs: fam -> file. Lines without fam go to 'server'."""
    fs = {k: open(v, "w") for k, v in outs.items()}
    for line in open(path):
        e = json.loads(line)
        fam = e.pop("fam", "server")
        if fam in fs:
            fs[fam].write(json.dumps(e) + "\n")
    for f in fs.values():
        f.close()


def _job(ctx, name, module, trace, replay, attempts=1, boundary=None, extra_consts=None):
    consts = {"Lens": core.tla_set([ctx.prop])}
    if extra_consts:
        consts.update(extra_consts)
    return runner.TraceJob(name, module, trace, consts, chunk=30000, replay=replay, attempts=attempts,
                           boundary=boundary or (lambda e: e.get("ev") in ("reset", "chain")))


def check(ctx):
    prop = ctx.prop
    for cfg in ["Server_v4.cfg", "Server_v6.cfg", "Server_mix.cfg", "Server_v6_panic_defer.cfg"] + ([] if ctx.quick else ["Server_v4b.cfg", "Server_v6b.cfg"]):
        ctx.design("ServerMC.tla", cfg, workers=4)
    if not ctx.quick:
        # the weakened models: what breaks when the lock is per IA_PD / a panic leaves the mutex locked
        ctx.design("ServerMC.tla", "Server_v6_perIA.cfg", expect_fail="SerialEquivalent6")
        ctx.design("ServerMC.tla", "Server_v6_panic.cfg", expect_fail="LocksFreeAtRest")
    st = {}
    if prop == "C01":
        seeds = [ctx.seed] if ctx.quick else [ctx.seed + i for i in range(8)]
        paths = []
        for sd in seeds:
            args = ["-mode", "chains", "-seed", sd, "-level", 1 if ctx.quick else 2, "-ndg", 40 if ctx.quick else 160, "-par", max(4, core.NCPU - 2)]
            wd = ctx.scratch.sub("server-chains")
            t = os.path.join(wd, "chains.ndjson")
            core.run_harness(ctx.need_harness(), ["server"] + [str(a) for a in args] + ["-out", t, "-dir", os.path.join(wd, "w")], wd, timeout=3000)
            runner.run_job(ctx, _job(ctx, "chains", "ServerTrace", t, _rerun(args)))
            paths.append(t)
        # beyond the listed properties: Start / Serve / Wait / Close with real UDP sockets on loopback (drift detector)
        for cfg in ("Lifecycle_2_0.cfg", "Lifecycle_3_0.cfg", "Lifecycle_3_2.cfg", "Lifecycle_0_0.cfg", "Lifecycle_1_1.cfg"):
            ctx.design("Lifecycle.tla", cfg, workers=2)
        if not ctx.quick:
            # the weakened design: a 0-byte read taken for end of stream ends the Serve loop
            ctx.design("Lifecycle.tla", "Lifecycle_2_0_emptyquits.cfg", expect_fail="ServesWhileOpen")
        # C01 on the REAL receive loops: byte strings of every length (0 included) over UDP, then a request that must be answered; bursts
        from . import fam_life
        lt, sockst = fam_life.sockets_job(ctx)
        # a lease store that cannot be written for a while (somebody else's write transaction on the database): every request is
        # answered or dropped - during the fault and, above all, after it; none waits for ever (20 s watchdog per request)
        from . import fam_range
        fargs = ["-mode", "fault", "-count", 8 if ctx.quick else 200, "-seed", ctx.seed]
        fwd = ctx.scratch.sub("store-fault")
        ft = os.path.join(fwd, "fault.ndjson")
        core.run_harness(ctx.need_harness(), ["range"] + [str(a) for a in fargs] + ["-out", ft, "-dir", fwd], fwd, timeout=1800)
        runner.run_job(ctx, fam_range._job(ctx, "store-fault", ft, fam_range._rerun([str(a) for a in fargs])))
        lifecycle_lines = sum(1 for _ in open(lt))
        sock_dgs = sockst["datagrams_over_real_sockets"]
        # everything else about Start / Serve / Wait / Close: drift detector
        ev, tr = ctx.events, ctx.traces_ok
        runner.run_job(ctx, runner.TraceJob("lifecycle", "LifecycleTrace", lt, {"Lens": core.tla_set(["LIFE"])}, boundary=lambda e: e.get("ev") == "lstart", drift=True))
        ctx.events, ctx.traces_ok = ev, tr
        c = {"lifecycle_events_real_sockets": lifecycle_lines, "datagrams_over_real_sockets": sock_dgs, "chains": 0, "datagrams": 0, "mutated": 0, "replies": 0, "drops": 0, "probes": 0, "kinds": set(), "mutations": set(), "plugins_seen": set()}
        for p in paths:
            for line in open(p):
                e = json.loads(line)
                if e["ev"] == "chain":
                    c["chains"] += 1
                    c["plugins_seen"].update(e["c4"] + e["c6"])
                elif e["ev"] == "dg":
                    c["datagrams"] += 1
                    c["kinds"].add(e["kind"])
                    if e["mut"] != "none":
                        c["mutated"] += 1
                        c["mutations"].add(e["mut"])
                    c["replies" if e["res"] == "reply" else "drops"] += 1
                elif e["ev"] == "probe":
                    c["probes"] += 1
        for k in ("kinds", "mutations", "plugins_seen"):
            c[k] = sorted(c[k])
        st = c
        nontriv = c["mutated"]
        rule = ("chains of real built-in plugins with valid arguments (every single plugin, ordered pairs, seeded chains of <= 4 for both protocols at once, "
                "the full example chains, the empty chain), each in its own process, each fed a seeded history of well-formed datagrams of every message type "
                "(DHCPv4 incl. hardware lengths 0/16, relayed, other-server; DHCPv6 incl. IA_PD hints of length 0, relay depth 0..3, no client id) and byte-mutated "
                "ones (truncate, bit flips, option/length bytes, duplicated slices, junk, 65535 bytes, empty); outcome per datagram from the send hook, recover() and "
                "a 10 s watchdog that inspects goroutine stacks; liveness probes after every history; distinct_nontrivial = mutated datagrams. The byte axis is SAMPLED. "
                "Plus the real receive loops (server.Start on loopback UDP sockets, no hooks): empty / 1-byte / truncated / junk / 60000-byte datagrams, each followed by a request that must be answered.")
    else:
        # the real receive loops under a burst of clients (real sockets): each reply answers ITS request at ITS address
        from . import fam_life
        _, sockst = fam_life.sockets_job(ctx)
        # the static lease file refreshed twice in quick succession (a big table, then a small one while the first reload is
        # still parsing): the mapping that is served when everything has settled is the file's
        from . import fam_file
        ga = ["-mode", "gen2", "-count", 1 if ctx.quick else 3]
        gouts = fam_file.run_parts(ctx, "gen2", [ga], 1)
        runner.run_job(ctx, runner.TraceJob("gen2", "FileTrace", gouts[0], {"Lens": core.tla_set([ctx.prop])}, replay=fam_file._rerun(ga), boundary=lambda e: False,
                                            meta={"rerun_args": ga, "family": "file"}))
        h = ctx.need_harness(True)
        rounds = 3 if ctx.quick else 25
        args = ["-mode", "conc", "-seed", ctx.seed, "-rounds", rounds]
        wd = ctx.scratch.sub("server-conc")
        allp = os.path.join(wd, "all.ndjson")
        p = core.run_harness(h, ["server"] + [str(a) for a in args] + ["-out", allp, "-dir", os.path.join(wd, "w")], wd, timeout=3000,
                             env={"GORACE": "halt_on_error=0 exitcode=66"}, ok_codes=(0, 66))
        raced = _note_race(p, allp)
        outs = {k: os.path.join(wd, k + ".ndjson") for k in ("server", "range", "prefix")}
        _split(allp, outs)
        for j in (_job(ctx, "conc-server", "ServerTrace", outs["server"], _rerun(args, True, "server"), attempts=4, boundary=lambda e: False),
                  _job(ctx, "conc-range", "RangeTrace", outs["range"], _rerun(args, True, "range"), attempts=4),
                  _job(ctx, "conc-prefix", "PrefixTrace", outs["prefix"], _rerun(args, True, "prefix"), attempts=4)):
            runner.run_job(ctx, j)
            runner.run_disc(ctx, j)
        # the schedule of the weakened model (lock per IA_PD), imposed through the observation points
        sargs = ["-mode", "sched"]
        t = os.path.join(wd, "sched.ndjson")
        core.run_harness(ctx.need_harness(), ["server"] + sargs + ["-out", t], wd, timeout=300)
        runner.run_job(ctx, _job(ctx, "sched", "ServerTrace", t, _rerun(sargs), boundary=lambda e: True))
        # the allocators and the range plugin: stress and exclusion probes on the -race build
        from . import fam_alloc, fam_range
        for name, fargs, module in (("alloc-conc", ["alloc", "-mode", "conc", "-rounds", 8 if ctx.quick else 40, "-seed", ctx.seed], "AllocTrace"),
                                    ("alloc-probe", ["alloc", "-mode", "probe"], "AllocTrace"),
                                    ("range-conc", ["range", "-mode", "conc", "-rounds", 4 if ctx.quick else 30, "-seed", ctx.seed], "RangeTrace"),
                                    ("range-probe", ["range", "-mode", "probe"], "RangeTrace")):
            t = os.path.join(wd, name + ".ndjson")

            def rer(ctx2, scenario, out, fargs=fargs):
                d = ctx2.scratch.sub("rer")
                extra = ["-dir", d] if fargs[0] == "range" else []
                pp = core.run_harness(ctx2.need_harness(True), [str(a) for a in fargs] + ["-out", out] + extra, ctx2.scratch.dir, timeout=1200,
                                      env={"GORACE": "halt_on_error=0 exitcode=66"}, ok_codes=(0, 66))
                _note_race(pp, out)
            rer(ctx, None, t)
            jj = _job(ctx, name, module, t, rer, attempts=4)
            runner.run_job(ctx, jj)
            runner.run_disc(ctx, jj)
        c = {"concurrent_rounds_16_goroutines": rounds, "race_detector_reports": 1 if raced else 0, "file_swaps_during_load": 0, "datagrams": 0,
             "range_linearized_requests": 0, "prefix_messages": 0, "schedules_imposed": 0, "schedules_refused_by_lock": 0}
        for line in open(outs["server"]):
            e = json.loads(line)
            if e["ev"] == "swap":
                c["file_swaps_during_load"] += 1
            elif e["ev"] == "dg":
                c["datagrams"] += 1
        c["range_linearized_requests"] = sum(1 for l in open(outs["range"]) if '"creq"' in l)
        c["prefix_messages"] = sum(1 for l in open(outs["prefix"]) if '"ev": "msg"' in l or '"ev":"msg"' in l)
        for line in open(os.path.join(wd, "sched.ndjson")):
            e = json.loads(line)
            c["schedules_imposed" if e.get("imposed") else "schedules_refused_by_lock"] += 1
        st = c
        nontriv = c["range_linearized_requests"] + c["prefix_messages"]
        rule = ("full chains (server_id, file with autorefresh, dns, range / prefix, lease_time) on the -race build; 16 goroutines per round feed DISCOVER/REQUEST and "
                "SOLICITs with 1-2 IA_PDs of five clients against a four-address range and a four-block pool through Feed (buffers from the server's pool, poisoned on "
                "return) while the lease files are appended to; in-lock observation points give the linearization order; RangeTrace / PrefixTrace / AllocTrace / "
                "ServerTrace validate under lens C16; the TLC counterexample of the per-IA_PD-lock model is imposed through the observation points (sched); any race "
                "detector report is an event without action; distinct_nontrivial = linearized range requests + prefix messages. Interleavings are SAMPLED "
                "(plus the deterministic schedules); the race detector only sees what these executions do.")
    ctx.trusted += ["harness/server.go: datagram generators and mutators, per-goroutine capture through the send hooks, watchdog + goroutine stack inspection, "
                    "the Go race detector", "TLC evaluation of the trace guards"]
    ctx.assumptions += ["every byte string / every interleaving cannot be enumerated: datagram bytes and free-running schedules are sampled with the seed; the model "
                        "contributes the history/chain/lock-order dimensions exhaustively within its constants", "sleep plugin with millisecond delays"]
    return runner.finish(ctx, rule=rule, extra_cov=st, distinct_nontrivial=nontriv, exhaustive=False)


def replay(ctx, path):
    """Server scenarios are re-produced by running the producing harness mode again (same seed) and validating its whole recording."""
    meta = json.load(open(os.path.join(path, "meta.json")))
    job, seed = meta.get("job", ""), meta.get("seed", 1)
    lens = {"Lens": core.tla_set([ctx.prop])}
    if job in ("sockets", "lifecycle") or meta.get("family") == "lifecycle":
        def relife(ctx2, scenario, out):
            core.run_harness(ctx2.need_harness(), ["lifecycle", "-seed", seed, "-out", out], ctx2.scratch.sub("relife"), timeout=600)
        j = runner.TraceJob("replay", "LifecycleTrace", None, lens, replay=relife, boundary=lambda e: False)
    elif job == "gen2":
        from . import fam_file
        j = runner.TraceJob("replay", "FileTrace", None, lens, replay=fam_file._rerun(meta.get("rerun_args", ["-mode", "gen2", "-count", 1])), boundary=lambda e: False)
    elif job == "chains":
        j = runner.TraceJob("replay", "ServerTrace", None, lens, replay=_rerun(["-mode", "chains", "-seed", seed, "-level", 1, "-ndg", 40, "-par", max(4, core.NCPU - 2)]),
                            boundary=lambda e: False)
    elif job == "store-fault":
        from . import fam_range
        j = fam_range._job(ctx, "replay", None, fam_range._rerun(["-mode", "fault", "-count", "8", "-seed", str(seed)]))
    elif job == "sched":
        j = runner.TraceJob("replay", "ServerTrace", None, lens, replay=_rerun(["-mode", "sched"]), boundary=lambda e: False)
    elif job.startswith("conc-"):
        fam = job.split("-", 1)[1]
        module = {"server": "ServerTrace", "range": "RangeTrace", "prefix": "PrefixTrace"}.get(fam, "ServerTrace")
        j = runner.TraceJob("replay", module, None, lens, replay=_rerun(["-mode", "conc", "-seed", seed, "-rounds", 3], True, fam), boundary=lambda e: False)
    else:
        raise Infra("no replay recipe for job %s of %s" % (job, ctx.prop))
    return runner.replay_dir(ctx, path, j)
