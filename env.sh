# source me: offline Go settings used by every command here
export GOFLAGS=-mod=mod GOPROXY=off GOSUMDB=off GOTOOLCHAIN=local
